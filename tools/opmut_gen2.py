# Random single-token operator mutants of /repo/src (development aid, DESIGN section 9c): writes numbered diffs to a /tmp directory;
# evaluate them with tools/diffeval.py and read the SILENT ones. usage: opmut_genN.py <count> <seed> [outdir]
import re, random, os, sys, difflib
OUT=sys.argv[3] if len(sys.argv)>3 else "/tmp/opmut6"
os.makedirs(OUT, exist_ok=True)
random.seed(int(sys.argv[2]) if len(sys.argv)>2 else 5)
REPO="/repo"
FILES=["src/chess/mod.rs","src/chess/piece.rs","src/chess/gamestate.rs","src/chess/position.rs","src/chess/move_struct.rs","src/chess/zobrist.rs","src/search.rs","src/uci.rs"]
OPS=[(r"\.min\(", ".max(", "minmax"), (r"\.max\(", ".min(", "minmax"),
     (r"saturating_sub", "saturating_add", "sat"), (r"saturating_add", "saturating_sub", "sat"),
     (r"\bbreak;", "continue;", "jump"), (r"\bcontinue;", "break;", "jump"),
     (r"if !", "if ", "neg"), (r"\.is_some\(\)", ".is_none()", "opt"), (r"\.is_none\(\)", ".is_some()", "opt"),
     (r"\(row, col\)", "(col, row)", "swap"), (r"\bstart\b", "end", "swap2"), (r"\bend\b", "start", "swap2"),
     (r"\bwtime\b", "btime", "swap3"), (r"\bwinc\b", "binc", "swap3"), (r"\bstart_col\b", "end_col", "swap2"),
     (r"\bKing\b", "Queen", "kind"), (r"\bRook\b", "Bishop", "kind"), (r"\bPawn\b", "Knight", "kind"),
     (r"\bwhite_king\b", "white_queen", "right"), (r"\bblack_king\b", "black_queen", "right"), (r"set_white_", "set_black_", "right"),
     (r"_true\(\)", "_false()", "right"), (r"_false\(\)", "_true()", "right"),
     (r"\bSome\((\w+)\)", "None", "none"), (r"\^=", "|=", "xor"), (r"<<", ">>", "shift"), (r"& 0b", "| 0b", "mask"), (r"\b7 - ", "8 - ", "off1")]
cands=[]
for f in FILES:
    lines=open(os.path.join(REPO,f)).read().split("\n")
    end=len(lines)
    for i,l in enumerate(lines):
        if "#[cfg(test)]" in l: end=i; break
    for i,l in enumerate(lines[:end]):
        s=l.strip()
        if not s or s.startswith(("//","#[","use ","pub use","mod ","///","pub mod")): continue
        code=l.split("//")[0]
        for pat,rep,kind in OPS:
            for m in re.finditer(pat, code):
                new=code[:m.start()]+rep+code[m.end():]+l[len(code):]
                if new!=l: cands.append((f,i,kind,l,new))
random.shuffle(cands)
N=int(sys.argv[1]) if len(sys.argv)>1 else 160
per={}; out=[]
for c in cands:
    k=c[2]
    if per.get(k,0)>=16: continue
    per[k]=per.get(k,0)+1; out.append(c)
    if len(out)>=N: break
for n,(f,i,kind,old,new) in enumerate(out):
    lines=open(os.path.join(REPO,f)).read().split("\n")
    b=lines[:]; b[i]=new
    d="".join(difflib.unified_diff([x+"\n" for x in lines],[x+"\n" for x in b],"a/"+f,"b/"+f,n=3))
    open(OUT+"/m%03d.diff"%n,"w").write(d)
    open(OUT+"/m%03d.txt"%n,"w").write("%s:%d [%s]\n- %s\n+ %s\n"%(f,i+1,kind,old.strip(),new.strip()))
print(len(out), per)
