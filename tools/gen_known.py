#!/usr/bin/env python3
"""Freeze the list of functions of the reference tree (the anchors the rules were written against).
Functions NOT on this list are treated as helpers and expanded into their callers (rules/inline.py).
Run once on the reference tree:  tools/gen_known.py [facts.json]"""
import json, os, sys, subprocess, tempfile
HERE = os.path.dirname(os.path.dirname(os.path.abspath(__file__)))
if len(sys.argv) > 1:
    d = json.load(open(sys.argv[1]))
else:
    out = tempfile.mktemp(suffix=".json", dir="/tmp")
    subprocess.run([os.path.join(HERE, "engine", "extract.sh"), os.environ.get("VERIF_REPO", "/repo"), out], check=True)
    d = json.load(open(out)); os.unlink(out)
names = sorted(f["path"] for f in d["fns"] if f["kind"] in ("Fn", "AssocFn"))
json.dump(names, open(os.path.join(HERE, "rules", "known_fns.json"), "w"), indent=0)
sigs = {f["path"]: [f.get("inputs"), f.get("output"), [(p["pat"].get("name") if p["pat"].get("k") == "PBind" else None) for p in (f.get("hir") or {}).get("params", [])]]
        for f in d["fns"] if f["kind"] in ("Fn", "AssocFn")}
json.dump(sigs, open(os.path.join(HERE, "rules", "known_sigs.json"), "w"), indent=0)
adts = {a["path"]: {"kind": a.get("kind"), "variants": [{"name": v["name"], "discr": v.get("discr"),
                                                             "fields": [[f.get("name"), f.get("ty")] for f in v.get("fields", [])]}
                                                            for v in a.get("variants", [])]} for a in d["adts"]}
json.dump(adts, open(os.path.join(HERE, "rules", "known_adts.json"), "w"), indent=0)
import sys
sys.path.insert(0, HERE)
os.environ["VERIF_NO_INLINE"] = "1"
from rules import core, hir, inline      # noqa: E402
F = core.Facts(d)
json.dump(inline.summaries_of(F, names), open(os.path.join(HERE, "rules", "known_summaries.json"), "w"), indent=0)
json.dump(sorted(c["path"] for c in d["consts"]), open(os.path.join(HERE, "rules", "known_consts.json"), "w"), indent=0)
# declaration-side signature of every local of every anchored function (rules/inline.canon_locals)
locs = {f["path"]: [[b[0], b[2], b[3], b[4]] for b in inline.local_bindings(f["hir"])] for f in d["fns"]
        if f["kind"] in ("Fn", "AssocFn") and f.get("hir")}
json.dump(locs, open(os.path.join(HERE, "rules", "known_locals.json"), "w"), indent=0)
print(len(names), "functions frozen")
# the castling accessors of GameState as they are on the reference tree (rules/inline.canon_rights): record + bit index
from rules.common import gamestate_layout      # noqa: E402
lay = gamestate_layout(F)
acc = {"bits": lay, "fns": {}}
for f in d["fns"]:
    p_ = f["path"]
    if p_.startswith("chess::gamestate::GameState::") and p_.endswith(("_castling", "_castling_true", "_castling_false")):
        acc["fns"][p_] = f
json.dump(acc, open(os.path.join(HERE, "rules", "known_accessors.json"), "w"))
print(len(acc["fns"]), "accessors frozen, bits", lay)

