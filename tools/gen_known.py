#!/usr/bin/env python3
"""Freeze the list of functions of the reference tree (the anchors the rules were written against).
Functions NOT on this list are treated as helpers and expanded into their callers (rules/inline.py).
Run once on the reference tree:  tools/gen_known.py [facts.json]"""
import json, os, sys, subprocess, tempfile
HERE = os.path.dirname(os.path.dirname(os.path.abspath(__file__)))
if len(sys.argv) > 1:
    d = json.load(open(sys.argv[1]))
else:
    out = tempfile.mktemp(suffix=".json", dir="/tmp")
    subprocess.run([os.path.join(HERE, "engine", "extract.sh"), os.environ.get("VERIF_REPO", "/repo"), out], check=True)
    d = json.load(open(out)); os.unlink(out)
names = sorted(f["path"] for f in d["fns"] if f["kind"] in ("Fn", "AssocFn"))
json.dump(names, open(os.path.join(HERE, "rules", "known_fns.json"), "w"), indent=0)
sigs = {f["path"]: [f.get("inputs"), f.get("output")] for f in d["fns"] if f["kind"] in ("Fn", "AssocFn")}
json.dump(sigs, open(os.path.join(HERE, "rules", "known_sigs.json"), "w"), indent=0)
print(len(names), "functions frozen")
