# Random single-token operator mutants of /repo/src (development aid, DESIGN section 9c): writes numbered diffs to a /tmp directory;
# evaluate them with tools/diffeval.py and read the SILENT ones. usage: opmut_genN.py <count> <seed> [outdir]
import re, random, os, subprocess, sys
OUT=sys.argv[3] if len(sys.argv)>3 else "/tmp/opmut"
os.makedirs(OUT, exist_ok=True)
random.seed(int(sys.argv[2]) if len(sys.argv)>2 else 20261005)
REPO="/repo"
FILES=["src/chess/mod.rs","src/chess/piece.rs","src/chess/gamestate.rs","src/chess/position.rs","src/chess/move_struct.rs","src/chess/zobrist.rs","src/search.rs","src/uci.rs"]
OPS=[
 (r"(?<![<>=!+\-*/&|^])<=(?!=)", "<", "rel"), (r"(?<![<>=!\-])>=(?!=)", ">", "rel"),
 (r"(?<![<>=!+\-*/&|^<])<(?![<=])", "<=", "rel"), (r"(?<![<>=!\-=>])>(?![>=])", ">=", "rel"),
 (r"==", "!=", "eq"), (r"!=", "==", "eq"),
 (r"&&", "||", "bool"), (r"\|\|", "&&", "bool"),
 (r"(?<=[\w\)\] ]) \+ (?=[\w\(])", " - ", "arith"), (r"(?<=[\w\)\] ]) - (?=[\w\(])", " + ", "arith"),
 (r"\+= 1\b", "+= 2", "const"), (r"-= 1\b", "-= 2", "const"),
 (r"\bPlayer::White\b", "Player::Black", "side"), (r"\bPlayer::Black\b", "Player::White", "side"),
 (r"\btrue\b", "false", "boolc"), (r"\bfalse\b", "true", "boolc"),
 (r"\b(\d+)\b", None, "lit"),
]
cands=[]
for f in FILES:
    lines=open(os.path.join(REPO,f)).read().split("\n")
    end=len(lines)
    for i,l in enumerate(lines):
        if "#[cfg(test)]" in l: end=i; break
    for i,l in enumerate(lines[:end]):
        s=l.strip()
        if not s or s.startswith(("//","#[","use ","pub use","mod ","///","pub mod")): continue
        code=l.split("//")[0]
        if '"' in code and ("println" in code or "bail!" in code or "context" in code): continue
        for pat,rep,kind in OPS:
            for m in re.finditer(pat, code):
                if kind=="lit":
                    v=int(m.group(1))
                    if v>1000 or "0x" in code[max(0,m.start()-2):m.end()]: continue
                    # skip generics / array types / tuple field access
                    before=code[:m.start()]
                    if before.rstrip().endswith((".", "u", "i", "<", "[u", "[i")) or re.search(r"[ui](8|16|32|64)$", before): continue
                    r=str(v+1)
                else: r=rep
                new=code[:m.start()]+r+code[m.end():]+l[len(code):]
                cands.append((f,i,kind,l,new))
# deletion of simple statements
for f in FILES:
    lines=open(os.path.join(REPO,f)).read().split("\n")
    end=len(lines)
    for i,l in enumerate(lines):
        if "#[cfg(test)]" in l: end=i; break
    for i,l in enumerate(lines[:end]):
        s=l.strip()
        if re.match(r"^(self|state|game|data|moves|result|[a-z_]+)\.[a-z_]+\(.*\);$", s) or re.match(r"^(self\.)?[a-z_\.]+ (\^=|\+=|-=|=) .*;$", s) and not s.startswith("let"):
            cands.append((f,i,"del",l,l[:len(l)-len(l.lstrip())]+"// "+s))
random.shuffle(cands)
# balance kinds
N=int(sys.argv[1]) if len(sys.argv)>1 else 160
per={}
out=[]
for c in cands:
    k=c[2]
    cap={"lit":25,"del":35,"rel":25,"eq":20,"bool":15,"arith":20,"const":8,"side":14,"boolc":12}.get(k,10)
    if per.get(k,0)>=cap: continue
    per[k]=per.get(k,0)+1
    out.append(c)
    if len(out)>=N: break
import difflib
for n,(f,i,kind,old,new) in enumerate(out):
    lines=open(os.path.join(REPO,f)).read().split("\n")
    a=lines[:]; b=lines[:]; b[i]=new
    d="".join(difflib.unified_diff([x+"\n" for x in a],[x+"\n" for x in b],"a/"+f,"b/"+f,n=3))
    open(OUT+"/m%03d.diff"%n,"w").write(d)
    open(OUT+"/m%03d.txt"%n,"w").write("%s:%d [%s]\n- %s\n+ %s\n"%(f,i+1,kind,old.strip(),new.strip()))
print(len(out), per)
