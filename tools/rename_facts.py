#!/usr/bin/env python3
"""Fact-level benign edit: every local of every function (optionally: of the listed functions) consistently renamed (suffix).
What a maintainer's rename of locals looks like to the compiler facts - spans, ids, types unchanged.
usage: rename_facts.py <facts in> <facts out> <suffix> [fn,fn,...]"""
import json,sys
src,dst,suffix=sys.argv[1],sys.argv[2],sys.argv[3]
only=set(sys.argv[4].split(',')) if len(sys.argv)>4 else None
d=json.load(open(src))
def ren(n):
    if isinstance(n,list):
        for x in n: ren(x)
    elif isinstance(n,dict):
        if n.get('k')=='PBind' and n.get('name') not in ('self',):
            n['name']=n['name']+suffix
        to=n.get('to')
        if isinstance(to,dict) and to.get('res')=='local' and to.get('name') not in ('self',):
            to['name']=to['name']+suffix
        for k,v in n.items():
            if isinstance(v,(dict,list)): ren(v)
cnt=0
for f in d['fns']:
    root=f['path'].split('::{closure')[0]
    if only and root not in only: continue
    if f.get('hir'):
        ren(f['hir']); cnt+=1
    m=f.get('mir')
    if m:
        for l in m['locals']:
            if l.get('name') and l['name']!='self': l['name']+=suffix
        for dbg in m.get('debug') or []:
            if isinstance(dbg,dict) and dbg.get('name') and dbg['name']!='self': dbg['name']+=suffix
json.dump(d,open(dst,'w'))
print('renamed locals in',cnt,'fns')
