#!/usr/bin/env python3
"""Collect confirmed seeded breakages into /verif/seeded/<P>_<X>/ (patch.diff, demo, README from the author, meta.json) and
write /verif/seeded/README.md (which check catches which change).
usage: seedcollect.py <root=/tmp/seed> <evalfile> [prefix] ; evalfile = output lines of tools/seedeval.py"""
import os, sys, json, re, shutil, glob
HERE = os.path.dirname(os.path.dirname(os.path.abspath(__file__)))
root = sys.argv[1] if len(sys.argv) > 1 else "/tmp/seed"
evalfile = sys.argv[2] if len(sys.argv) > 2 else "/tmp/seedeval.log"
prefix = sys.argv[3] if len(sys.argv) > 3 else ""          # e.g. "r2_" for the second round
readme_name = "README.md" if not prefix else "README_%s.md" % prefix.rstrip("_")
ev = {}
for l in open(evalfile):
    m = re.match(r"(\S+)\s+(C\d\d)/(\w+)\s+(own-property|other-only)?\s*(\{.*\}|\".*\")?", l)
    if m:
        try:
            info = json.loads(m.group(5)) if m.group(5) else {}
        except ValueError:
            info = {}
        ev[(m.group(2), m.group(3))] = (m.group(1), info)
notes = {}
np = os.path.join(HERE, "seeded", "NOTES.json")
if os.path.exists(np):
    notes = json.load(open(np))
def readme_bits(path):
    """(title, 'what it needs to manifest' section) of the author's README"""
    try:
        txt = open(path).read()
    except OSError:
        return None, None
    title = txt.strip().splitlines()[0].lstrip("# ").strip() if txt.strip() else None
    m = re.search(r"^#+\s*[^\n]*\b(needs|manifest)[^\n]*\n(.*?)(?=^#+\s|\Z)", txt, re.S | re.M | re.I)
    needs = re.sub(r"\s+", " ", m.group(2)).strip()[:900] if m else None
    return title, needs


rows = []
for P in sorted(os.listdir(root)):
    sd = os.path.join(root, P, "SEED")
    if not os.path.isdir(sd):
        continue
    for X in sorted(os.listdir(sd)):
        v = os.path.join(sd, X)
        cl = os.path.join(v, "confirm.log")
        if not os.path.exists(os.path.join(v, "patch.diff")):
            continue
        summ = None
        sf = os.path.join(v, "confirm.summary")
        if os.path.exists(sf):
            summ = open(sf).read().strip()
        if not summ or "CONFIRMED" not in summ:
            rows.append((P, X, "not kept", summ or "not confirmed yet", None))
            continue
        dst = os.path.join(HERE, "seeded", "%s%s_%s" % (prefix, P, X))
        os.makedirs(dst, exist_ok=True)
        for f in os.listdir(v):
            if f in ("patch.diff", "patch_prefix.diff", "demo.py", "demo.sh", "demo.diff", "run_demo.sh", "README.md"):
                shutil.copy(os.path.join(v, f), os.path.join(dst, f))
        st, info = ev.get((P, X), ("NOT-EVALUATED", {}))
        key = "%s%s_%s" % (prefix, P, X)
        title, needs = readme_bits(os.path.join(v, "README.md"))
        meta = {
            "property": P, "variant": X,
            "breaks": notes.get(key, {}).get("breaks") or ("property %s: %s" % (P, title or "see README.md")),
            "needs_to_manifest": notes.get(key, {}).get("needs") or needs or "see README.md",
            "confirmed_by_me": {"command": "tools/seedconfirm.sh %s SEED/%s (git apply patch; cargo build --release; cargo test skipping the 3 timing-out "
                                            "perft tests; demo with the change; git checkout; rebuild; demo without)" % (os.path.join(root, P), X),
                                "result": summ},
            "checks_run": "tools/seedeval.py: patch applied to a scratch copy of /repo, facts re-extracted, all registered checks run",
            "detected": st == "CAUGHT", "detected_by": info,
            "first_evaluation": notes.get(key, {}).get("first_pass", ""),
        }
        json.dump(meta, open(os.path.join(dst, "meta.json"), "w"), indent=1)
        rows.append((P, X, st, summ, info))
with open(os.path.join(HERE, "seeded", readme_name), "w") as fh:
    fh.write("# Independent seeded breakages%s\n\nWritten by fresh sub-agents that saw only the property text and a scratch worktree (nothing from /verif). "
             "Each kept change was confirmed by me (`tools/seedconfirm.sh`): applies, builds, the existing tests still pass, the author's demonstration "
             "fails with the change and passes without it. `tools/seedeval.py` then ran every registered check against a scratch copy with the patch applied.\n\n" % ((" (round %s)" % prefix.strip("r_")) if prefix else ""))
    fh.write("| seed | kept | detected | by which checks / rules | note |\n|---|---|---|---|---|\n")
    for P, X, st, summ, info in rows:
        key = "%s%s_%s" % (prefix, P, X)
        by = "; ".join("%s: %s" % (k, ", ".join(v)) for k, v in (info or {}).items()) if info else ""
        fh.write("| %s/%s | %s | %s | %s | %s |\n" % (P, X, "yes" if summ and "CONFIRMED" in summ else "no (%s)" % (summ or "")[:80],
                                                   st if info is not None else "-", by, notes.get(key, {}).get("note", "")))
print("collected", len([r for r in rows if r[4] is not None]), "of", len(rows))
