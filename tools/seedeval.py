#!/usr/bin/env python3
"""Evaluate independent seeded breakages: for every <root>/<P>/SEED/<X>/patch.diff apply it to a scratch copy of /repo's
current tree, extract facts once per configuration and run EVERY registered check; print which checks fire.
usage: tools/seedeval.py [root=/tmp/seed] [P ...]"""
import os, sys, subprocess, tempfile, shutil, json, re
from concurrent.futures import ThreadPoolExecutor
HERE = os.path.dirname(os.path.dirname(os.path.abspath(__file__)))
REPO = os.environ.get("VERIF_REPO", "/repo")
props = [c["property_id"] for c in json.load(open(os.path.join(HERE, "MANIFEST.json")))["checks"]]
props = sorted(set(props + [p for p in os.environ.get("VERIF_EXTRA_PROPS", "").split(",") if p]))

def evaluate(patch):
    d = tempfile.mkdtemp(prefix="seedeval_", dir="/tmp")
    try:
        scratch = os.path.join(d, "repo")
        subprocess.run(["rsync", "-a", "--exclude", ".git", "--exclude", "target", "--exclude", "SEED", REPO + "/", scratch + "/"], check=True)
        r = subprocess.run(["patch", "-p1", "--no-backup-if-mismatch", "-s", "-i", os.path.abspath(patch)], cwd=scratch, capture_output=True, text=True)
        if r.returncode != 0:
            return "DOES-NOT-APPLY", r.stdout[-200:] + r.stderr[-200:]
        dev, rel = os.path.join(d, "dev.json"), os.path.join(d, "rel.json")
        r = subprocess.run([os.path.join(HERE, "engine", "extract.sh"), scratch, dev], capture_output=True, text=True)
        if r.returncode != 0:
            return "DOES-NOT-BUILD", r.stderr[-300:]
        subprocess.run([os.path.join(HERE, "engine", "extract.sh"), scratch, rel, "-C overflow-checks=off -C debug-assertions=off"], capture_output=True, text=True)
        env = dict(os.environ, VERIF_EVIDENCE_DIR=os.path.join(d, "ev"))
        fired = {}
        for p in props:
            r = subprocess.run([os.path.join(HERE, "check"), p, "--repo", scratch, "--facts", "dev=%s,rel=%s" % (dev, rel)], capture_output=True, text=True, env=env)
            if r.returncode != 0:
                rules = sorted(set(re.findall(r"^\s+\[([A-Z0-9.a-z_()]+)\]", r.stdout, re.M)))
                fired[p] = rules
        return ("CAUGHT" if fired else "MISSED"), fired
    finally:
        shutil.rmtree(d, ignore_errors=True)

if __name__ == "__main__":
    args = [a for a in sys.argv[1:]]
    root = args[0] if args and os.path.isdir(args[0]) else "/tmp/seed"
    only = [a for a in args if re.match(r"C\d\d$", a)]
    tasks = []
    for P in sorted(os.listdir(root)):
        sd = os.path.join(root, P, "SEED")
        if os.path.isdir(sd) and (not only or P in only):
            for X in sorted(os.listdir(sd)):
                pf = os.path.join(sd, X, "patch.diff")
                if os.path.exists(pf):
                    tasks.append((P, X, pf))
    with ThreadPoolExecutor(max_workers=6) as ex:
        for (P, X, pf), (st, info) in zip(tasks, ex.map(lambda t: evaluate(t[2]), tasks)):
            own = st == "CAUGHT" and P in info
            print("%-8s %s/%s  %s  %s" % (st, P, X, "own-property" if own else ("other-only" if st == "CAUGHT" else ""), json.dumps(info)[:300]))
