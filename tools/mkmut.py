#!/usr/bin/env python3
"""Generate mutants/<prop>/<name>.diff from (file, old, new) replacement specs in mutants/defs.py.
Each mutant is a realistic single edit that compiles and breaks one rule instance."""
import os, sys, difflib, importlib.util

HERE = os.path.dirname(os.path.dirname(os.path.abspath(__file__)))
REPO = os.environ.get("VERIF_REPO", "/repo")


def main():
    spec = importlib.util.spec_from_file_location("defs", os.path.join(HERE, "mutants", "defs.py"))
    defs = importlib.util.module_from_spec(spec)
    spec.loader.exec_module(defs)
    n = 0
    for m in defs.MUTANTS:
        prop, name, expect, desc, edits = m
        out = []
        ok = True
        by_file = {}
        for (f, old, new) in edits:
            by_file.setdefault(f, []).append((old, new))
        for f, reps in by_file.items():
            src = open(os.path.join(REPO, f)).read()
            dst = src
            for old, new in reps:
                if dst.count(old) < 1:
                    print("STALE %s/%s: pattern not found in %s: %r" % (prop, name, f, old[:60]))
                    ok = False
                    break
                dst = dst.replace(old, new, 1)
            if not ok:
                break
            out += list(difflib.unified_diff(src.splitlines(True), dst.splitlines(True), "a/" + f, "b/" + f))
        if not ok:
            continue
        d = os.path.join(HERE, "mutants", prop)
        os.makedirs(d, exist_ok=True)
        with open(os.path.join(d, name + ".diff"), "w") as fh:
            fh.write("# property: %s\n# expect: %s\n# what: %s\n" % (prop, expect, desc))
            fh.write("".join(out))
        n += 1
    print("wrote %d mutant diffs" % n)


if __name__ == "__main__":
    main()
