# Random single-token operator mutants of /repo/src (development aid, DESIGN section 9c): fourth family - removed negations,
# removed `.the_other()`, removed `+ 1` / `- 1`, range ends moved by one, `..=` <-> `..`.  usage: opmut_gen4.py <count> <seed> <outdir>
import re, random, os, sys, difflib
random.seed(int(sys.argv[2]) if len(sys.argv)>2 else 11)
OUT=sys.argv[3] if len(sys.argv)>3 else "/tmp/opmut12"
os.makedirs(OUT, exist_ok=True)
REPO="/repo"
FILES=["src/chess/mod.rs","src/chess/piece.rs","src/chess/gamestate.rs","src/chess/position.rs","src/chess/move_struct.rs","src/chess/zobrist.rs","src/search.rs","src/uci.rs"]
OPS=[(r"(?<![\w\)\]])-(?=[a-zA-Z_(])", "", "unneg"), (r"\.the_other\(\)", "", "other"), (r" \+ 1\b", "", "plus1"), (r" - 1\b", "", "minus1"),
     (r"\.\.=", "..", "incl"), (r"(?<=\d)\.\.(?=[\w(])", "..=", "excl"), (r"\b0\.\.", "1..", "from1"), (r"\b1\.\.", "0..", "from0"),
     (r"\.\.8\b", "..7", "to7"), (r"\.\.=7\b", "..=6", "to6"), (r"\*file\b", "*rank", "deref"), (r"\bstart_col\b", "end_col", "cols"),
     (r"\.row\(\)", ".col()", "rowcol"), (r"\.col\(\)", ".row()", "rowcol"), (r"\bwhite_", "black_", "wb"), (r"\bblack_", "white_", "wb"),
     (r"\bWHITE_", "BLACK_", "WB"), (r"\bBLACK_", "WHITE_", "WB"), (r"\bKING_ROOK\b", "QUEEN_ROOK", "rook"), (r"\bQUEEN_ROOK\b", "KING_ROOK", "rook"),
     (r"CastlingShort", "CastlingLong", "castle"), (r"CastlingLong", "CastlingShort", "castle")]
cands=[]
for f in FILES:
    lines=open(os.path.join(REPO,f)).read().split("\n")
    end=len(lines)
    for i,l in enumerate(lines):
        if "#[cfg(test)]" in l: end=i; break
    for i,l in enumerate(lines[:end]):
        s=l.strip()
        if not s or s.startswith(("//","#[","use ","pub use","mod ","///","pub mod","pub fn","fn ","pub const","const ")): continue
        code=l.split("//")[0]
        for pat,rep,kind in OPS:
            for m in re.finditer(pat, code):
                new=code[:m.start()]+rep+code[m.end():]+l[len(code):]
                if new!=l: cands.append((f,i,kind,l,new))
random.shuffle(cands)
N=int(sys.argv[1]) if len(sys.argv)>1 else 200
per={}; out=[]
for c in cands:
    k=c[2]
    if per.get(k,0)>=14: continue
    per[k]=per.get(k,0)+1; out.append(c)
    if len(out)>=N: break
for n,(f,i,kind,old,new) in enumerate(out):
    lines=open(os.path.join(REPO,f)).read().split("\n")
    b=lines[:]; b[i]=new
    d="".join(difflib.unified_diff([x+"\n" for x in lines],[x+"\n" for x in b],"a/"+f,"b/"+f,n=3))
    open("%s/m%03d.diff"%(OUT,n),"w").write(d)
    open("%s/m%03d.txt"%(OUT,n),"w").write("%s:%d [%s]\n- %s\n+ %s\n"%(f,i+1,kind,old.strip(),new.strip()))
print(len(out), per)
