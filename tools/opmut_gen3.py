# Random single-token operator mutants of /repo/src (development aid, DESIGN section 9c): writes numbered diffs to a /tmp directory;
# evaluate them with tools/diffeval.py and read the SILENT ones. usage: opmut_genN.py <count> <seed> [outdir]
import re, random, os, sys, difflib
random.seed(int(sys.argv[2]) if len(sys.argv)>2 else 7)
OUT=sys.argv[3] if len(sys.argv)>3 else "/tmp/opmut7"
os.makedirs(OUT, exist_ok=True)
REPO="/repo"
FILES=["src/chess/mod.rs","src/chess/piece.rs","src/chess/gamestate.rs","src/chess/position.rs","src/chess/move_struct.rs","src/chess/zobrist.rs","src/search.rs","src/uci.rs"]
cands=[]
for f in FILES:
    lines=open(os.path.join(REPO,f)).read().split("\n")
    end=len(lines)
    for i,l in enumerate(lines):
        if "#[cfg(test)]" in l: end=i; break
    for i,l in enumerate(lines[:end]):
        s=l.strip()
        if not s or s.startswith(("//","#[","use ","pub use","mod ","///","pub mod")): continue
        code=l.split("//")[0]
        ind=l[:len(l)-len(l.lstrip())]
        m=re.match(r"^(\s*)(\} else )?if (?!let )(.+) \{\s*$", code)
        if m:
            cands.append((f,i,"iftrue",[l],[ (m.group(1)+(m.group(2) or "")+"if true {")]))
            cands.append((f,i,"iffalse",[l],[ (m.group(1)+(m.group(2) or "")+"if false {")]))
            c=m.group(3)
            if " && " in c and "(" not in c:
                parts=c.split(" && ")
                for k in range(len(parts)):
                    rest=" && ".join(p for j,p in enumerate(parts) if j!=k)
                    cands.append((f,i,"dropconj",[l],[m.group(1)+(m.group(2) or "")+"if "+rest+" {"]))
            if " || " in c and "(" not in c:
                parts=c.split(" || ")
                for k in range(len(parts)):
                    rest=" || ".join(p for j,p in enumerate(parts) if j!=k)
                    cands.append((f,i,"dropdisj",[l],[m.group(1)+(m.group(2) or "")+"if "+rest+" {"]))
        # multi-line condition continuation lines starting with && / ||
        if re.match(r"^\s*(&&|\|\|) .+$", code) and not code.rstrip().endswith("{"):
            cands.append((f,i,"dropline",[l],[]))
        # swap adjacent simple statements
        if i+1<end and s.endswith(";") and lines[i+1].strip().endswith(";") and lines[i+1][:len(lines[i+1])-len(lines[i+1].lstrip())]==ind \
           and not s.startswith(("let ","return","break","continue","}")) and not lines[i+1].strip().startswith(("let ","return","break","continue","}")) and s!=lines[i+1].strip():
            cands.append((f,i,"swapstmt",[l,lines[i+1]],[lines[i+1],l]))
        for pat,rep,kind in ((r" as i8\b"," as u8","cast"),(r"\.abs\(\)","","abs"),(r"\.rev\(\)","","rev"),(r"\b(\d+)\b",None,"litm1"),(r"\.copied\(\)",".copied()","noop")):
            if kind=="noop": continue
            for mm in re.finditer(pat, code):
                if kind=="litm1":
                    v=int(mm.group(1))
                    if v==0 or v>1000: continue
                    before=code[:mm.start()]
                    if before.rstrip().endswith((".", "u", "i", "<", "[u", "[i")) or re.search(r"[ui](8|16|32|64)$", before) or "0x" in code[max(0,mm.start()-2):mm.end()]: continue
                    r=str(v-1)
                else: r=rep
                cands.append((f,i,kind,[l],[code[:mm.start()]+r+code[mm.end():]+l[len(code):]]))
random.shuffle(cands)
N=int(sys.argv[1]) if len(sys.argv)>1 else 200
cap={"iftrue":22,"iffalse":22,"dropconj":25,"dropdisj":12,"dropline":20,"swapstmt":30,"cast":8,"abs":8,"rev":6,"litm1":30}
per={}; out=[]
for c in cands:
    k=c[2]
    if per.get(k,0)>=cap.get(k,10): continue
    per[k]=per.get(k,0)+1; out.append(c)
    if len(out)>=N: break
for n,(f,i,kind,old,new) in enumerate(out):
    lines=open(os.path.join(REPO,f)).read().split("\n")
    b=lines[:i]+new+lines[i+len(old):]
    d="".join(difflib.unified_diff([x+"\n" for x in lines],[x+"\n" for x in b],"a/"+f,"b/"+f,n=3))
    open("%s/m%03d.diff"%(OUT,n),"w").write(d)
    open("%s/m%03d.txt"%(OUT,n),"w").write("%s:%d [%s]\n- %s\n+ %s\n"%(f,i+1,kind," | ".join(x.strip() for x in old)," | ".join(x.strip() for x in new)))
print(len(out), per)
