# Random single-statement / single-token mutants of /repo/src (development aid, DESIGN section 9c): fifth family - deleted
# single-line statements, compound assignments changed, alpha <-> beta, tuple fields / small indices swapped, `= Some(..)` -> `= None`,
# a call argument replaced by a sibling argument.  usage: opmut_gen5.py <count> <seed> <outdir>
import re, random, os, sys, difflib
random.seed(int(sys.argv[2]) if len(sys.argv)>2 else 17)
OUT=sys.argv[3] if len(sys.argv)>3 else "/tmp/opmut14"
os.makedirs(OUT, exist_ok=True)
REPO="/repo"
FILES=["src/chess/mod.rs","src/chess/piece.rs","src/chess/gamestate.rs","src/chess/position.rs","src/chess/move_struct.rs","src/chess/zobrist.rs","src/search.rs","src/uci.rs"]
OPS=[(r"\^=", "|=", "cassign"), (r"\|=", "&=", "cassign"), (r"&=", "|=", "cassign"), (r"\+=", "-=", "cassign"), (r"-=", "+=", "cassign"),
     (r"\balpha\b", "beta", "ab"), (r"\bbeta\b", "alpha", "ab"), (r"\.0\b", ".1", "tup"), (r"\.1\b", ".0", "tup"),
     (r"\[0\]", "[1]", "idx"), (r"\[1\]", "[0]", "idx"), (r"= Some\(.*\);\s*$", "= None;", "some"),
     (r"\bdepth - 1\b", "depth", "depth"), (r"\bremaining_depth\b", "depth", "depth"), (r"\bmax_depth\b", "depth", "depth"),
     (r"\.take\(\)", ".clone()", "take"), (r"\.rev\(\)", "", "rev"), (r"\.skip\(1\)", "", "skip"), (r"\.skip\(1\)", ".skip(2)", "skip"),
     (r"\.abs\(\)", "", "abs"), (r"\.unsigned_abs\(\)", " as u8", "abs"), (r"\bas i8\b", "as u8 as i8", "noop"),
     (r"\bmoves\.len\(\)", "moves.capacity()", "len"), (r"\.first\(\)", ".last()", "ends"), (r"\.last\(\)", ".first()", "ends"),
     (r"\.is_empty\(\)", ".len() == 1", "empty"), (r"\bunwrap_or\(0\)", "unwrap_or(1)", "dflt"), (r"\bunwrap_or_default\(\)", "unwrap_or(1)", "dflt")]
cands=[]
for f in FILES:
    lines=open(os.path.join(REPO,f)).read().split("\n")
    end=len(lines)
    for i,l in enumerate(lines):
        if "#[cfg(test)]" in l: end=i; break
    for i,l in enumerate(lines[:end]):
        s=l.strip()
        if not s or s.startswith(("//","#[","use ","pub use","mod ","///","pub mod","pub fn","fn ","pub const","const ")): continue
        code=l.split("//")[0]
        for pat,rep,kind in OPS:
            for m in re.finditer(pat, code):
                new=code[:m.start()]+rep+code[m.end():]+l[len(code):]
                if new!=l: cands.append((f,i,kind,[l],[new]))
        # delete a single-line statement (no binding, no jump): assignments, method calls for their effect
        if s.endswith(";") and not s.startswith(("let ","return","break","continue","}","bail!","println!","print!","pub ","use ")) \
           and s.count("(")==s.count(")") and s.count("{")==s.count("}") and not s.startswith((".", "&&", "||", "+", "-", "?")):
            prev=lines[i-1].strip() if i else ""
            if prev.endswith((";","{","}")) or prev.startswith("//") or not prev:
                cands.append((f,i,"delstmt",[l],[]))
        # a call with two identifier arguments: the second replaced by the first
        m=re.search(r"\((\w+), (\w+)\)", code)
        if m and m.group(1)!=m.group(2) and not m.group(1)[0].isdigit() and not m.group(2)[0].isdigit() and "fn " not in code and "|" not in code:
            cands.append((f,i,"dup1",[l],[code[:m.start()]+"(%s, %s)"%(m.group(1),m.group(1))+code[m.end():]+l[len(code):]]))
            cands.append((f,i,"dup2",[l],[code[:m.start()]+"(%s, %s)"%(m.group(2),m.group(2))+code[m.end():]+l[len(code):]]))
random.shuffle(cands)
N=int(sys.argv[1]) if len(sys.argv)>1 else 200
seen=set(); n=0
for f,i,kind,old,new in cands:
    if n>=N: break
    if (f,i,kind,tuple(new)) in seen: continue
    seen.add((f,i,kind,tuple(new)))
    lines=open(os.path.join(REPO,f)).read().split("\n")
    mut=lines[:i]+new+lines[i+len(old):]
    d="".join(difflib.unified_diff([x+"\n" for x in lines],[x+"\n" for x in mut],"a/"+f,"b/"+f,n=3))
    open(os.path.join(OUT,"m%03d.diff"%n),"w").write(d)
    open(os.path.join(OUT,"m%03d.txt"%n),"w").write("%s:%d [%s]\n- %s\n%s\n"%(f,i+1,kind,old[0].strip(),"\n".join("+ "+x.strip() for x in new)))
    n+=1
print(n,"mutants of",len(cands),"candidates in",OUT)
