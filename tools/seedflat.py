import sys,os,re,json
sys.path.insert(0,'/verif/tools')
import seedeval
from concurrent.futures import ThreadPoolExecutor
root='/verif/seeded'
tasks=[]
for d in sorted(os.listdir(root)):
    pf=os.path.join(root,d,'patch.diff')
    if os.path.exists(pf):
        m=re.match(r'(?:r[2356]_)?(C\d\d)_(\w+)$',d)
        tasks.append((m.group(1),d,pf))
with ThreadPoolExecutor(max_workers=6) as ex:
    for (P,d,pf),(st,info) in zip(tasks, ex.map(lambda t: seedeval.evaluate(t[2]), tasks)):
        own = st=='CAUGHT' and P in info
        print("%-8s %s %s %s"%(st,d,'own-property' if own else 'OTHER/MISSED', json.dumps(info)[:200]))
