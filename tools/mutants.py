#!/usr/bin/env python3
"""Checker self-validation: apply each diff in mutants/<prop>/ to a scratch copy of /repo's CURRENT tree,
re-extract the compiler facts and require the property's check to report the expected rule.
Usage: tools/mutants.py [PROP ...] [--jobs N] [--keep]
Prints one line per mutant: DETECTED / MISSED / STALE (diff no longer applies) / BROKEN (does not compile).
This measures the checker, not the engine; it never touches /repo."""
import os, sys, subprocess, tempfile, shutil, json, re
from concurrent.futures import ThreadPoolExecutor

HERE = os.path.dirname(os.path.dirname(os.path.abspath(__file__)))
REPO = os.environ.get("VERIF_REPO", "/repo")


def run_one(prop, diff):
    meta = {}
    for l in open(diff):
        m = re.match(r"#\s*(\w+):\s*(.*)", l)
        if m:
            meta[m.group(1)] = m.group(2).strip()
        elif not l.startswith("#"):
            break
    expect = meta.get("expect", "")
    d = tempfile.mkdtemp(prefix="mut_%s_" % prop, dir="/tmp")
    try:
        scratch = os.path.join(d, "repo")
        subprocess.run(["rsync", "-a", "--exclude", ".git", "--exclude", "target", REPO + "/", scratch + "/"], check=True)
        r = subprocess.run(["patch", "-p1", "--no-backup-if-mismatch", "-s", "-i", os.path.abspath(diff)], cwd=scratch,
                           capture_output=True, text=True)
        if r.returncode != 0:
            return (prop, diff, "STALE", r.stdout[-300:] + r.stderr[-300:])
        env = dict(os.environ, VERIF_EVIDENCE_DIR=os.path.join(d, "ev"))
        r = subprocess.run([os.path.join(HERE, "check"), prop, "--repo", scratch], capture_output=True, text=True, env=env)
        out = r.stdout + r.stderr
        if "could not extract compiler facts" in out:
            return (prop, diff, "BROKEN", out[-600:])
        rules = re.findall(r"^\s+\[([A-Z0-9.a-z_()]+)\]", out, re.M)
        if r.returncode == 1 and "VIOLATION property=%s" % prop in out:
            if not expect or any(x.startswith(expect) for x in rules):
                return (prop, diff, "DETECTED", ",".join(sorted(set(rules))))
            return (prop, diff, "DETECTED-OTHER-RULE", "expected %s got %s" % (expect, ",".join(sorted(set(rules)))))
        return (prop, diff, "MISSED", "exit=%d %s" % (r.returncode, out[-200:].replace("\n", " ")))
    finally:
        shutil.rmtree(d, ignore_errors=True)


def main():
    args = [a for a in sys.argv[1:] if not a.startswith("--")]
    jobs = 8
    for a in sys.argv[1:]:
        if a.startswith("--jobs="):
            jobs = int(a.split("=")[1])
    mdir = os.path.join(HERE, "mutants")
    props = args or sorted(os.listdir(mdir))
    tasks = []
    for p in props:
        pd = os.path.join(mdir, p)
        if not os.path.isdir(pd):
            continue
        for f in sorted(os.listdir(pd)):
            if f.endswith(".diff"):
                tasks.append((p, os.path.join(pd, f)))
    res = []
    with ThreadPoolExecutor(max_workers=jobs) as ex:
        for r in ex.map(lambda t: run_one(*t), tasks):
            print("%-9s %-8s %-45s %s" % (r[2], r[0], os.path.basename(r[1]), r[3][:160]))
            res.append(r)
    bad = [r for r in res if r[2] not in ("DETECTED",)]
    print("mutants: %d total, %d detected, %d not" % (len(res), len(res) - len(bad), len(bad)))
    return res


if __name__ == "__main__":
    main()
