#!/usr/bin/env python3
"""Regenerates /verif/MANIFEST.json from the per-property metadata below.
A property is listed under `checks` iff rules/pNN.py exists; otherwise under not_applicable."""
import json, os

HERE = os.path.dirname(os.path.dirname(os.path.abspath(__file__)))

NA = {
}

PENDING = "rule module not built yet (static check planned in DESIGN.md §4; will move to `checks` when it lands)"

META = {
    "C01": ("HIR table/guard extraction vs FIDE geometry + sibling agreement (generator vs attack detector)",
            "Decides the move geometry tables, castling square sets, legality-filter shape and generator/attack-detector "
            "agreement on every path of the code; does NOT decide set equality with FIDE per position.",
            "rustc front end; fact serialiser; FIDE geometry as written in the checker"),
    "C02": ("symbolic board-surgery extraction per Move variant vs rules oracle; revocation-table sibling cross-check; bit-layout summaries",
            "Decides per-move-kind board surgery, castling-right revocation tables at all sibling sites, bit layout, "
            "once-per-ply effects and the en-passant recording guard; does NOT decide that push only receives board-consistent moves.",
            "rustc front end; fact serialiser; chess rules as written in the checker"),
    "C03": ("push/pop mirror law on extracted surgery; push/pop typestate pairing over MIR CFG; who-may-write; call-graph purity",
            "Decides that pop mirrors push per kind, that every caller pairs them on all paths, that cached totals are written "
            "only by invariant-keeping primitives, that table swaps re-seat the kings and that queries reach no mutation.",
            "rustc front end; fact serialiser; generator invariant captured_piece = content of end (checked at construction sites)"),
    "C04": ("const-evaluated key tables vs independent reading of the key file; value summaries of index maps; who-may-write + xor-operand provenance",
            "Decides key tables = published file, index maps = published layout, start hash = README value, hash maintained only "
            "by XOR of position-determined keys, importer folds each square once, both en-passant writers agree. "
            "Does NOT execute any move sequence.",
            "rustc const evaluation; fact serialiser; zobrist_bytes.bin as published"),
    "C05": ("key-set analysis on const-evaluated tables (distinctness, XOR dependencies up to weight 4) + injectivity of index maps by case folding",
            "Decides the single-feature clause as a small proof over the key set and index maps; gives only a minimum-distance "
            "bound (no <=4-key XOR dependency) for the pair-collision clause.",
            "rustc const evaluation; fact serialiser; C04.K5 (hash is the XOR of per-feature keys)"),
    "C06": ("provenance (reaching definitions) of every move that can reach bestmove / the table, typestate depth at table keys",
            "Decides that only elements of a checked move list of the searched game, or cached moves keyed by that game's hash "
            "at a balanced point, can be announced or cached. Assumes equal hash => equal position.",
            "rustc front end; fact serialiser; A-HASH"),
    "C07": ("MIR dominance (poll dominates node entry), path query on abort propagation, reaching definitions of the driver's return value",
            "Decides poll placement, abort propagation without further expansion at all recursive call sites, and that the driver "
            "cannot return a constant None while a checked move exists. Does NOT decide wall-clock promptness.",
            "rustc front end; fact serialiser"),
    "C08": ("loop-bound and index-range obligations on MIR/HIR (depth counter range, limit comparison form, per-ply table sizes)",
            "Decides that the depth-limit test cannot be stepped over, that the depth counter stays in a bounded range and that "
            "every depth-indexed table is large enough for that range.",
            "rustc front end; fact serialiser"),
    "C09": ("negamax/PVS structure rules on typed HIR + push/pop typestate: result negation, window containment, no-reduction depth accounting, "
            "loop-exit census (every generated move searched unless cut off), ordering-state dataflow, stand-pat, monotone bounds",
            "Decides ONLY the structural clauses every fail-hard negamax must satisfy on all paths (each a necessary condition: breaking it changes "
            "the value on some position): child results negated once, child windows are negated sub-windows, no depth reductions, no move "
            "skipped except at a cut-off (capture-only rule in quiescence), killer/history/table move reach only the sort key, stand-pat, bounds "
            "only raised. Does NOT decide the property itself - numerical equality with an unpruned reference search over all positions - "
            "which needs a reference search run (another technique family).",
            "rustc front end; fact serialiser"),
    "C10": ("sibling agreement of the no-move leaf rule; mate-score constants vs driver thresholds; empty-root provenance",
            "Decides three structural clauses (leaf rule agreement, threshold ordering, no move => no bestmove); does NOT decide that "
            "the mating move is chosen (search numerics).",
            "rustc front end; fact serialiser"),
    "C11": ("writer/reader table extraction by summaries and case folding, compared with each other and with the FEN standard",
            "Decides that the FEN writer and reader tables are mutually inverse and equal to the standard (letters, rank/file order, "
            "side, castling letters<->bits, en-passant rank by side, six fields).",
            "rustc front end; fact serialiser; FEN standard as written in the checker"),
    "C12": ("string-building summaries of uci_notation; acceptance condition data-dependence; parser/writer table inversion",
            "Decides that acceptance compares the input text with the text of a legal move, promotion/castling tables are inverse, "
            "coordinates agree with the board surgery, and the error path plays nothing.",
            "rustc front end; fact serialiser; UCI conventions as written in the checker"),
    "C13": ("operator discipline + clamp provenance on the time-budget dataflow (HIR/MIR)",
            "Decides the arithmetic clause fully (every operation on clock inputs is saturating/checked, budget clamped by own "
            "clock, side table); does NOT decide wall-clock behaviour.",
            "rustc front end; fact serialiser"),
    "C14": ("MIR dominance/ordering of atomic stores, spawns, prints and joins; lock-liveness at joins; call-graph lock reachability",
            "Decides the ordering and pairing conditions the property names (one announcement, release-before-acknowledge, "
            "raise-before-arming, no join under the lock, lock-free isready); does NOT explore interleavings.",
            "rustc front end; fact serialiser; std Mutex/JoinHandle/atomic semantics"),
    "C15": ("obligation enumeration over every unchecked/unsafe access + discharge by type range, Position invariant, summaries and length accounting",
            "Every unchecked site in the crate is enumerated from MIR and discharged by a named argument or reported.",
            "rustc front end; fact serialiser; quiescence depth <= 48 and game-length bound assumptions (see evidence)"),
    "C16": ("who-may-write + set_position discipline on MIR; Piece::score summary by case folding; importer sum; king-table re-seating",
            "Decides that score is maintained as the sum of per-square contributions computed by Piece::score under the tables in "
            "force, that Piece::score has the mirrored-antisymmetric form and that table swaps re-seat both kings.",
            "rustc front end; fact serialiser; i16 intermediate range under sane material"),
    "C17": ("panic-edge enumeration reachable from the FEN reader + structural validation rules (rank completeness, progress, lossless en-passant decoding, whole-field matching)",
            "Decides the crash-freedom clause (no unchecked panic edge reachable from Game::new on input-derived values) and the three "
            "silent-misimport classes named by the property.",
            "rustc front end; fact serialiser; library facts listed in the evidence"),
    "C18": ("as C06 plus reaching definitions of the PV-walk key",
            "Decides that each printed PV move is the cached checked move of the position reached so far (key re-derived after "
            "every push of a private clone). Assumes equal hash => equal position.",
            "rustc front end; fact serialiser; A-HASH"),
    "C19": ("call-graph deny-list reachability, order-dependent map API deny-list, hidden-state item scan, reset completeness",
            "Decides the property modulo determinism of the std calls that remain: no source of nondeterminism is reachable from "
            "the search, no hidden state survives ucinewgame.",
            "rustc front end; fact serialiser; std HashMap get/insert determinism; f64::powf determinism on one machine"),
    "C20": ("string-building summaries of pgn_notation / Display by case folding, sibling letter tables, Unicode chart",
            "Decides letter-table agreement, that every move-record arm tells origin/destination/capture/promotion piece, diagram "
            "orientation and glyph table.",
            "rustc front end; fact serialiser; Unicode chess block"),
}

props = [json.loads(l) for l in open(os.path.join(HERE, "properties.jsonl"))]
checks, na = [], []
for p in props:
    pid = p["id"]
    mod = os.path.join(HERE, "rules", "p%s.py" % pid[1:])
    if pid in NA:
        na.append({"property_id": pid, "reason": NA[pid]})
    elif os.path.exists(mod):
        tech, text, note = META[pid]
        level = "other"
        checks.append({
            "property_id": pid,
            "quick_cmd": "./check %s --tier quick" % pid,
            "thorough_cmd": "./check %s --tier thorough" % pid,
            "evidence_file": "/verif/evidence/%s.json" % pid,
            "replay_cmd_template": "./check %s --replay {path}" % pid,
            "engine": "chessfacts+rules",
            "level_claimed": {"category": level, "text": text, "design_ref": "DESIGN.md §4 %s" % pid},
            "level_note": note,
            "technique": "static analysis: " + tech,
        })
    else:
        na.append({"property_id": pid, "reason": PENDING})

man = {
    "version": 1,
    "setup_cmd": "cd /verif/engine && CARGO_NET_OFFLINE=true cargo build --release --offline",
    "hooks": {
        "guard": "daniel729_chess_verif",
        "enable": "none needed: the checks read /repo's source through the compiler (rustc_private driver); no hook is compiled in",
        "baseline_off_cmd": "cd /repo && cargo nextest run --workspace --no-fail-fast --tool-config-file pb:/w/lib/nextest.toml --profile pb --test-threads 8 --offline || cargo test --workspace --no-fail-fast --offline",
        "source_commits": [],
        "add_only": True,
    },
    "engines": [
        {"name": "chessfacts", "path": "engine/", "serves_properties": [c["property_id"] for c in checks],
         "kind_free_text": "rustc_private driver (nightly, zero crates.io deps) run as RUSTC_WORKSPACE_WRAPPER under cargo check "
                           "on /repo's working tree: serialises items, const-evaluated tables, typed HIR and MIR with resolved callees to JSON"},
        {"name": "rules", "path": "rules/", "serves_properties": [c["property_id"] for c in checks],
         "kind_free_text": "Python (stdlib only): value summaries by forward substitution and case folding, CFG dominance / path queries, "
                           "reaching definitions, who-may-write, call-graph reachability; one module per property"},
    ],
    "checks": checks,
    "not_applicable": na,
    "notes": "Static analysis only: no check executes code from /repo. Genuine defects found by the rules were repaired in /repo by "
             "'fix:' commits and are listed as fixed in known_findings.json; see DESIGN.md §5.",
}
json.dump(man, open(os.path.join(HERE, "MANIFEST.json"), "w"), indent=1)
print("checks:", [c["property_id"] for c in checks])
print("not_applicable:", [n["property_id"] for n in na])
