#!/usr/bin/env python3
"""False-alarm regression: apply each behaviour-preserving edit of benign/defs.py to a scratch copy and run EVERY check:
all must exit 0."""
import os, sys, subprocess, tempfile, shutil, importlib.util, json
from concurrent.futures import ThreadPoolExecutor
HERE = os.path.dirname(os.path.dirname(os.path.abspath(__file__)))
REPO = os.environ.get("VERIF_REPO", "/repo")
spec = importlib.util.spec_from_file_location("defs", os.path.join(HERE, "benign", "defs.py")); defs = importlib.util.module_from_spec(spec); spec.loader.exec_module(defs)
props = [c["property_id"] for c in json.load(open(os.path.join(HERE, "MANIFEST.json")))["checks"]]

def one(b):
    name, edits, replace_all = b
    if not edits:
        return name, "SKIP", ""
    patchfile = None
    if isinstance(edits, str) and edits.startswith("PATCH:"):
        patchfile = os.path.join(HERE, edits[6:])
        edits = []
    d = tempfile.mkdtemp(prefix="benign_", dir="/tmp")
    try:
        scratch = os.path.join(d, "repo")
        subprocess.run(["rsync", "-a", "--exclude", ".git", "--exclude", "target", REPO + "/", scratch + "/"], check=True)
        if patchfile:
            r = subprocess.run(["patch", "-p1", "-s", "--no-backup-if-mismatch", "-i", patchfile], cwd=scratch, capture_output=True, text=True)
            if r.returncode != 0:
                return name, "STALE", r.stdout[-100:]
        for f, old, new in edits:
            p = os.path.join(scratch, f); s = open(p).read()
            if old not in s:
                return name, "STALE", old[:40]
            s = s.replace(old, new) if replace_all else s.replace(old, new, 1)
            open(p, "w").write(s)
        # extract once per config, reuse for all checks
        dev, rel = os.path.join(d, "dev.json"), os.path.join(d, "rel.json")
        r = subprocess.run([os.path.join(HERE, "engine", "extract.sh"), scratch, dev], capture_output=True, text=True)
        if r.returncode != 0:
            return name, "BROKEN", r.stderr[-300:]
        subprocess.run([os.path.join(HERE, "engine", "extract.sh"), scratch, rel, "-C overflow-checks=off -C debug-assertions=off"], capture_output=True, text=True)
        bad = []
        env = dict(os.environ, VERIF_EVIDENCE_DIR=os.path.join(d, "ev"))
        for p in props:
            r = subprocess.run([os.path.join(HERE, "check"), p, "--repo", scratch, "--facts", "dev=%s,rel=%s" % (dev, rel)], capture_output=True, text=True, env=env)
            if r.returncode != 0:
                lines = [l.strip()[:160] for l in r.stdout.splitlines() if l.strip().startswith("[")]
                bad.append((p, lines[:2]))
        return name, ("SILENT" if not bad else "FALSE-ALARM"), bad
    finally:
        shutil.rmtree(d, ignore_errors=True)

with ThreadPoolExecutor(max_workers=6) as ex:
    for name, st, info in ex.map(one, defs.BENIGN):
        print("%-12s %-45s %s" % (st, name, info if st != "SILENT" else ""))
