#!/bin/bash
# usage: seedconfirm.sh <worktree> <variant dir (SEED/X)> ; confirms: applies, builds, existing tests pass, demo fails with / passes without
# prints one summary line; details in <variant dir>/confirm.log
WT=$1; V=$2; cd "$WT" || exit 2
LOG=$V/confirm.log; : > $LOG
# DEMO_PROFILE=debug: the demonstration needs a checked build (debug assertions / unsafe-precondition checks), e.g. the C15 seeds
PROFILE=${DEMO_PROFILE:-release}; BFLAG=$([ "$PROFILE" = release ] && echo --release)
export CARGO_TARGET_DIR=$WT/target CARGO_NET_OFFLINE=true
git checkout -q -- . 2>>$LOG; git clean -fdq src 2>>$LOG
run_demo() {  # $1 = label
  if [ -f $V/demo.py ]; then timeout 900 python3 $V/demo.py $WT/target/$PROFILE/rustybait >>$LOG 2>&1; return $?; fi
  if [ -f $V/demo.sh ]; then timeout 900 bash $V/demo.sh $WT/target/$PROFILE/rustybait >>$LOG 2>&1; return $?; fi
  if [ -f $V/run_demo.sh ]; then
    if [ -f $V/demo.diff ]; then git apply $V/demo.diff >>$LOG 2>&1 || { echo "demo.diff does not apply" >>$LOG; return 251; }; fi
    timeout 1800 bash $V/run_demo.sh >>$LOG 2>&1; rc=$?
    return $rc
  fi
  echo "no demo found" >>$LOG; return 250
}
# --- with the change
if ! git apply $V/patch.diff >>$LOG 2>&1; then echo "$V: PATCH-DOES-NOT-APPLY"; exit 1; fi
if ! cargo build $BFLAG --offline >>$LOG 2>&1; then echo "$V: DOES-NOT-BUILD"; git checkout -q -- .; exit 1; fi
echo "== tests with change" >>$LOG
if [ -n "$REUSE_TEST_LOG" ] && grep -q "^test result" $V/tests_with_change.log 2>/dev/null; then echo "(reusing test log of an earlier confirmation run)" >>$LOG; else
cargo test --offline -- --test-threads 4 --skip perft5_kiwipete --skip perft6_position_4 --skip perft7_position_3 >$V/tests_with_change.log 2>&1
fi
FAILED=$(grep -E "^test [A-Za-z0-9_:]+ \.\.\. FAILED" $V/tests_with_change.log | grep -v "chess::tests::fen_startpos" | wc -l)
PASSED=$(grep -cE "^test .* ok$" $V/tests_with_change.log)
echo "== demo with change" >>$LOG
run_demo with; D_WITH=$?
git checkout -q -- .; git clean -fdq src
# --- without the change
cargo build $BFLAG --offline >>$LOG 2>&1
echo "== demo without change" >>$LOG
run_demo without; D_WITHOUT=$?
git checkout -q -- .; git clean -fdq src
VERDICT=REJECT
if [ "$FAILED" = "0" ] && [ "$PASSED" -ge 42 ] && [ "$D_WITH" != "0" ] && [ "$D_WITH" -lt 250 ] && [ "$D_WITHOUT" = "0" ]; then VERDICT=CONFIRMED; fi
echo "$WT/$V: $VERDICT tests_passed=$PASSED other_failures=$FAILED demo_with=$D_WITH demo_without=$D_WITHOUT" > $V/confirm.summary
echo "$WT/$V: $VERDICT tests_passed=$PASSED other_failures=$FAILED demo_with=$D_WITH demo_without=$D_WITHOUT"
