#!/usr/bin/env python3
"""Run EVERY registered check against each given diff applied to a scratch copy of /repo's current tree.
usage: tools/diffeval.py [--expect-silent] <diff> ...   (prints SILENT / FIRED <prop: rules> per diff)"""
import os, sys, subprocess, tempfile, shutil, json, re
from concurrent.futures import ThreadPoolExecutor
HERE = os.path.dirname(os.path.dirname(os.path.abspath(__file__)))
REPO = os.environ.get("VERIF_REPO", "/repo")
props = [c["property_id"] for c in json.load(open(os.path.join(HERE, "MANIFEST.json")))["checks"]]
extra = [p for p in os.environ.get("VERIF_EXTRA_PROPS", "").split(",") if p]
props = sorted(set(props + extra))


def evaluate(patch):
    d = tempfile.mkdtemp(prefix="diffeval_", dir="/tmp")
    try:
        scratch = os.path.join(d, "repo")
        subprocess.run(["rsync", "-a", "--exclude", ".git", "--exclude", "target", "--exclude", "SEED", "--exclude", "OUT", REPO + "/", scratch + "/"], check=True)
        r = subprocess.run(["patch", "-p1", "--no-backup-if-mismatch", "-s", "-i", os.path.abspath(patch)], cwd=scratch, capture_output=True, text=True)
        if r.returncode != 0:
            return "DOES-NOT-APPLY", r.stdout[-200:] + r.stderr[-200:]
        dev, rel = os.path.join(d, "dev.json"), os.path.join(d, "rel.json")
        r = subprocess.run([os.path.join(HERE, "engine", "extract.sh"), scratch, dev], capture_output=True, text=True)
        if r.returncode != 0:
            return "DOES-NOT-BUILD", r.stderr[-300:]
        subprocess.run([os.path.join(HERE, "engine", "extract.sh"), scratch, rel, "-C overflow-checks=off -C debug-assertions=off"], capture_output=True, text=True)
        env = dict(os.environ, VERIF_EVIDENCE_DIR=os.path.join(d, "ev"))
        fired = {}
        for p in props:
            r = subprocess.run([os.path.join(HERE, "check"), p, "--repo", scratch, "--facts", "dev=%s,rel=%s" % (dev, rel)], capture_output=True, text=True, env=env)
            if r.returncode != 0:
                lines = [l.strip() for l in r.stdout.splitlines() if l.strip().startswith("[")]
                fired[p] = [l[:260] for l in lines[:3]]
        return ("FIRED" if fired else "SILENT"), fired
    finally:
        shutil.rmtree(d, ignore_errors=True)


if __name__ == "__main__":
    files = [a for a in sys.argv[1:] if not a.startswith("--")]
    with ThreadPoolExecutor(max_workers=6) as ex:
        for f, (st, info) in zip(files, ex.map(evaluate, files)):
            print("%-8s %s" % (st, f))
            if st != "SILENT":
                if isinstance(info, dict):
                    for p, ls in info.items():
                        for l in ls:
                            print("      %s %s" % (p, l))
                else:
                    print("      ", info)
