# Random structural mutants of /repo/src (development aid, DESIGN section 9c): sixth family - bodies of two adjacent one-line match
# arms swapped, a one-line arm deleted where a catch-all arm exists, the two arguments of a call swapped, `return Some(..)` ->
# `return None`, `else if` -> `if` chains cut (`} else if c {` -> `} if c {` is not valid: instead the else-if condition negated),
# a one-line `if c { return/continue/break }` guard deleted.   usage: opmut_gen6.py <count> <seed> <outdir>
import re, random, os, sys, difflib
random.seed(int(sys.argv[2]) if len(sys.argv)>2 else 23)
OUT=sys.argv[3] if len(sys.argv)>3 else "/tmp/opmut16"
os.makedirs(OUT, exist_ok=True)
REPO="/repo"
FILES=["src/chess/mod.rs","src/chess/piece.rs","src/chess/gamestate.rs","src/chess/position.rs","src/chess/move_struct.rs","src/chess/zobrist.rs","src/search.rs","src/uci.rs"]
ARM=re.compile(r"^(\s*)([^=]+?) => (.+),\s*$")
cands=[]
for f in FILES:
    lines=open(os.path.join(REPO,f)).read().split("\n")
    end=len(lines)
    for i,l in enumerate(lines):
        if "#[cfg(test)]" in l: end=i; break
    for i,l in enumerate(lines[:end]):
        s=l.strip()
        if not s or s.startswith(("//","#[","use ","pub use","mod ","///","pub mod")): continue
        code=l.split("//")[0]
        m=ARM.match(code)
        if m and i+1<end:
            m2=ARM.match(lines[i+1].split("//")[0])
            if m2 and m2.group(1)==m.group(1) and m.group(3)!=m2.group(3):
                cands.append((f,i,"armswap",[l,lines[i+1]],[m.group(1)+m.group(2)+" => "+m2.group(3)+",", m.group(1)+m2.group(2)+" => "+m.group(3)+","]))
            # delete the arm if a catch-all follows within 12 lines at the same indent
            for j in range(i+1,min(end,i+14)):
                c2=lines[j]
                if c2.startswith(m.group(1)+"_ =>"):
                    cands.append((f,i,"armdel",[l],[])); break
                if c2.strip().startswith("}") and len(c2)-len(c2.lstrip())<len(m.group(1)): break
        # call with two simple arguments swapped
        for mm in re.finditer(r"(\w+)\(([\w\.\*&]+), ([\w\.\*&]+)\)", code):
            a,b=mm.group(2),mm.group(3)
            if a!=b and "fn " not in code and mm.group(1) not in ("assert","Some","println","bail","write","format"):
                cands.append((f,i,"argswap",[l],[code[:mm.start()]+"%s(%s, %s)"%(mm.group(1),b,a)+code[mm.end():]+l[len(code):]]))
        m=re.match(r"^(\s*)return Some\(.*\);\s*$", code)
        if m: cands.append((f,i,"retnone",[l],[m.group(1)+"return None;"]))
        m=re.match(r"^(\s*)\} else if (?!let )(.+) \{\s*$", code)
        if m: cands.append((f,i,"elifneg",[l],[m.group(1)+"} else if !("+m.group(2)+") {"]))
        # one-line guard followed by a jump and a closing brace
        m=re.match(r"^(\s*)if (?!let )(.+) \{\s*$", code)
        if m and i+2<end and lines[i+1].strip() in ("continue;","break;","return;","return None;","return false;","return true;") and lines[i+2].strip()=="}" :
            cands.append((f,i,"guarddel",[l,lines[i+1],lines[i+2]],[]))
random.shuffle(cands)
N=int(sys.argv[1]) if len(sys.argv)>1 else 200
seen=set(); n=0
for f,i,kind,old,new in cands:
    if n>=N: break
    if (f,i,kind,tuple(new)) in seen: continue
    seen.add((f,i,kind,tuple(new)))
    lines=open(os.path.join(REPO,f)).read().split("\n")
    mut=lines[:i]+new+lines[i+len(old):]
    d="".join(difflib.unified_diff([x+"\n" for x in lines],[x+"\n" for x in mut],"a/"+f,"b/"+f,n=3))
    open(os.path.join(OUT,"m%03d.diff"%n),"w").write(d)
    open(os.path.join(OUT,"m%03d.txt"%n),"w").write("%s:%d [%s]\n%s\n%s\n"%(f,i+1,kind,"\n".join("- "+x.strip() for x in old),"\n".join("+ "+x.strip() for x in new)))
    n+=1
print(n,"mutants of",len(cands),"candidates in",OUT)
