import subprocess, sys
binp=sys.argv[1]; n=int(sys.argv[2]) if len(sys.argv)>2 else 300
bad=0
for i in range(n):
    p=subprocess.run([binp], input="uci\nposition startpos\ngo movetime 1\nucinewgame\nisready\nposition startpos\ngo depth 1\nwait\nquit\n", capture_output=True, text=True, timeout=20)
    if "panicked" in p.stderr or p.returncode!=0 or p.stdout.count("bestmove")!=2:
        bad+=1
        if bad<=2: print("run",i,"rc",p.returncode, p.stderr.strip().splitlines()[:2], p.stdout.count("bestmove"))
print("bad runs:",bad,"of",n)
sys.exit(1 if bad else 0)
