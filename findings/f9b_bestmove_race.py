import subprocess,sys,time,threading,queue
B=sys.argv[1]; N=int(sys.argv[2])
bad=0
for i in range(N):
    p=subprocess.Popen([B],stdin=subprocess.PIPE,stdout=subprocess.PIPE,text=True,bufsize=1)
    q=queue.Queue()
    def rd(p=p,q=q):
        for l in p.stdout: q.put(l)
        q.put(None)
    threading.Thread(target=rd,daemon=True).start()
    p.stdin.write("position startpos\ngo depth 2\n"); p.stdin.flush()
    refused=False
    for rounds in range(50):
        try:
            while True:
                l=q.get(timeout=1.0)
                if l is None: break
                if l.startswith("error"): refused=True; break
                if l.startswith("bestmove"): break
        except queue.Empty:
            refused=True
        if refused: break
        p.stdin.write("position startpos\ngo depth 2\n"); p.stdin.flush()
    p.stdin.write("quit\n"); p.stdin.flush()
    p.wait()
    bad+=refused
print(B,"sessions (50 go/bestmove rounds each) with a refused command after bestmove:",bad,"of",N)
