"""S2: push/pop pairing as a typestate analysis over the MIR CFG.

Abstract state at a program point = the stack of *pending* Game::push calls on borrowed games, each entry being
(receiver root local, canonical move operand).  Game::pop must match the top entry.  Joining two different stacks is
an error, and so is returning with a non-empty stack - except on enumerated abort paths (see ABORT_EXEMPT).
Receivers that are *owned* locals of the function (a clone, a by-value parameter) are tracked too, but leaving
pushes pending on them is not an error: the value dies with the function.
"""
import json
from . import mir

PUSH = "chess::Game::push"
POP = "chess::Game::pop"

# function -> reason why an abort path (`?` on None) may leave pushes pending
ABORT_EXEMPT = {
    "search::get_best_move_score": "borrowed game belongs to a caller that aborts too; the chain ends in get_best_move_entry's by-value game",
    "search::get_best_move_entry": "game is a by-value parameter and dies with the abort",
}
# functions that play moves one-way by design
ONE_WAY = {
    "chess::Game::push_history": "records the move in the game (the public 'play' primitive)",
}


def move_id(op, defs):
    if op.get("k") in ("copy", "move"):
        pl = op["place"]
        root, steps = mir.root_of(pl["l"], defs)
        own = [p for p in (pl.get("p") or []) if p != "*"]
        return json.dumps([root, steps, own], sort_keys=True)
    return json.dumps(op, sort_keys=True)


def analyse(fn, track_owned=True):
    """Returns dict: pairs, errors[], pending_at_return (for borrowed receivers), depth_at(block) for callers.
    With track_owned=False pushes/pops on games owned by the function itself are ignored (one-way play on a
    private copy is legitimate: the copy dies with the function)."""
    cfg = mir.Cfg(fn)
    defs = mir.copy_sources(fn)
    nargs = fn["mir"]["arg_count"]

    def recv_root(op):
        if op.get("k") in ("copy", "move"):
            r, _ = mir.root_of(op["place"]["l"], defs)
            return r
        return None

    def owned(root):
        if root is None:
            return False
        ty = cfg.local_ty(root)
        return not ty.startswith("&")

    errors = []
    pairs = []
    state_in = {0: ()}
    work = [0]
    depth_before_term = {}
    abort_pending = []
    one_way_pushes = []
    while work:
        b = work.pop()
        st = state_in[b]
        blk = cfg.blocks[b]
        t = blk["term"]
        depth_before_term[b] = st
        out = st
        if t["k"] == "Call" and st == "ABORT":
            pass        # an abort already under way (e.g. the residual of an expanded helper handed on by the caller's own `?`)
        elif t["k"] == "Call":
            c = mir.callee(t)
            if c in (PUSH, POP) and not track_owned and owned(recv_root(t["args"][0])):
                pass
            elif c == PUSH:
                rr = recv_root(t["args"][0])
                out = st + ((rr, move_id(t["args"][1], defs), mir.span_line(t)),)
            elif c == POP:
                rr = recv_root(t["args"][0])
                mid = move_id(t["args"][1], defs)
                if not st:
                    errors.append(("pop-without-push", b, mir.span_line(t), "Game::pop with no pending push on this path"))
                else:
                    top = st[-1]
                    if top[0] != rr or top[1] != mid:
                        errors.append(("pop-mismatch", b, mir.span_line(t),
                                       "Game::pop does not take back the move of the innermost pending push (pushed at line %s)" % top[2]))
                    else:
                        pairs.append((top[2], mir.span_line(t)))
                    out = st[:-1]
            elif c.endswith("FromResidual<std::option::Option<std::convert::Infallible>>>::from_residual") or \
                    c.endswith("::from_residual"):
                pend = [e for e in st if not owned(e[0])]
                abort_pending.append((b, mir.span_line(t), len(st), len(pend)))
                out = "ABORT"
        if t["k"] == "Return":
            if st != "ABORT":
                pend = [e for e in st if not owned(e[0])]
                if pend:
                    errors.append(("return-with-pending-push", b, pend[-1][2],
                                   "function can return with %d push(es) not taken back (first pushed at line %s)"
                                   % (len(pend), pend[0][2])))
            continue
        for s in cfg.succ[b]:
            if cfg.blocks[s]["term"]["k"] == "Unreachable":
                continue    # the shared `otherwise => unreachable` arm of enum switches
            if out == "ABORT":
                if s not in state_in:
                    state_in[s] = "ABORT"
                    work.append(s)
                continue
            if s not in state_in or state_in[s] == "ABORT":
                state_in[s] = out
                work.append(s)
            elif state_in[s] != out:
                # compare ignoring line numbers
                a = tuple((x[0], x[1]) for x in state_in[s])
                bb = tuple((x[0], x[1]) for x in out)
                if a != bb:
                    errors.append(("join-of-different-stacks", s, cfg.line_of_block(s),
                                   "paths with %d and %d pending pushes meet (a branch skips a pop or pushes twice)"
                                   % (len(state_in[s]), len(out))))
    return {"cfg": cfg, "pairs": pairs, "errors": errors, "abort_pending": abort_pending,
            "state_in": state_in, "state_at_term": depth_before_term}
