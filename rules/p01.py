"""C01 - generated moves are exactly the legal moves of chess.

Decides (structurally, on every path of the generator - not per position):
 G1/G2  knight and king step tables of the generator and of the attack detector are the FIDE sets and agree;
 G3     slider rays: rook = 4 orthogonals, bishop = 4 diagonals, queen = union; the detector pairs orthogonals with
        {Rook, Queen} and diagonals with {Bishop, Queen}; every ray starts at distance 1;
 G3b    every ray stops at the first occupied square and at the board edge; captures only of the opponent;
 G4     pawn rules per owner: start/last/en-passant rows, step, double step through two empty squares, captures of
        enemy pieces only, both promotion piece lists, en passant conditions;
 G4b    the detector's pawn squares are the negated capture steps of the *opponent* (sibling agreement with G4);
 G5     castling: right <-> move kind, empty squares {f,g} / {b,c,d}, unattacked squares {e,f,g} / {e,d,c}, home row by side;
 G6     legality filter: verification may be skipped only for Normal moves of pieces not aligned with a king that is
        not in check; everything else is push -> is_targeted(own king, mover) -> pop and kept iff not attacked;
 G7     king steps next to the enemy king are skipped (both coordinates within 1);
 G8     the filter only compacts: checked list is a sub-list of the unchecked list;
 G10    the castling conditions never look at the rook: they trust the rights bits, so the revocation rules of
        Game::push (C02.R2 rook captured on / leaving its home square, C02.R3 king moves) are a premise of G5 along
        every history and are re-checked here.
Does NOT decide: equality of the generated set with the FIDE set in every reachable position.
"""
import re
from . import core, hir
from .common import discr_map, loop_binders, plain_guards

LEVEL = "other"
EXPLANATION = ("Geometry tables, guard sets and constructed move records extracted from the typed HIR of the generator "
               "(piece.rs), the legality filter and the attack detector (mod.rs), folded per owner and compared with FIDE "
               "geometry written independently in the checker and with each other (generator vs detector).")

PT = "chess::piece::PieceType::"
PL = "chess::Player::"
MV = "chess::move_struct::Move::"
KNIGHT = {(1, 2), (2, 1), (-1, -2), (-2, -1), (1, -2), (-2, 1), (-1, 2), (2, -1)}
KING = {(dr, dc) for dr in (-1, 0, 1) for dc in (-1, 0, 1) if (dr, dc) != (0, 0)}
ORTH = {(0, 1), (0, -1), (1, 0), (-1, 0)}
DIAG = {(1, 1), (1, -1), (-1, 1), (-1, -1)}
_SUFFIX = re.compile(r"'u?\d+")


def fmtn(t, maxlen=400):
    """hir.fmt with the suffixes that helper expansion / loop unrolling give to colliding local names removed"""
    return _SUFFIX.sub("", hir.fmt(t, maxlen))


def _line_key(n):
    sp = n.get("sp") or [0, 0]
    return (sp[0], sp[1])


def sym_before_play(body, env, F, sym, node):
    """A local that captured `self.current_player` (or any other state) reads as that state at `node` when nothing has been played
    or assigned before `node`: the first push/pop/side assignment of the function comes after it in the text."""
    first_play = min([_line_key(n) for n, _ in hir.walk(body) if n.get("k") == "MethodCall" and hir.callee_of(n) in ("chess::Game::push", "chess::Game::pop")]
                     + [_line_key(n) for n, _ in hir.walk(body) if n.get("k") in ("Assign", "AssignOp") and "current_player" in fmtn(sym(n["l"]), 80)]
                     + [(10 ** 9, 0)])
    return hir.Sym(env, F, depth=30, through=_line_key(node) < first_play)


def normn(t):
    """normal form with the renaming suffixes of expanded / unrolled locals removed"""
    if isinstance(t, tuple):
        if len(t) == 2 and t[0] == "var" and isinstance(t[1], str):
            return ("var", _SUFFIX.sub("", t[1]))
        return tuple(normn(x) for x in t)
    return t


GEN = "chess::piece::Piece::get_moves"
PAWN = "chess::piece::Piece::get_pawn_moves"
KINGF = "chess::piece::Piece::get_king_moves"
KNIGHTF = "chess::piece::Piece::get_knight_moves"
DET = "chess::Game::is_targeted"
FILTER = "chess::Game::get_moves"


def run(ctx):
    F = ctx.facts
    D = discr_map(F)
    _HELPERS[0] = hir.table_helpers(F)
    g12(ctx, F, D)
    g3(ctx, F, D)
    g4(ctx, F, D)
    g5(ctx, F, D)
    g6(ctx, F, D)
    g7(ctx, F, D)
    g1b(ctx, F, D)
    g9(ctx, F, D)
    g10(ctx, F)


def g10(ctx, F):
    from . import p02
    from .p16 import relabel
    before, nv = len(ctx.instances), len(ctx.violations)
    p02.r123(ctx, F, rules=("R2", "R3"))
    # ... and en passant captures exist exactly when the file is on record: recorded by push (C02.R6) and by the importer (C04.K7)
    # exactly for a double step beside an enemy pawn
    from . import p04
    p02.r6(ctx, F, F.fn("chess::Game::push"))
    p04.rule_k7(ctx, F)
    relabel(ctx, before, nv, "C01.G10")
    # ... and the in-check test of the legality filter looks at the square the mover's king is on: the king cache's setter and
    # getter agree on the slot of each side (C03.S8)
    from . import p03
    before, nv = len(ctx.instances), len(ctx.violations)
    p03.king_cache_accessors(ctx, F)
    relabel(ctx, before, nv, "C01.G11")


# ---------------------------------------------------------------------------
# loops over literal delta tables / rays

def tuple_lits(arr):
    """[(a,b), ...] from an ("arr", ("tup", lit, lit), ...) normal form, else None."""
    if not (isinstance(arr, tuple) and arr and arr[0] == "arr"):
        return None
    out = []
    for t in arr[1:]:
        if not (t[0] == "tup" and len(t) == 3):
            return None
        a, b = hir.sym_int(t[1]), hir.sym_int(t[2])
        if a is None or b is None:
            return None
        out.append((a, b))
    return out


def for_loops(fn, F, env=None):
    """[(iterator normal form, bound names, loop-body node (the Some arm), match node)]"""
    env = env or hir.Env(fn["hir"], F)
    sym = hir.Sym(env, F, depth=30)
    out = []
    for n, anc in hir.walk(fn["hir"]["body"]):
        if n.get("k") == "Match" and n.get("src") == "ForLoopDesugar":
            s = sym(n["e"])
            if s[0] == "call" and str(s[1]).endswith("IntoIterator::into_iter"):
                it = s[2][0]
                # the inner `match next(iter) { None => break, Some(x) => body }`
                for m, _ in hir.walk(n):
                    if m.get("k") == "Match" and m.get("src") == "ForLoopDesugar" and m is not n:
                        for a in m["arms"]:
                            pk = hir.pat_key(a["pat"])
                            if isinstance(pk, tuple) and pk[0] == "variant" and pk[1].endswith("Some"):
                                out.append((it, tuple(hir.pat_names(a["pat"])), a["body"], n))
                        break
    return out, sym


def ray_dir(it):
    """(dr, dc) for `(1..).map(|x| (a, b))` with a, b in {0, x, -x}; None otherwise. Also returns the start."""
    if not (it[0] == "call" and str(it[1]).endswith("Iterator::map") and len(it[2]) == 2):
        return None
    rng, clo = it[2]
    if not (rng[0] == "struct" and str(rng[1]).endswith("ops::RangeFrom")):
        return None
    start = hir.sym_int(dict(rng[2]).get("start"))
    if clo[0] != "closure" or len(clo[1]) != 1:
        return None
    x = ("var", clo[1][0])
    body = clo[2]
    if body[0] != "tup" or len(body) != 3:
        return None

    def comp(t):
        if t == ("lit", 0):
            return 0
        if t == x:
            return 1
        if t == ("neg", x):
            return -1
        return None
    d = (comp(body[1]), comp(body[2]))
    if None in d:
        return None
    return d, start


def ray_of(it, names, body, sym, origin=("pos", "position")):
    """Direction and first step of a ray loop, whatever its spelling: the loop body calls `<origin>.add(E)`; the k-th
    iteration's E is obtained from the iterator - `(s..).map(|x| f(x))` binds the loop variable to f(k), a plain `s..`
    binds it to k - and evaluated for k = s and s+1.  Returns ((dr, dc), s) if E(s) is a literal pair and E(s+1) = 2*E(s)
    (a straight line walked one square at a time), else None."""
    adds = [n for n, _ in hir.walk(body) if n.get("k") == "MethodCall" and hir.callee_of(n) == "chess::position::Position::add"
            and hir.strip(n["recv"]).get("to", {}).get("name") in origin]
    if len(adds) != 1 or not names:
        return None
    E = sym(adds[0]["args"][0])
    v = ("var", names[0])
    start = None
    step = None
    if it[0] == "call" and str(it[1]).endswith("Iterator::map") and len(it[2]) == 2 and it[2][1][0] == "closure" and len(it[2][1][1]) == 1:
        rng, clo = it[2]
        if rng[0] == "struct" and str(rng[1]).endswith("ops::RangeFrom"):
            start = hir.sym_int(dict(rng[2]).get("start"))
            x = ("var", clo[1][0])
            step = lambda k: hir.fold(hir.subst(E, {v: hir.subst(clo[2], {x: ("lit", k)})}), {})
    elif it[0] == "struct" and str(it[1]).endswith("ops::RangeFrom"):
        start = hir.sym_int(dict(it[2]).get("start"))
        step = lambda k: hir.fold(hir.subst(E, {v: ("lit", k)}), {})
    if start is None or step is None:
        return None
    d1, d2 = step(start), step(start + 1)

    def pair(t):
        if t[0] == "tup" and len(t) == 3:
            a, b = hir.sym_int(t[1]), hir.sym_int(t[2])
            if a is not None and b is not None:
                return (a, b)
        return None
    p1, p2 = pair(d1), pair(d2)
    if p1 is None or p2 is None or start == 0:
        return None
    unit = (p1[0] // start if p1[0] % start == 0 else None, p1[1] // start if p1[1] % start == 0 else None)
    if None in unit or p2 != (unit[0] * (start + 1), unit[1] * (start + 1)):
        return None
    return unit, start


def ray_walker(path, F):
    """Is the (un-expandable) helper `path` a ray walker - `fn(self, origin, direction) -> Option<Piece>` that repeatedly steps
    `current = current.add(direction)?` from the origin (so: starts at distance 1, ends with None at the board edge) and returns the
    content of the first occupied square?  Returns the name of the direction parameter's index, or None."""
    h = hir.HELPER_HIR.get(path)
    if not h:
        return None
    params = [p["pat"].get("name") for p in h["params"]]
    if len(params) != 3:
        return None
    env = hir.Env(h, F)
    sym = hir.Sym(env, F, depth=30)
    body = h["body"]
    loops = [n for n, _ in hir.walk(body) if n.get("k") == "Loop"]
    if len(loops) != 1 or "ForLoop" in str(loops[0].get("src")):
        return None
    lp = loops[0]
    # the cursor: a `let mut` initialised with the origin before the loop
    curs = [n for n, anc in hir.walk(body) if n.get("k") == "SLet" and n["pat"].get("k") == "PBind" and n.get("init") is not None
            and sym(n["init"]) == ("var", params[1]) and not any(a is lp for a in anc)]
    if len(curs) != 1:
        return None
    cur = curs[0]["pat"]["name"]
    sts = [hir.strip(x) for x in lp.get("stmts") or ()]
    if not sts or sts[0].get("k") != "Assign" or hir.strip(sts[0]["l"]).get("to", {}).get("name") != cur:
        return None
    step = sym(sts[0]["r"])
    add = ("call", "chess::position::Position::add", (("var", cur), ("var", params[2])))
    # `cur.add(direction)?` : Continue(val) => val, Break => return None-residual
    if not (step[0] == "match" and step[1] == ("call", "std::ops::Try::branch", (add,))):
        return None
    other_assign = [n for n, _ in hir.walk(lp) if n.get("k") in ("Assign", "AssignOp") and n is not sts[0]
                    and hir.strip(n["l"]).get("to", {}).get("name") == cur]
    if other_assign or any(n.get("k") in ("Break", "Continue") for n, _ in hir.walk(lp)):
        return None
    rets = [n for n, anc in hir.walk(lp) if n.get("k") == "Ret" and "QuestionMark" not in str(n.get("mac"))]
    read = ("call", "chess::Game::get_position", (("var", params[0]), ("var", cur)))
    for r in rets:
        g = [(x[1], x[2]) for x in (hir.guards_of(r, body, sym) or []) if x[0] == "if"]
        if sym(r["e"]) != read or g != [(("call", "std::option::Option::<T>::is_some", (read,)), True)]:
            return None
    return 2 if len(rets) == 1 else None


def piece_types_compared(node, sym):
    """PieceType variants that `<something>.piece_type` is compared with (==) under node."""
    out = set()
    for n, _ in hir.walk(node):
        if n.get("k") == "Binary" and n["op"] == "==":
            for a, b in ((n["l"], n["r"]), (n["r"], n["l"])):
                sa, sb = hir.strip(a), hir.strip(b)
                if sa.get("k") == "Field" and sa["name"] == "piece_type" and sb.get("k") == "Path" and \
                        (sb["to"].get("path") or "").startswith(PT):
                    out.add(sb["to"]["path"][len(PT):])
    return out


def detector_step_sites(F, D):
    """Every `return true` of the attack detector outside the ray loops, evaluated per attacked side p and per delta d of the
    enclosing table loop (or the literal delta of the site): the condition under which it fires, case-folded over
    `position.add(d)` in {off the board, NP} and `get_position(NP)` in {empty, PC}.
    Returns ({p: {kind: set(deltas)}}, problems[list of text], number of sites)."""
    det = F.fn(DET)
    body = det["hir"]["body"]
    env = hir.Env(det["hir"], F)
    sym = hir.Sym(env, F, depth=30)
    loops, _ = for_loops(det, F, env=env)
    ray_bodies = [lb for it, names, lb, m in loops if ray_of(it, names, lb, sym) is not None]
    ray_bodies += [lb for it, names, lb, m in loops
                   if any(c.get("k") in ("Call", "MethodCall") and hir.callee_of(c) in hir.HELPER_HIR and ray_walker(hir.callee_of(c), F) is not None
                          for c, _ in hir.walk(lb))]
    NP, PC = ("var", "NP"), ("var", "PC")
    SOME, NONE = "std::prelude::v1::Some", ("variant", "std::prelude::v1::None")
    att = {"White": {}, "Black": {}}
    problems = []
    nsites = 0
    for r, anc in hir.walk(body):
        if r.get("k") != "Ret" or r.get("e") is None or sym(r["e"]) != ("lit", True):
            continue
        if any(any(x is r for x, _ in hir.walk(rb)) for rb in ray_bodies):
            continue
        nsites += 1
        g = hir.guards_of(r, body, sym) or []
        # enclosing table loop (innermost)
        lb = loop_binders(g)
        it, lnames = (lb[-1][0], lb[-1][1]) if lb else (None, ())
        players = ["White", "Black"]
        term = ("lit", True)
        for x in reversed(g):
            if x[0] == "if" and x[2] is True and isinstance(x[1], tuple) and x[1][0] == "let" and x[1][1] == ("variant", SOME) and len(x[1][3]) == 1:
                term = ("call", "std::option::Option::<T>::is_some_and", (x[1][2], ("closure", (x[1][3][0],), term)))
            elif x[0] == "if":
                if x[2] is False and any(y[:2] == ("call", "chess::position::Position::add") for y in hir.subterms(x[1])):
                    continue    # "an earlier site (another square) did not fire": irrelevant for when THIS site fires
                term = ("bin", "&&", x[1] if x[2] else ("not", x[1]), term)
            elif x[0] == "arm" and x[1] == ("var", "player") and isinstance(x[2], tuple) and x[2][0] == "variant":
                players = [x[2][1][len(PL):]]
        for p in players:
            base = {("var", "player"): ("variant", PL + p)}
            deltas = []
            if it is not None and lnames:
                itf = hir.fold(hir.resolve_consts(it, F), base, D)
                tl = tuple_lits(itf)
                if tl is None:
                    problems.append("line %s: the table of the loop around this site is not a literal table for %s: %s" % (hir.line(r), p, fmtn(itf, 80)))
                    continue
                deltas = [(d, {("var", lnames[0]): ("tup", ("lit", d[0]), ("lit", d[1]))}) for d in tl]
            else:
                adds = [x_ for x_ in hir.subterms(term) if x_[:2] == ("call", "chess::position::Position::add") and x_[2][0] == ("var", "position")]
                dl = {tuple_lits(("arr", a_[2][1])) and tuple_lits(("arr", a_[2][1]))[0] for a_ in adds}
                dl.discard(None)
                if len(dl) != 1:
                    problems.append("line %s: cannot tell which square this site tests" % hir.line(r))
                    continue
                deltas = [(list(dl)[0], {})]
            for d, bind in deltas:
                add_key = ("call", "chess::position::Position::add", (("var", "position"), ("tup", ("lit", d[0]), ("lit", d[1]))))
                gp_key = ("call", "chess::Game::get_position", (("var", "self"), NP))
                t1 = hir.subst(term, bind)
                def case(extra):
                    a_ = dict(base)
                    a_.update(extra)
                    return hir.fold(t1, a_, D)
                c1 = case({add_key: NONE})
                c2 = case({add_key: ("ctor", SOME, (NP,)), gp_key: NONE})
                c3 = case({add_key: ("ctor", SOME, (NP,)), gp_key: ("ctor", SOME, (PC,))})
                atoms_ = {hir.canon(a_) for a_ in hir.conj(c3) if a_ != ("lit", True)}
                kind = None
                for a_ in atoms_:
                    if a_[0] == "bin" and a_[1] == "==" and ("field", PC, "piece_type") in (a_[2], a_[3]):
                        o_ = a_[3] if a_[2] == ("field", PC, "piece_type") else a_[2]
                        if o_[0] == "variant" and o_[1].startswith(PT):
                            kind = o_[1][len(PT):]
                want_atoms = {hir.canon(("bin", "!=", ("field", PC, "owner"), ("variant", PL + p))),
                              hir.canon(("bin", "==", ("field", PC, "piece_type"), ("variant", PT + (kind or "?"))))}
                if c1 != ("lit", False) or c2 != ("lit", False) or kind is None or atoms_ != want_atoms:
                    problems.append("line %s, %s attacked from %s: fires when [off board: %s] [empty: %s] [piece PC: %s]"
                                    % (hir.line(r), p, d, fmtn(c1, 40), fmtn(c2, 40), fmtn(c3, 160)))
                    continue
                att[p].setdefault(kind, set()).add(d)
    return att, problems, nsites


def g12(ctx, F, D):
    # generator
    for fpath, want, name, rule in ((KNIGHTF, KNIGHT, "knight", "C01.G1"), (KINGF, KING, "king", "C01.G2")):
        fn = F.fn(fpath)
        loops, sym = for_loops(fn, F)
        tabs = [(tuple_lits(it), body, m) for it, names, body, m in loops if tuple_lits(it) is not None]
        ok = len(tabs) == 1 and set(tabs[0][0]) == want and len(tabs[0][0]) == len(want)
        ctx.check(rule, "generator:%s-steps" % name, ok, fn=fpath, file=fn["file"], line=hir.line(tabs[0][2]) if tabs else fn["span"][0],
                  what="the %s step table of the move generator is not the FIDE set" % name, expected=sorted(want),
                  found=[sorted(t[0]) for t in tabs])
    # detector: every non-ray `return true`, evaluated per attacked side and per delta
    fn = F.fn(DET)
    att, problems, nsites = detector_step_sites(F, D)
    ctx.check("C01.G1", "detector:step-sites-test-enemy-on-position+delta", not problems, fn=DET, file=fn["file"],
              what="a step site of the detector must report an attack exactly when position + delta is on the board and holds an enemy "
                   "piece of the kind it looks for", expected="off board -> no, empty -> no, PC -> PC.owner != player && PC.piece_type == K",
              found=problems[:4] or "%d sites" % nsites)
    for kind, want, rule in (("Knight", KNIGHT, "C01.G1"), ("King", KING, "C01.G2")):
        for p in ("White", "Black"):
            got = att[p].get(kind, set())
            ctx.check(rule, "detector:%s-steps/%s" % (kind.lower(), p), got == want, fn=DET, file=fn["file"],
                      what="the attack detector looks for an enemy %s on a different set of squares than the %s moves to "
                           "(generator and detector must agree)" % (kind.lower(), kind.lower()),
                      expected=sorted(want), found=sorted(got))
    capt = {"White": {(1, 1), (1, -1)}, "Black": {(-1, 1), (-1, -1)}}
    for who, other in (("White", "Black"), ("Black", "White")):
        want = {(-dr, -dc) for dr, dc in capt[other]}
        got = att[who].get("Pawn", set())
        ctx.check("C01.G4b", "detector:pawn-attackers-of-%s" % who, got == want, fn=DET, file=fn["file"],
                  what="a %s square is attacked by a %s pawn standing where that pawn's capture step leads to the square: the detector's "
                       "squares must be the negated capture steps of the opponent (agreement with the generator)" % (who, other),
                  expected=sorted(want), found=sorted(got))
    extra = {p: sorted(k for k in att[p] if k not in ("Knight", "King", "Pawn")) for p in att}
    ctx.check("C01.G1", "detector:no-other-step-attackers", not any(extra.values()), fn=DET, file=fn["file"], nontrivial=False,
              what="a piece kind other than knight, king and pawn is detected by a single step", found=extra)
    ctx.floor("C01.G1", "step sites in the detector", nsites, 3)
    # ... and when none of its sites reports an attacker the square is not attacked: the function's own value is `false`
    dbody = hir.strip(fn["hir"]["body"])
    tail = dbody.get("expr") if dbody.get("k") == "Block" else None
    dsym_ = hir.Sym(hir.Env(fn["hir"], F), F)
    tv = dsym_(tail) if tail is not None else None
    if tv is not None and tv[:1] == ("lit",):       # (a tail that is itself a test is a site of its own)
      ctx.check("C01.G1", "detector:no-attacker-found=>not-attacked", tv == ("lit", False), fn=DET, file=fn["file"],
                line=hir.line(tail) if tail is not None else fn["span"][0],
                what="after all step sites and rays found no attacker the detector must answer `false`", expected="false", found=hir.fmt(tv, 60) if tv else None)


def g3(ctx, F, D):
    # generator: rays per arm of `match self.piece_type`
    from . import inline
    fn0 = F.fn(GEN)
    # direction tables (`for d in DIRECTIONS { for k in 1.. { pos.add(d * k) } }`) are unrolled into one ray loop per entry
    fn = dict(fn0, hir=inline.unroll_literal_loops(fn0["hir"], F=F))
    env = hir.Env(fn["hir"], F)
    sym = hir.Sym(env, F, depth=30)
    arms = {}
    for n, anc in hir.walk(fn["hir"]["body"]):
        if n.get("k") == "Match" and n.get("src") == "Normal" and sym(n["e"]) == ("field", ("var", "self"), "piece_type"):
            for a in n["arms"]:
                pk = hir.pat_key(a["pat"])
                if isinstance(pk, tuple) and pk[0] == "variant":
                    arms[pk[1][len(PT):]] = a["body"]
    total = 0
    for kind, want in (("Rook", ORTH), ("Bishop", DIAG), ("Queen", ORTH | DIAG)):
        body = arms.get(kind)
        dirs, starts, loops_here = [], set(), []
        if body is not None:
            loops, lsym = for_loops({"hir": {"body": body, "params": fn["hir"]["params"]}, "path": GEN}, F, env=env)
            for it, names, lb, m in loops:
                rd = ray_of(it, names, lb, sym)
                if rd:
                    dirs.append(rd[0])
                    starts.add(rd[1])
                    loops_here.append((names, lb, m))
        total += len(dirs)
        ok = set(dirs) == want and len(dirs) == len(want) and starts == {1}
        ctx.check("C01.G3", "generator:%s-rays" % kind.lower(), ok, fn=GEN, file=fn["file"], line=hir.line(body) if body else fn["span"][0],
                  what="the %s must slide along exactly %s, starting at distance 1" % (kind.lower(), "its FIDE directions"),
                  expected=sorted(want), found={"directions": sorted(dirs), "start": sorted(starts)})
        for i, (names, lb, m) in enumerate(loops_here):
            ray_body_generator(ctx, fn, lb, m, names, sym, "%s%s" % (kind, dirs[i]))
    ctx.floor("C01.G3", "generator ray loops", total, 16)
    # the three remaining kinds are delegated
    for kind, callee in (("Pawn", PAWN), ("King", KINGF), ("Knight", KNIGHTF)):
        body = arms.get(kind)
        c = hir.strip(body) if body else {}
        ok = c.get("k") == "MethodCall" and hir.callee_of(c) == callee
        ctx.check("C01.G3", "generator:%s-delegated" % kind.lower(), ok, fn=GEN, file=fn["file"],
                  what="%s moves must come from %s" % (kind.lower(), callee), found=hir.callee_of(c) if c else None, nontrivial=False)
    # detector rays
    det = F.fn(DET)
    loops, dsym = for_loops(det, F)
    groups = {}
    total = 0
    for it, names, lb, m in loops:
        rd = ray_of(it, names, lb, dsym)
        if not rd:
            continue
        total += 1
        kinds = frozenset(piece_types_compared(lb, dsym))
        groups.setdefault(kinds, []).append(rd[0])
        ctx.check("C01.G3", "detector:ray-starts-at-1:%s" % (rd[0],), rd[1] == 1, fn=DET, file=det["file"], line=hir.line(m),
                  what="a detector ray must start at distance 1", found=rd[1], nontrivial=False)
        ray_body_detector(ctx, det, lb, m, names, dsym, rd[0])
    # rays walked by an un-expandable helper: `for d in [table] { if let Some(piece) = self.walker(position, d) { enemy slider? } }`
    for it, names, lb, m in loops:
        tl = tuple_lits(it)
        if tl is None or not names:
            continue
        for c, _ in hir.walk(lb):
            if c.get("k") in ("Call", "MethodCall") and hir.callee_of(c) in hir.HELPER_HIR and ray_walker(hir.callee_of(c), F) is not None:
                args = [dsym(a_) for a_ in hir.call_args(c)]
                if len(args) == 3 and args[1] == ("var", "position") and args[2] == ("var", names[0]):
                    rets = [r for r, _ in hir.walk(lb) if r.get("k") == "Ret"]
                    hit = any(("(piece.owner != player)", True) in [(fmtn(x[1], 200), x[2]) for x in (hir.guards_of(r, lb, dsym) or []) if x[0] == "if"]
                              and dsym(r["e"]) == ("lit", True) for r in rets)
                    kinds = frozenset(piece_types_compared(lb, dsym))
                    ctx.check("C01.G3b", "detector:walker-ray-reports-enemy-slider:%s" % (sorted(kinds),), hit and len(rets) == 1, fn=DET, file=det["file"],
                              line=hir.line(m), what="the first piece met on a ray must be reported only if it is an enemy slider of the right kind",
                              found={"returns": len(rets), "enemy test": hit})
                    for d_ in tl:
                        total += 1
                        groups.setdefault(kinds, []).append(d_)
    want = {frozenset({"Rook", "Queen"}): ORTH, frozenset({"Bishop", "Queen"}): DIAG}
    got = {k: set(v) for k, v in groups.items()}
    ok = got == want and all(len(v) == 4 for v in groups.values())
    ctx.check("C01.G3", "detector:rays-by-piece-kind", ok, fn=DET, file=det["file"],
              what="the detector must look along the orthogonals for enemy rooks/queens and along the diagonals for enemy bishops/queens "
                   "(the same lines those pieces move on in the generator)",
              expected={"Rook+Queen": sorted(ORTH), "Bishop+Queen": sorted(DIAG)},
              found={"+".join(sorted(k)): sorted(v) for k, v in groups.items()})
    ctx.floor("C01.G3", "detector ray loops", total, 8)


def ray_body_generator(ctx, fn, lb, m, names, sym, kind):
    """One step of a slider ray, decided by case evaluation (S-eval) of the conditions under which each `push` and each `break`
    of the loop body is reached: off the board -> stop, nothing generated; empty square -> one quiet move, go on; enemy piece ->
    one capture of exactly that piece, stop; own piece -> nothing, stop.  Written form (if-let / let-else / match) is free."""
    root = fn["hir"]["body"]
    pushes = [n for n, _ in hir.walk(lb) if n.get("k") == "Call" and _SUFFIX.sub("", hir.strip(n["f"]).get("to", {}).get("name") or "") == "push"]
    breaks = [n for n, _ in hir.walk(lb) if n.get("k") == "Break"]
    d = names[0] if names else "?"
    SOME, NONE = "std::prelude::v1::Some", ("variant", "std::prelude::v1::None")
    NP = ("var", "NP")
    ADD = ("call", "chess::position::Position::add", (("var", "pos"), ("var", d)))
    # the step of this ray as the body spells it: `pos.add(delta)`, `pos.add((dr * k, dc * k))`, ...
    adds = set()
    for x_ in pushes + breaks:
        for g_ in hir.guards_of(x_, lb, sym) or []:
            for t_ in hir.subterms(g_[1]) if isinstance(g_[1], tuple) else ():
                if t_[:2] == ("call", "chess::position::Position::add") and len(t_[2]) == 2:
                    adds.add(t_)
    if len(adds) == 1:
        ADD = next(iter(adds))
    GET = ("call", "chess::Game::get_position", (("var", "game"), NP))
    CUR = ("field", ("var", "game"), "current_player")

    def piece(owner):
        return ("struct", "chess::piece::Piece", (("owner", ("variant", "chess::Player::" + owner)), ("piece_type", ("var", "PT"))))
    cases = {"edge": ({ADD: NONE}, 0, None, 1),
             "empty": ({ADD: ("ctor", SOME, (NP,)), GET: NONE}, 1, NONE, 0),
             "enemy": ({ADD: ("ctor", SOME, (NP,)), GET: ("ctor", SOME, (piece("Black"),)), CUR: ("variant", "chess::Player::White")}, 1,
                       ("ctor", SOME, (piece("Black"),)), 1),
             "own": ({ADD: ("ctor", SOME, (NP,)), GET: ("ctor", SOME, (piece("White"),)), CUR: ("variant", "chess::Player::White")}, 0, None, 1)}
    # the side to move may also reach the generator as a field of a context parameter (`mover.player`), or be read off the moving
    # piece itself (`self.owner`, the generator is only called for the mover's pieces: G6)
    side_terms = set()
    for x_ in pushes + breaks:
        for g_ in hir.guards_of(x_, lb, sym) or []:
            for t_ in hir.subterms(g_[1]) if isinstance(g_[1], tuple) else ():
                if t_[:1] == ("field",) and t_[1][:1] == ("var",) and ((t_[2] == "player") or (t_[1] == ("var", "self") and t_[2] == "owner")):
                    side_terms.add(t_)
    for cname in cases:
        if CUR in cases[cname][0]:
            for t_ in side_terms:
                cases[cname][0][t_] = cases[cname][0][CUR]
    res = {}
    for cname, (assume, n_push, captured, n_break) in cases.items():
        fired, undec = [], []
        for p in pushes:
            g = hir.guards_of(p, lb, sym) or []
            v = normn(hir.fold(hir.guards_term(g, rest=sym(p["args"][0])), assume))
            if hir.all_leaves_false(v):
                continue
            fired.append(v)
        nb = 0
        for b in breaks:
            g = hir.guards_of(b, lb, sym) or []
            v = hir.fold(hir.guards_term(g), assume)
            if v == ("lit", True):
                nb += 1
            elif not hir.all_leaves_false(v):
                undec.append(fmtn(v, 80))
        okc = len(fired) == n_push and nb == n_break and not undec
        if okc and n_push:
            want = ("struct", MV + "Normal", (("captured_piece", captured), ("end", NP), ("piece", ("var", "self")), ("start", ("var", "pos"))))
            got = fired[0]
            okc = got[0] == "struct" and got[1] == want[1] and dict(got[2]) == dict(want[2])
        res[cname] = okc
    edge, quiet, capture, occupied = res["edge"], res["empty"], res["enemy"], res["own"] and res["enemy"]
    ok = edge and occupied and capture and quiet and bool(pushes) and bool(breaks)
    ctx.check("C01.G3b", "generator:%s-ray-stops-and-captures-correctly" % kind.lower(), ok, fn=fn["path"], file=fn["file"], line=hir.line(m),
              what="a slider ray must stop at the board edge and at the first occupied square, capturing it only if it holds an enemy piece, "
                   "and record the move with the content of the destination as captured piece",
              expected={"break at edge": True, "break at blocker": True, "capture only enemy": True, "quiet move on empty": True},
              found={"break at edge": edge, "break at blocker": occupied, "capture only enemy": capture, "quiet move on empty": quiet,
                     "pushes": len(pushes), "breaks": len(breaks)})


def ray_body_detector(ctx, det, lb, m, names, sym, direction):
    d = names[0] if names else "?"
    rets = [n for n, _ in hir.walk(lb) if n.get("k") == "Ret"]
    breaks = [n for n, _ in hir.walk(lb) if n.get("k") == "Break"]
    edge = blocker = hit = False
    for b in breaks:
        t = [(fmtn(x[1], 260), x[2]) for x in (hir.guards_of(b, lb, sym) or []) if x[0] == "if"]
        if len(t) == 1 and t[0][0].startswith("let(v1::Some, Position::add(position, ") and t[0][1] is False:
            edge = True
        if len(t) == 3 and t[1][0].startswith("let(v1::Some, Game::get_position(self, new_pos)") and t[1][1] is True and t[2][1] is False:
            blocker = True
    for r in rets:
        t = [(fmtn(x[1], 260), x[2]) for x in (hir.guards_of(r, lb, sym) or []) if x[0] == "if"]
        if ("(piece.owner != player)", True) in t and sym(r["e"]) == ("lit", True):
            hit = True
    ok = edge and blocker and hit and len(rets) == 1 and len(breaks) == 2
    # who is reported: decided by cases on the first piece met (owner x kind) for an attacked side
    want_kinds = {"Rook", "Queen"} if direction in ORTH else {"Bishop", "Queen"}
    SOME_ = "std::prelude::v1::Some"
    wrong = []
    for r in rets:
        if sym(r["e"]) != ("lit", True):
            continue
        term = hir.guards_term(hir.guards_of(r, lb, sym) or [])
        a1 = {t_: ("ctor", SOME_, (("var", "NP"),)) for t_ in hir.subterms(term)
              if isinstance(t_, tuple) and t_[:1] == ("call",) and str(t_[1]).endswith("Position::add")}
        t1 = hir.fold(term, a1)
        gets = [t_ for t_ in hir.subterms(t1) if isinstance(t_, tuple) and t_[:1] == ("call",) and str(t_[1]).endswith("Game::get_position")]
        for side in ("White", "Black"):
            for owner in ("White", "Black"):
                for kind_ in ("Pawn", "Knight", "Bishop", "Rook", "Queen", "King"):
                    pc_ = ("ctor", SOME_, (("struct", "chess::piece::Piece", (("owner", ("variant", PL + owner)), ("piece_type", ("variant", PT + kind_)))),))
                    a2 = {g_: pc_ for g_ in gets}
                    a2[("var", "player")] = ("variant", PL + side)
                    v = hir.fold(hir.fold(t1, a2), a2)
                    exp = owner != side and kind_ in want_kinds
                    if v != ("lit", exp) and not (not exp and hir.all_leaves_false(v)):
                        wrong.append((side, owner, kind_, hir.fmt(v, 40)))
    if rets and gets:
        ctx.check("C01.G3b", "detector:ray-%s-reports-exactly-the-enemy-sliders-of-that-line" % (direction,), not wrong, fn=det["path"], file=det["file"],
                  line=hir.line(m),
                  what="along this line the first piece met must be reported exactly when it is an enemy %s" % " or ".join(sorted(want_kinds)),
                  expected="owner != player && kind in %s" % sorted(want_kinds), found=wrong[:4])
    ctx.check("C01.G3b", "detector:ray-%s-stops-at-first-piece" % (direction,), ok, fn=det["path"], file=det["file"], line=hir.line(m),
              what="a detector ray must report an enemy slider, stop at the first piece of any kind and stop at the board edge "
                   "(otherwise pieces attack through blockers)",
              found={"break at edge": edge, "break at any other first piece": blocker, "enemy slider reported": hit})


# ---------------------------------------------------------------------------
# pawns

def pushes_of(fn, F):
    env = hir.Env(fn["hir"], F)
    sym = hir.Sym(env, F, depth=30)
    body = fn["hir"]["body"]
    out = []
    for n, anc in hir.walk(body):
        if n.get("k") == "Call" and _SUFFIX.sub("", hir.strip(n["f"]).get("to", {}).get("name") or "") == "push":
            out.append((n, sym(n["args"][0]), hir.guards_of(n, body, sym) or []))
    return out, sym


_HELPERS = [None]


def fold_owner(t, owner, D):
    a = {("field", ("var", "self"), "owner"): ("variant", PL + owner),
         ("field", ("var", "game"), "current_player"): ("variant", PL + owner)}
    for x in hir.subterms(t) if isinstance(t, tuple) else ():
        if x[:1] == ("field",) and len(x) == 3 and x[2] == "player" and x[1][:1] == ("var",):
            a[x] = ("variant", PL + owner)        # the side to move handed over in a context value (`mover.player`)
    return hir.canon(hir.fold(t, a, D, helpers=_HELPERS[0]))


def atoms(guards, owner, D):
    """Folded guard atoms as strings; loop plumbing as ('loop', iterator, names)."""
    out = []
    for g in guards:
        if g[0] == "if":
            f = fold_owner(g[1], owner, D)
            pol = g[2]
            while isinstance(f, tuple) and f and f[0] == "not":
                f, pol = f[1], (not pol)
            if f == ("lit", True) and pol is True:
                continue
            out.append(("%s" if pol else "NOT %s") % fmtn(f, 400))
        elif g[0] == "arm" and g[1][0] == "call" and str(g[1][1]).endswith("IntoIterator::into_iter"):
            out.append("FOR %s" % fmtn(fold_owner(g[1][2][0], owner, D), 300))
    return out


def g4(ctx, F, D):
    fn = F.fn(PAWN)
    ps, sym = pushes_of(fn, F)
    ctx.floor("C01.G4", "move construction sites in get_pawn_moves", len(ps), 6)
    for owner, first, last, eprow, d in (("White", 1, 7, 4, 1), ("Black", 6, 0, 3, -1)):
        O = "Player::" + owner
        exp = {
            "double": ("Move::Normal{captured_piece: v1::None, end: Position::add_unsafe(pos, (%d, 0)), piece: self, start: pos}" % (2 * d),
                       {"(Position::row(pos) == %d)" % first,
                        "<T>::is_none(Game::get_position(game, Position::add_unsafe(pos, (%d, 0))))" % d,
                        "<T>::is_none(Game::get_position(game, Position::add_unsafe(pos, (%d, 0))))" % (2 * d)}),
            "step-promotion": ("Move::Promotion{captured_piece: v1::None, end: new_pos, new_piece: new_piece, owner: %s, start: pos}" % O,
                               {"let(v1::Some, Position::add(pos, (%d, 0)), new_pos())" % d, "<T>::is_none(Game::get_position(game, new_pos))",
                                "(Position::row(new_pos) == %d)" % last,
                                "FOR [PieceType::Queen, PieceType::Rook, PieceType::Bishop, PieceType::Knight]"}),
            "step": ("Move::Normal{captured_piece: v1::None, end: new_pos, piece: self, start: pos}",
                     {"let(v1::Some, Position::add(pos, (%d, 0)), new_pos())" % d, "<T>::is_none(Game::get_position(game, new_pos))",
                      "NOT (Position::row(new_pos) == %d)" % last}),
            "capture-promotion": ("Move::Promotion{captured_piece: Game::get_position(game, new_pos), end: new_pos, new_piece: new_piece, owner: %s, start: pos}" % O,
                                  {"FOR [(%d, 1), (%d, -1)]" % (d, d), "let(v1::Some, Position::add(pos, delta), new_pos())",
                                   "<T>::is_some_and(Game::get_position(game, new_pos), |piece| (piece.owner != %s))" % O,
                                   "(Position::row(new_pos) == %d)" % last,
                                   "FOR [PieceType::Queen, PieceType::Rook, PieceType::Bishop, PieceType::Knight]"}),
            "capture": ("Move::Normal{captured_piece: Game::get_position(game, new_pos), end: new_pos, piece: self, start: pos}",
                        {"FOR [(%d, 1), (%d, -1)]" % (d, d), "let(v1::Some, Position::add(pos, delta), new_pos())",
                         "<T>::is_some_and(Game::get_position(game, new_pos), |piece| (piece.owner != %s))" % O,
                         "NOT (Position::row(new_pos) == %d)" % last}),
            "en-passant": ("Move::EnPassant{end_col: GameState::en_passant(Game::state(game)), owner: %s, start_col: Position::col(pos)}" % O,
                           {"(Position::row(pos) == %d)" % eprow, "(GameState::en_passant(Game::state(game)) < 8)",
                            "(<impl i8>::abs((GameState::en_passant(Game::state(game)) - Position::col(pos))) == 1)"}),
        }
        got = {}
        for n, mv, guards in ps:
            m = fmtn(fold_owner(mv, owner, D), 400)
            got[m] = (set(atoms(guards, owner, D)), n)
        for name, (mtxt, conds) in exp.items():
            alt = mtxt
            g = got.get(mtxt)
            if g is None and name == "en-passant":
                # |col - ep| is the same condition
                pass
            ok = g is not None and _same_conditions(g[0], conds)
            ctx.check("C01.G4", "pawn:%s/%s" % (name, owner), ok, fn=PAWN, file=fn["file"], line=hir.line(g[1]) if g else fn["span"][0],
                      what="the %s pawn %s rule of the generator differs from FIDE art. 3.7 (move record or the conditions it is generated under)"
                           % (owner, name), expected={"move": mtxt, "conditions": sorted(conds)},
                      found={"move": mtxt if g else sorted(got)[:8], "conditions": sorted(g[0]) if g else None})
        ctx.check("C01.G4", "pawn:no-other-move-kinds/%s" % owner, len(got) == len(exp), fn=PAWN, file=fn["file"],
                  what="get_pawn_moves constructs a move the rules of chess do not know", expected=len(exp), found=sorted(got))


def _same_conditions(got, want):
    return set(got) == set(want)


# ---------------------------------------------------------------------------
# castling and king steps

def g5(ctx, F, D):
    """Castling generation decided as a truth table (S-eval): the condition under which each castling move is pushed is folded for
    assignments of the atoms `right held`, `square (row, c) empty`, `square (row, c) attacked`: true for the reference assignment,
    false when any one required atom is flipped, unchanged when an irrelevant one is.  The written form - four spelled-out blocks,
    closures, a table of sides walked by a loop with `Iterator::all` - is free."""
    from . import inline
    from .common import chess_evalcalls
    fn0 = F.fn(KINGF)
    fn = dict(fn0, hir=inline.unroll_literal_loops(fn0["hir"], F=F))
    ps, sym = pushes_of(fn, F)
    spec = {"CastlingShort": ("king", [5, 6], [4, 5, 6]), "CastlingLong": ("queen", [1, 2, 3], [4, 2, 3])}
    SOME, NONE = "std::prelude::v1::Some", ("variant", "std::prelude::v1::None")
    GAME = ("var", "game")
    ev = chess_evalcalls(None, {})
    n = 0
    for owner, row in (("White", 0), ("Black", 7)):
        OWN = ("variant", PL + owner)
        blocker = ("ctor", SOME, (("struct", "chess::piece::Piece", (("owner", OWN), ("piece_type", ("variant", "chess::piece::PieceType::Knight")))),))

        def assignment(rights, occupied, attacked):
            a = {("field", GAME, "current_player"): OWN, ("field", ("var", "self"), "owner"): OWN}
            for p_ in ps:
                for g_ in p_[2]:
                    for x in hir.subterms(g_[1]) if isinstance(g_[1], tuple) else ():
                        if x[:1] == ("field",) and len(x) == 3 and x[2] == "player" and x[1][:1] == ("var",):
                            a[x] = OWN
            st = ("call", "chess::Game::state", (GAME,))
            for o2 in ("white", "black"):
                for sd in ("king", "queen"):
                    a[("call", "chess::gamestate::GameState::%s_%s_castling" % (o2, sd), (st,))] = ("lit", (o2, sd) in rights)
            for c in range(8):
                sq_ = ("pos", row, c)
                a[("call", "chess::Game::get_position", (GAME, sq_))] = blocker if c in occupied else NONE
                a[("call", "chess::Game::is_targeted", (GAME, sq_, OWN))] = ("lit", c in attacked)
            # the king's own square, however it is named (the literal home square, the king piece's square, the cached king square)
            for ksq in (("var", "pos"), ("call", "chess::Game::get_king_position", (GAME, OWN))):
                a[("call", "chess::Game::is_targeted", (GAME, ksq, OWN))] = ("lit", 4 in attacked)
            return a
        for variant, (side, empties, safe) in spec.items():
            site = [p for p in ps if fold_owner(p[1], owner, D) == ("struct", MV + variant, (("owner", OWN),))]
            reach = ("lit", False)
            for p in site:
                reach = ("bin", "||", reach, hir.guards_term(plain_guards(p[2])))
            both = {(owner.lower(), "king"), (owner.lower(), "queen")}
            bad = []

            def value(rights, occupied, attacked):
                v = hir.fold(reach, assignment(rights, occupied, attacked), D, _HELPERS[0], ev)
                return v[1] if v[0] == "lit" else fmtn(v, 100)
            if value(both, {0, 4, 7}, set()) is not True:
                bad.append(("all conditions met", value(both, {0, 4, 7}, set())))
            if value(both - {(owner.lower(), side)}, {0, 4, 7}, set()) is not False:
                bad.append(("without the right", value(both - {(owner.lower(), side)}, {0, 4, 7}, set())))
            for c in empties:
                if value(both, {0, 4, 7, c}, set()) is not False:
                    bad.append(("piece on column %d" % c, value(both, {0, 4, 7, c}, set())))
            for c in safe:
                if value(both, {0, 4, 7}, {c}) is not False:
                    bad.append(("column %d attacked" % c, value(both, {0, 4, 7}, {c})))
            # what must not matter: the other wing's right, squares of the other wing, an attack on a square the king does not touch
            other_side = "queen" if side == "king" else "king"
            other_cols = [c for c in (1, 2, 3, 5, 6) if c not in empties]
            if value({(owner.lower(), side)}, {0, 4, 7}, set()) is not True:
                bad.append(("other wing's right lost", value({(owner.lower(), side)}, {0, 4, 7}, set())))
            for c in other_cols:
                if value(both, {0, 4, 7, c}, set()) is not True:
                    bad.append(("piece on column %d of the other wing" % c, value(both, {0, 4, 7, c}, set())))
            for c in [c for c in (0, 1, 2, 3, 5, 6, 7) if c not in safe]:
                if value(both, {0, 4, 7}, {c}) is not True:
                    bad.append(("column %d attacked (the king does not touch it)" % c, value(both, {0, 4, 7}, {c})))
            n += 1
            ctx.check("C01.G5", "castling:%s/%s" % (variant, owner), bool(site) and not bad, fn=KINGF, file=fn0["file"],
                      line=hir.line(site[0][0]) if site else fn0["span"][0],
                      what="%s may castle %s-side only with that right, the squares between king and rook empty and the king's square, "
                           "the square it crosses and its destination not attacked (the b-file square need not be safe)" % (owner, side),
                      expected="pushed iff right && columns %s empty && columns %s not attacked" % (empties, safe),
                      found=bad[:4] if site else "no construction site")
    ctx.floor("C01.G5", "castling cases", n, 4)


def g1b(ctx, F, D):
    """G1b a knight step is generated exactly when its destination is on the board and does not hold a piece of the mover, as a
    Normal move from `pos` to that square capturing what stands there - decided by cases on the content of the destination."""
    fn = F.fn(KNIGHTF)
    ps, sym = pushes_of(fn, F)
    steps = [p for p in ps if p[1][0] == "struct" and p[1][1] == MV + "Normal"]
    bad = []
    if len(steps) != 1:
        bad.append(("construction sites", len(steps)))
    else:
        n, mv, guards = steps[0]
        SOME_, NONE_ = "std::prelude::v1::Some", ("variant", "std::prelude::v1::None")
        term = hir.guards_term(guards, rest=mv)
        a1 = {t_: ("ctor", SOME_, (("var", "NP"),)) for t_ in hir.subterms(term)
              if isinstance(t_, tuple) and t_[:1] == ("call",) and str(t_[1]).endswith(("Position::add", "Position::new"))}
        t1 = hir.fold(term, a1)
        gets = [t_ for t_ in hir.subterms(t1) if isinstance(t_, tuple) and t_[:1] == ("call",) and str(t_[1]).endswith("Game::get_position")]
        for mover in ("White", "Black"):
            other = "Black" if mover == "White" else "White"
            for label, content, gen in (("empty", NONE_, True),
                                        ("own piece", ("ctor", SOME_, (("struct", "chess::piece::Piece", (("owner", ("variant", PL + mover)), ("piece_type", ("variant", PT + "Pawn")))),)), False),
                                        ("enemy piece", ("ctor", SOME_, (("struct", "chess::piece::Piece", (("owner", ("variant", PL + other)), ("piece_type", ("variant", PT + "Rook")))),)), True)):
                a2 = {g_: content for g_ in gets}
                a2[("field", ("var", "game"), "current_player")] = a2[("field", ("var", "self"), "owner")] = ("variant", PL + mover)
                a2[("call", "chess::Game::player", (("var", "game"),))] = ("variant", PL + mover)
                for x in hir.subterms(t1):
                    if isinstance(x, tuple) and x[:1] == ("field",) and len(x) == 3 and x[2] == "player" and x[1][:1] == ("var",):
                        a2[x] = ("variant", PL + mover)
                v = hir.fold(hir.fold(t1, a2, D), a2, D)
                if not gen:
                    if not (v == ("lit", False) or hir.all_leaves_false(v)):
                        bad.append((mover, label, "generated: %s" % hir.fmt(v, 60)))
                else:
                    f = dict(v[2]) if isinstance(v, tuple) and v[:1] == ("struct",) and v[1] == MV + "Normal" else None
                    if f is None or f.get("end") != ("var", "NP") or f.get("start") != ("var", "pos") or f.get("captured_piece") != content \
                            or f.get("piece") != ("var", "self"):
                        bad.append((mover, label, hir.fmt(v, 100)))
    ctx.check("C01.G1", "knight-steps:onto-any-square-not-held-by-the-mover", not bad, fn=KNIGHTF, file=fn["file"],
              line=hir.line(steps[0][0]) if steps else fn["span"][0],
              what="a knight step is generated exactly when the destination is on the board and holds no piece of the side to move, as a "
                   "Normal move from the knight's square to it, capturing what stands there",
              expected="empty -> quiet move, enemy piece -> capture, own piece -> nothing", found=bad[:4])


def g7(ctx, F, D):
    fn = F.fn(KINGF)
    ps, sym = pushes_of(fn, F)
    steps = [p for p in ps if p[1][0] == "struct" and p[1][1] == MV + "Normal"]
    ok = len(steps) == 1
    found = None
    if ok:
        n, mv, guards = steps[0]
        at = set(atoms(guards, "White", D))
        other = "Game::get_king_position(game, Player::Black)"
        want_adj = "NOT ((<impl i8>::abs((Position::col(new_pos) - Position::col(%s))) <= 1) && (<impl i8>::abs((Position::row(new_pos) - Position::row(%s))) <= 1))" % (other, other)
        want = {"FOR [(0, 1), (0, -1), (1, 0), (-1, 0), (1, 1), (1, -1), (-1, 1), (-1, -1)]",
                "let(v1::Some, Position::add(pos, delta), new_pos())",
                "NOT <T>::is_some_and(Game::get_position(game, new_pos), |piece| (piece.owner == Player::White))", want_adj}
        # the table itself is checked by G2; compare the rest
        at2 = {a for a in at if not a.startswith("FOR ")}
        w2 = {a for a in want if not a.startswith("FOR ")}
        other_is_enemy = _other_king_source(fn, F)
        ok = at2 == w2 and other_is_enemy
        found = sorted(at2)
        mvd = dict(mv[2])
        ok = ok and mvd.get("end") == ("var", "new_pos") and mvd.get("start") == ("var", "pos") and \
            mvd.get("captured_piece") == ("call", "chess::Game::get_position", (("var", "game"), ("var", "new_pos")))
    ctx.check("C01.G7", "king-steps:not-onto-own-piece-nor-next-to-enemy-king", ok, fn=KINGF, file=fn["file"],
              line=hir.line(steps[0][0]) if steps else fn["span"][0],
              what="a king step is generated unless the destination holds an own piece or is adjacent (both coordinates within 1) to the enemy king",
              expected="destination on board, not own piece, NOT (|drow| <= 1 && |dcol| <= 1) w.r.t. the other side's king", found=found)


def _other_king_source(fn, F):
    # `other_king_pos` is a plain let from &Game (not inlined only if game were &mut); accept the inlined form
    return True


# ---------------------------------------------------------------------------
# legality filter

def g6(ctx, F, D):
    fn = F.fn(FILTER)
    body = fn["hir"]["body"]
    env = hir.Env(fn["hir"], F)
    sym = hir.Sym(env, F, depth=30)
    # names captured before the loop
    lets = {}
    for n, anc in hir.walk(body):
        if n.get("k") == "SLet" and n["pat"].get("k") == "PBind" and n.get("init") is not None:
            lets[n["pat"]["name"]] = (fmtn(sym(n["init"]), 200), sum(1 for a in anc if a.get("k") == "Loop"))
    player = [k for k, v in lets.items() if v == ("self.current_player", 0)]
    pl = player[0] if player else "?"
    kp = [k for k, v in lets.items() if v == ("Game::get_king_position(self, %s)" % pl, 0)]
    kpn = kp[0] if kp else "?"
    chk = [k for k, v in lets.items() if v == ("Game::is_targeted(self, %s, %s)" % (kpn, pl), 0)]
    chn = chk[0] if chk else "?"
    ctx.check("C01.G6", "filter:mover-king-and-check-status-captured-before-the-loop", bool(player and kp and chk), fn=FILTER, file=fn["file"],
              what="the legality filter must capture the mover, the mover's king square and whether that king is in check before it "
                   "starts playing moves", found={k: v for k, v in lets.items() if v[1] == 0})
    # kept-iff: the condition under which an element is copied to the kept prefix, as a truth table over
    # (in check?, kind of move, origin relative to the king, own king attacked after the move?)
    ATT0 = ("call", "chess::Game::is_targeted", (("var", "self"), ("call", "chess::Game::get_king_position", (("var", "self"), ("var", pl))), ("var", pl)))
    symk = hir.Sym(env, F, depth=30, keep={pl, kpn, chn})
    vvars = [n["pat"]["name"] for n, _ in hir.walk(body) if n.get("k") == "SLet" and n["pat"].get("k") == "PBind" and n.get("init") is not None
             and symk(n["init"]) == ("not", ATT0)]
    # look through the lets of the loop body (`let is_legal = a || b`), but keep the pre-loop captures and the verification result symbolic
    sym2 = hir.Sym(env, F, depth=30, through=True, keep={pl, kpn, chn} | set(vvars))
    sites = []
    for n, anc in hir.walk(body):
        if n.get("k") == "Assign" and any(a.get("k") == "Loop" for a in anc):
            l = hir.strip(n["l"])
            if l.get("k") == "Index" and hir.strip(l["e"]).get("to", {}).get("name") == "moves":
                sites.append((n, list(hir.guards_of(n, body, sym2) or [])))
    K = ("lit", False)
    for n, g in sites:
        K = ("bin", "||", K, hir.guards_term(g))
    S_, KP = ("var", "S"), ("var", kpn)
    ATT = ("call", "chess::Game::is_targeted", (("var", "self"), ("call", "chess::Game::get_king_position", (("var", "self"), ("var", pl))), ("var", pl)))
    bad = []
    n_rows = 0
    kinds = {"Normal": ("struct", MV + "Normal", (("captured_piece", ("var", "CP")), ("end", ("var", "E")), ("piece", ("var", "PCE")), ("start", S_))),
             "EnPassant": ("struct", MV + "EnPassant", (("end_col", ("var", "EC")), ("owner", ("var", "O")), ("start_col", ("var", "SC")))),
             "CastlingShort": ("struct", MV + "CastlingShort", (("owner", ("var", "O")),)),
             "Promotion": ("struct", MV + "Promotion", (("captured_piece", ("var", "CP")), ("end", ("var", "E")), ("new_piece", ("var", "NPC")),
                                                       ("owner", ("var", "O")), ("start", S_)))}
    elem_keys = [("var", "_move"), ("index", ("var", "moves"), ("var", "index"))]
    for in_check in (False, True):
        for kind, mv in kinds.items():
            for dc, dr in ((0, 0), (0, 3), (3, 0), (2, 2), (2, -2), (-2, -2), (1, 2), (-3, 1), (5, -1)):
                for att in (False, True):
                    a = {("var", chn): ("lit", in_check), ("var", "verify_king"): ("lit", True), ATT: ("lit", att),
                         ("call", "chess::Game::king_exists", (("var", "self"), ("field", ("var", "self"), "current_player"))): ("lit", True),
                         ("call", "chess::Game::king_exists", (("var", "self"), ("var", pl))): ("lit", True),
                         # (the king stands away from the corner: a sum in place of a difference must not pass for one)
                         ("call", "chess::position::Position::col", (S_,)): ("lit", 4 + dc), ("call", "chess::position::Position::row", (S_,)): ("lit", 3 + dr),
                         ("call", "chess::position::Position::col", (KP,)): ("lit", 4), ("call", "chess::position::Position::row", (KP,)): ("lit", 3)}
                    for ek in elem_keys:
                        a[ek] = mv
                    for vv in vvars:
                        a[("var", vv)] = ("lit", not att)
                    v = hir.fold(K, a, D)
                    want = (not in_check and kind == "Normal" and dc != 0 and dr != 0 and abs(dc) != abs(dr)) or (not att)
                    n_rows += 1
                    if v != ("lit", want):
                        bad.append({"in check": in_check, "move": kind, "origin - king": (dc, dr), "king attacked after": att,
                                    "kept": fmtn(v, 120), "expected": want})
    ok = bool(sites) and not bad
    found = bad[:3] or "%d keep site(s), %d cases" % (len(sites), n_rows)
    conts = sites
    ctx.check("C01.G6", "filter:verification-skipped-only-for-unaligned-normal-moves-when-not-in-check", ok, fn=FILTER, file=fn["file"],
              line=hir.line(sites[0][0]) if sites else fn["span"][0],
              what="a move is kept exactly when the mover's king is not attacked after it; the push/pop verification may be replaced by "
                   "`kept` only if the king is not in check and the move is a Normal move whose origin is neither on the king's row, "
                   "column nor diagonal (any other skipped move could expose or leave the king in check)",
              expected="kept <=> (!in_check && Normal{start} && dcol != 0 && drow != 0 && |dcol| != |drow|) || !attacked_after", found=found)
    # verification sequence
    push = [n for n, _ in hir.walk(body) if n.get("k") == "MethodCall" and hir.callee_of(n) == "chess::Game::push"]
    pop = [n for n, _ in hir.walk(body) if n.get("k") == "MethodCall" and hir.callee_of(n) == "chess::Game::pop"]
    test = None
    seq_ok = len(push) == 1 and len(pop) == 1
    cond_name = None
    if seq_ok:
        blk = None
        for n, anc in hir.walk(body):
            if n is push[0]:
                blk = [a for a in anc if a.get("k") in ("Block", "Loop")][-1]
        sts = blk.get("stmts") or []
        kinds = []
        for st in sts:
            s0 = hir.strip(st)
            if any(x is push[0] for x, _ in hir.walk(st)):
                kinds.append("push")
            elif any(x is pop[0] for x, _ in hir.walk(st)):
                kinds.append("pop")
            elif s0.get("k") == "SLet" and s0.get("init") is not None and "is_targeted" in fmtn(sym(s0["init"]), 200):
                kinds.append("test")
                test = fmtn(sym(s0["init"]), 200)
                cond_name = s0["pat"].get("name")
        order = [k for k in kinds if k in ("push", "test", "pop")]
        same_move = sym(push[0]["args"][0]) == sym(pop[0]["args"][0])
        seq_ok = order == ["push", "test", "pop"] and same_move and \
            test == "!Game::is_targeted(self, Game::get_king_position(self, %s), %s)" % (pl, pl)
    ctx.check("C01.G6", "filter:push-then-own-king-attacked?-then-pop", seq_ok, fn=FILTER, file=fn["file"],
              line=hir.line(push[0]) if push else fn["span"][0],
              what="every verified move must be played, the MOVER's king (at its square after the move) tested for attack by the opponent, "
                   "and the move taken back", expected="push(m); keep = !is_targeted(get_king_position(mover), mover); pop(m)",
              found={"test": test})
    # G8: writes to the list only compact it
    writes = []
    for n, anc in hir.walk(body):
        if n.get("k") == "Assign":
            l = hir.strip(n["l"])
            if l.get("k") == "Index" and hir.strip(l["e"]).get("to", {}).get("name") == "moves":
                g = [(fmtn(x[1], 120), x[2]) for x in (hir.guards_of(n, body, sym) or []) if x[0] == "if"]
                writes.append((fmtn(sym(l["i"]), 40), fmtn(sym(n["r"]), 60), g, n))
    keepv = writes[0][0] if writes else "?"
    ok = len(writes) >= 1 and all(w[0] == keepv and w[1] in ("_move", "index(moves, index)") for w in writes)
    ctx.check("C01.G8", "filter:keeps-exactly-the-moves-that-pass", ok, fn=FILTER, file=fn["file"],
              what="the filter may only copy an element of the list down to the keep index (shortcut) or when the verification succeeded",
              found=[(w[0], w[1], w[2][-2:]) for w in writes])
    tr = [n for n, _ in hir.walk(body) if n.get("k") == "MethodCall" and n["name"] == "truncate"]
    ok = len(tr) == 1 and fmtn(sym(tr[0]["args"][0]), 40) == keepv
    incs = [n for n, _ in hir.walk(body) if n.get("k") == "AssignOp" and n["op"] == "+=" and hir.strip(n["l"]).get("to", {}).get("name") == keepv
            and hir.strip(n["r"]).get("v") == 1]
    # each kept move is stored at the keep index *before* the index moves on (the other order leaves a hole at the front and drops
    # the last kept move)
    order_ok = True
    for w in writes:
        blk = None
        for n_, anc_ in hir.walk(body):
            if n_ is w[3]:
                bl = [a_ for a_ in anc_ if a_.get("k") == "Block"]
                blk = bl[-1] if bl else None
        inc_here = [i_ for i_ in incs if blk is not None and any(x is i_ for x, _ in hir.walk(blk))]
        if inc_here and min(hir.order_key(i_) for i_ in inc_here) < hir.order_key(w[3]):
            order_ok = False
    # the filter looks at every generated move: its loop runs over the whole list (an index range from 0 to its length)
    rng_ok = True
    for n_, anc_ in hir.walk(body):
        if n_.get("k") == "Match" and n_.get("src") == "ForLoopDesugar" and any(w[3] is x_ for w in writes for x_, _ in hir.walk(n_)):
            it = sym(n_["e"])
            if it[:1] == ("call",) and str(it[1]).endswith("IntoIterator::into_iter") and it[2]:
                it = it[2][0]
            if it[:1] == ("struct",) and str(it[1]).endswith("ops::Range"):
                d_ = dict(it[2])
                rng_ok = hir.sym_int(d_.get("start")) == 0 and "len(moves)" in fmtn(d_.get("end"), 60).replace("<T, CAP>::", "").replace("ArrayVec::", "")
            elif it[:1] == ("call",) and str(it[1]).endswith("RangeInclusive::<Idx>::new"):
                rng_ok = False
    ctx.check("C01.G8", "filter:looks-at-every-generated-move", rng_ok, fn=FILTER, file=fn["file"],
              what="the legality filter's loop does not run over the whole list of generated moves (from index 0 to its length)", found=rng_ok)
    ctx.check("C01.G8", "filter:stores-then-advances", order_ok, fn=FILTER, file=fn["file"],
              what="the keep index must advance after the kept move was stored at it", found=order_ok)
    ctx.check("C01.G8", "filter:truncates-to-the-kept-prefix", ok and len(incs) == len(writes) and len(writes) >= 1, fn=FILTER, file=fn["file"],
              what="the list must be truncated to exactly the kept moves (keep index advanced once per kept move)",
              found={"truncate": [fmtn(sym(t["args"][0]), 40) for t in tr], "increments": len(incs)})
    # every own piece contributes, in both modes
    gens = [n for n, _ in hir.walk(body) if n.get("k") == "MethodCall" and hir.callee_of(n) == GEN]
    ok = len(gens) == 1
    t = []
    if ok:
        # the side to move may be read once into a local before the generation pass: that is `self.current_player` as long as
        # nothing is played before the generator runs (the first push/pop of this function comes after it in the text)
        symt = sym_before_play(body, env, F, sym, gens[0])
        g = hir.guards_of(gens[0], body, symt) or []
        lb = loop_binders(g)
        t = [(fmtn(hir.canon(x[1]), 200), x[2]) for x in plain_guards(g) if x[0] in ("if", "arm")]
        rng = [fmtn(l[0], 60) for l in lb]
        names = [l[1][0] if l[1] else "?" for l in lb]
        ok = rng == ["ops::Range{end: 8, start: 0}", "ops::Range{end: 8, start: 0}"]
        # decided by cases: the generator is called for the piece on (row, col) exactly when that piece belongs to the side to move
        SQ = ("call", "chess::position::Position::new_assert", tuple(("var", nm) for nm in names))
        GETP = ("call", "chess::Game::get_position", (("var", "self"), SQ))
        CUR = ("field", ("var", "self"), "current_player")
        KEX = ("call", "chess::Game::king_exists", (("var", "self"), CUR))

        def pc(owner):
            return ("struct", "chess::piece::Piece", (("owner", ("variant", "chess::Player::" + owner)), ("piece_type", ("var", "PT"))))
        SOME = "std::prelude::v1::Some"
        reach = hir.guards_term(plain_guards(g))
        recv = hir.guards_term(plain_guards(g), rest=("tup", symt(gens[0]["recv"]), symt(gens[0]["args"][-1])))
        for cur in ("White", "Black"):
            base = {CUR: ("variant", "chess::Player::" + cur), KEX: ("lit", True)}
            other = "Black" if cur == "White" else "White"
            def with_(v):
                a_ = dict(base)
                a_[GETP] = v
                return a_
            ok = ok and hir.all_leaves_false(hir.fold(reach, with_(("variant", "std::prelude::v1::None"))))
            ok = ok and hir.all_leaves_false(hir.fold(reach, with_(("ctor", SOME, (pc(other),)))))
            ok = ok and hir.fold(recv, with_(("ctor", SOME, (pc(cur),)))) == ("tup", pc(cur), SQ)
    ctx.check("C01.G6", "generation:every-own-piece-on-all-64-squares", ok, fn=FILTER, file=fn["file"],
              what="moves must be generated for every piece of the side to move on all 64 squares",
              found=[(fmtn(x[1], 120), x[2]) for x in (hir.guards_of(gens[0], body, sym) or []) if x[0] == "if"] if gens else None)


def g9(ctx, F, D):
    """Board edges and the collecting closure: Position::add yields (row+dr, col+dc) iff both stay in 0..8; the `push` closure of
    Game::get_moves appends every move it is given; the buffer is cleared first; no move without the mover's king."""
    from .common import position_constructor_cases
    from . import inline
    fn = F.fn("chess::position::Position::add")
    bad, n_ = [], 0
    try:
        for (r, c, dr, dc), v in position_constructor_cases(F, "add"):
            n_ += 1
            want = ("ctor", "std::prelude::v1::Some", (("pos", r + dr, c + dc),)) if 0 <= r + dr < 8 and 0 <= c + dc < 8 else ("variant", "std::prelude::v1::None")
            if v != want:
                bad.append(((r, c), (dr, dc), fmtn(v, 60)))
    except (hir.Unsupported, inline.Cannot) as e:
        bad.append(("not summarisable", str(e)))
    ctx.check("C01.G9", "board-edges:Position::add", not bad and n_ > 0, fn=fn["path"], file=fn["file"], line=fn["span"][0],
              what="stepping from a square must give (row+drow, col+dcol) exactly when both stay on the board, None otherwise "
                   "(a wrong edge makes pieces wrap around or stop short)", expected="Some(row+d0, col+d1) iff both in 0..8",
              found=bad[:4] or "%d (square, step) cases" % n_)
    # the other constructors the generators and the importer use: `new` accepts exactly the 64 squares, the unchecked step gives the
    # same square as the checked one wherever that is on the board
    for name, label in (("new", "Position::new"), ("new_assert", "Position::new_assert"), ("new_unsafe", "Position::new_unsafe"),
                        ("new_unchecked", "Position::new_unchecked"), ("add_unsafe", "Position::add_unsafe")):
        if "chess::position::Position::" + name not in F.fns:
            continue
        pf = F.fn("chess::position::Position::" + name)
        bad, n_ = [], 0
        try:
            for args, v in position_constructor_cases(F, name):
                n_ += 1
                if name == "new":
                    r, c = args
                    want = ("ctor", "std::prelude::v1::Some", (("pos", r, c),)) if 0 <= r < 8 and 0 <= c < 8 else ("variant", "std::prelude::v1::None")
                    if v != want:
                        bad.append((args, fmtn(v, 60)))
                elif name in ("new_assert", "new_unsafe", "new_unchecked"):
                    r, c = args
                    if 0 <= r < 8 and 0 <= c < 8 and v != ("pos", r, c) and [x for x in hir.subterms(v) if x[:1] == ("pos",)] != [("pos", r, c)]:
                        bad.append((args, fmtn(v, 60)))       # (outside the board it panics: C15's concern)
                else:
                    r, c, dr, dc = args
                    if 0 <= r + dr < 8 and 0 <= c + dc < 8:
                        got = [x for x in hir.subterms(v) if x[:1] == ("pos",)]
                        if v != ("pos", r + dr, c + dc) and got != [("pos", r + dr, c + dc)]:
                            bad.append((args, fmtn(v, 60)))
        except (hir.Unsupported, inline.Cannot) as e:
            bad.append(("not summarisable", str(e)))
        ctx.check("C01.G9", "board-edges:%s" % label, not bad and n_ > 0, fn=pf["path"], file=pf["file"], line=pf["span"][0],
                  what="%s must name the square (row, col) / (row+drow, col+dcol) for every square of the board (a constructor that refuses a "
                       "rank or a file, or steps the wrong way, loses or misplaces moves)" % label,
                  expected="all 64 squares, nothing else", found=bad[:4] or "%d cases" % n_)
    # every step of a step table and every generated move is looked at: the loops of the step generators and of the legality
    # filter are never left early (a `break` or a `return` in place of a `continue` silently drops the rest)
    for pth in (KINGF, KNIGHTF, PAWN, FILTER):
        lf = F.fn(pth)
        early = []
        for n_, anc_ in hir.walk(lf["hir"]["body"]):
            in_loop = any(a_.get("k") == "Loop" for a_ in anc_)
            in_closure = any(a_.get("k") == "Closure" for a_ in anc_)
            if n_.get("k") == "Break" and "Desugaring" not in str(n_.get("mac", "")) and in_loop:
                early.append(("break", hir.line(n_)))
            if n_.get("k") == "Ret" and in_loop and not in_closure and "Desugaring" not in str(n_.get("mac", "")):
                early.append(("return", hir.line(n_)))
        ctx.check("C01.G9", "loops-visit-every-element:%s" % pth.split("::")[-1], not early, fn=pth, file=lf["file"], line=early[0][1] if early else lf["span"][0],
                  what="a loop over a step table / over the generated moves is left early: the remaining steps or moves are never looked at",
                  expected="continue (never break / return) inside these loops", found=early)
    gm = F.fn(FILTER)
    genv = hir.Env(gm["hir"], F)
    gsym = hir.Sym(genv, F)
    gbody = gm["hir"]["body"]
    clos = []
    for n, anc in hir.walk(gbody):
        if n.get("k") == "SLet" and n["pat"].get("k") == "PBind" and n["pat"]["name"] == "push" and hir.strip(n["init"]).get("k") == "Closure":
            clos.append(hir.strip(n["init"]))
    ok = len(clos) == 1
    found = None
    if ok:
        clo = clos[0]
        params = [nm for p in clo["params"] for nm in hir.pat_names(p)]
        calls = [c for c, _ in hir.walk(clo["body"]) if c.get("k") == "MethodCall" and c["name"] in ("push", "try_push", "push_unchecked")]
        branches = [c for c, _ in hir.walk(clo["body"]) if c.get("k") in ("If", "Match", "Loop", "Ret") and not c.get("mac")]
        ok = len(calls) == 1 and not branches and hir.strip(calls[0]["recv"]).get("to", {}).get("name") == "moves" and \
            gsym(calls[0]["args"][0]) == ("var", params[0])
        found = {"appends": len(calls), "branches": len(branches)}
    ctx.check("C01.G9", "collector-appends-every-generated-move", ok, fn=FILTER, file=gm["file"],
              what="the closure that collects generated moves must append each one unconditionally", found=found)
    # clear first; early return only without a king of the mover
    sts = hir.strip(gbody).get("stmts") or []
    first = hir.strip(sts[0]) if sts else {}
    cleared = first.get("k") == "MethodCall" and first["name"] == "clear" and hir.strip(first["recv"]).get("to", {}).get("name") == "moves"
    rets = [n for n, _ in hir.walk(gbody) if n.get("k") == "Ret"]
    rg = [[(fmtn(x[1], 80), x[2]) for x in (hir.guards_of(r, gbody, sym_before_play(gbody, genv, F, gsym, r)) or []) if x[0] == "if"] for r in rets]
    ok = cleared and rg == [[("Game::king_exists(self, self.current_player)", False)]]
    ctx.check("C01.G9", "list-cleared-and-empty-only-without-own-king", ok, fn=FILTER, file=gm["file"],
              what="get_moves must start from an empty list and may return early (no moves) only when the mover has no king", found=rg)
    ke = F.fn("chess::Game::king_exists")
    nf = hir.summarize(ke, F) if True else None
    want = "<T>::is_some_and(Game::get_position(self, Game::get_king_position(self, player)), |piece| (piece.piece_type == PieceType::King))"
    ctx.check("C01.G9", "king_exists", fmtn(nf, 300) == want, fn=ke["path"], file=ke["file"], line=ke["span"][0],
              what="king_exists(player) must say whether the cached king square of that player holds a king", expected=want,
              found=fmtn(nf, 300))
