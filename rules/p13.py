"""C13 - thinking time never exceeds the time available.

Decides the arithmetic clause: (A1) every integer operation on values that depend on wtime/btime/winc/binc/movetime
is saturating/checked/min/max (no raw + - * on integers, no narrowing cast); (A2) the clock budget of each side passes
through `min` with that side's own clock as its outermost operation, and the share factor is <= 1; (A3) White's budget
is built from (wtime, winc) only and Black's from (btime, binc) only, selected by the side to move; (A4) the fixed-time
path is the given value; the only later adjustment is a saturating subtraction; (A5) the value announced as `info time`,
the value slept on and the flag cleared afterwards are the same definitions.
Does NOT decide that bestmove appears within the budget on the wall clock (scheduler, sleep overshoot): runtime only.
"""
import struct
from . import core, hir, mir
from .common import dependence_nodes, fmt_writes
from . import p14

LEVEL = "other"
EXPLANATION = ("Operator discipline on the typed HIR of uci::command_go: every arithmetic node whose data-dependence closure "
               "reaches a clock input must be a saturating/checked method or min/max; normal forms of the two side budgets "
               "(outermost min with the own clock); constants evaluated by the compiler; the timer closure's captured duration.")
GO = "uci::command_go"
INPUTS = {"wtime", "btime", "winc", "binc", "move_time"}
INT_TYPES = {"u8", "u16", "u32", "u64", "u128", "usize", "i8", "i16", "i32", "i64", "i128", "isize"}
WIDTH = {"u8": 8, "i8": 8, "u16": 16, "i16": 16, "u32": 32, "i32": 32, "u64": 64, "i64": 64, "usize": 64, "isize": 64, "u128": 128, "i128": 128}


def mentions_inputs(node, fn):
    names = {n["to"]["name"] for n in dependence_nodes(node, fn["hir"]) if n.get("k") == "Path" and n["to"].get("res") == "local"}
    return sorted(names & INPUTS)


def _nonzero(t):
    """an unsigned term that cannot be zero: a non-zero literal, x.saturating_add(c) / x.max(c) / x | c with a literal c >= 1"""
    v = hir.sym_int(t)
    if v is not None:
        return v != 0
    if isinstance(t, tuple) and t[:1] == ("call",) and len(t[2]) == 2:
        nm = str(t[1]).rsplit("::", 1)[-1]
        if nm in ("saturating_add", "max"):
            return any((hir.sym_int(x) or 0) >= 1 for x in t[2])
    if isinstance(t, tuple) and t[:2] == ("bin", "|"):
        return any((hir.sym_int(x) or 0) >= 1 for x in t[2:4])
    if isinstance(t, tuple) and t[:1] == ("cast",):
        return False
    return False


def budget_value(F, fn, roles):
    """Normal form of the Option the statement that arms the timer tests (`if let Some(time) = time` / `match time`), evaluated
    forward through the statements before it (mutable locals, branches merged; the option-parsing loop makes the parameters
    free variables).  Returns (term, None) or (None, reason)."""
    body = hir.strip(fn["hir"]["body"])
    if "timer" not in roles:
        return None, "no timer thread found"
    tpath = roles["timer"]["path"]
    idx = [i for i, st in enumerate(body.get("stmts") or []) if any(n.get("k") == "Closure" and n.get("def") == tpath for n, _ in hir.walk(st))]
    if len(idx) != 1:
        return None, "the timer is not armed by one top-level statement of command_go"
    st = hir.strip(body["stmts"][idx[0]])
    if st.get("k") == "SSemi":
        st = hir.strip(st["e"])
    if st.get("k") == "If" and isinstance(st.get("cond"), dict):
        c = st["cond"]
        lets_ = [x for x, _ in hir.walk(c) if x.get("k") == "Let"] if c.get("k") != "Let" else [c]
        scr = lets_[0]["init"] if len(lets_) == 1 else None
    elif st.get("k") == "Match":
        scr = st["e"]
    else:
        scr = None
    if scr is None:
        return None, "the statement that arms the timer does not test an Option"
    h2 = dict(fn["hir"], body=dict(body, stmts=body["stmts"][:idx[0]], expr=scr))
    try:
        return hir.Exec(h2, F, depth=40, tolerant=True).run(), None
    except hir.Unsupported as e:
        return None, "statement form not summarised (%s)" % e


def _words(pk):
    out = []
    if isinstance(pk, tuple):
        if pk[:1] == ("lit",) and len(pk) == 2 and isinstance(pk[1], str):
            out.append(pk[1])
        for x in pk[1:] if pk[:1] in (("or",), ("tup",)) else ():
            out += _words(x)
        for x in (getattr(pk, "sub", None) or {}).values():
            out += _words(x)
    return out


def untimed_budget(F):
    """the time budget `go` computes when neither a clock nor a move time was given (e.g. `go depth N`), folded for both sides to
    move: [(side, normal form)], or (None, reason)"""
    fn = F.fn(GO)
    roles = p14.closures_by_role(F)
    V, why = budget_value(F, fn, roles)
    if V is None:
        return None, why
    NONE = ("variant", "std::prelude::v1::None")
    players = sorted({t for t in hir.subterms(V) if t and ((t[:2] == ("call", "chess::Game::player")) or (t[0] == "field" and t[-1] == "current_player"))}, key=str)
    out = []
    for side in ("White", "Black"):
        a = {}
        for nm in ("wtime", "btime", "winc", "binc", "move_time"):
            a[("var", nm)] = a[("var", "?" + nm)] = NONE
        a[("var", "infinite")] = a[("var", "?infinite")] = ("lit", False)
        for p_ in players:
            a[p_] = ("variant", "chess::Player::" + side)
        out.append((side, hir.fold(hir.fold(V, a), a)))
    return out, None


def run(ctx):
    F = ctx.facts
    fn = F.fn(GO)
    body = fn["hir"]["body"]
    env = hir.Env(fn["hir"], F)
    sym = hir.Sym(env, F, depth=40)
    a1(ctx, F, fn, body, sym)
    a7(ctx, F, fn, body, sym)
    a2_to_a6(ctx, F, fn, body, sym)


PANICKING_STD = ("::clamp", "Duration::mul_f64", "Duration::div_f64", "Duration::from_secs_f64", "Duration::from_secs_f32",
                 "::pow", "::ilog", "::ilog2", "::ilog10", "::div_ceil", "::next_multiple_of", "::rem_euclid", "::div_euclid",
                 "ops::Add>::add", "ops::Sub>::sub", "ops::Mul>::mul", "ops::Div>::div", "ops::AddAssign>::add_assign",
                 "ops::SubAssign>::sub_assign")


def a7(ctx, F, fn, body, sym):
    """A7 each clock word of `go` fills its own parameter: the arm for `wtime` stores the parsed number in wtime (not in btime, not
    twice for one word) - the budget clauses take the parameters as given, this is where they are given."""
    WORDS = {"wtime": ("wtime",), "btime": ("btime",), "winc": ("winc",), "binc": ("binc",), "movetime": ("move_time", "movetime")}
    return _word_table(ctx, fn, body, WORDS, "C13.A7", "each-clock-word-fills-its-own-parameter",
                       "a clock word of `go` is not stored in its own parameter: the budget is computed from the wrong number or never "
                       "(with one of the four missing there is no clock budget and the search runs until stopped)")


def depth_word(ctx, F, rule="C08.L8"):
    """the `depth` word of `go` fills the depth limit (the same table of words as A7): without its arm `go depth N` is an unlimited
    search"""
    fn = F.fn(GO)
    WORDS = {"wtime": ("wtime",), "btime": ("btime",), "winc": ("winc",), "binc": ("binc",), "depth": ("depth", "max_depth", "depth_limit")}
    return _word_table(ctx, fn, fn["hir"]["body"], WORDS, rule, "the-depth-word-fills-the-depth-limit",
                       "the `depth` word of `go` is not stored in the depth limit: `go depth N` searches without a limit (no bestmove "
                       "until `stop`)", only=("depth",))


def _word_table(ctx, fn, body, WORDS, rule, name, what, only=None):
    table = None
    for n, _ in hir.walk(body):
        if n.get("k") == "Match" and n.get("src") == "Normal":
            t = []
            for a_ in n["arms"]:
                ws = [w_ for w_ in _words(hir.pat_key(a_["pat"])) if w_ in WORDS]
                tg = []
                for x, _ in hir.walk(a_["body"]):
                    if x.get("k") == "Assign":
                        l0 = hir.strip(x["l"])
                        nm = l0["to"].get("name") if l0.get("k") == "Path" else (l0.get("name") if l0.get("k") == "Field" else None)
                        tg.append(nm)
                for w_ in ws:
                    t.append((w_, tg))
            if len({w_ for w_, _ in t}) >= 4:
                table = (n, t)
    if table is None:
        return          # the words are not read by one match over literals: nothing this rule can say
    n, t = table
    bad = []
    seen = set()
    for w_, tg in t:
        if w_ in seen:
            bad.append((w_, "a second arm for the same word (never reached)"))
            continue
        seen.add(w_)
        if only:
            # (names are free here: one store, into a variable no other word of the table stores into)
            others = {str(x_).split("'")[0] for w2, tg2 in t if w2 != w_ for x_ in tg2}
            if len(tg) != 1 or str(tg[0]).split("'")[0] in others:
                bad.append((w_, "stores into %s" % tg))
        elif len(tg) != 1 or str(tg[0]).split("'")[0] not in WORDS[w_]:
            bad.append((w_, "stores into %s" % tg))
    for w_ in WORDS:
        if w_ not in seen:
            bad.append((w_, "no arm"))
    if only:
        bad = [b_ for b_ in bad if b_[0] in only]
    ctx.check(rule, name, not bad, fn=GO, file=fn["file"], line=hir.line(n), what=what,
              expected={k: v[0] for k, v in WORDS.items() if not only or k in only}, found=bad)


def a1(ctx, F, fn, body, sym):
    """A1: arithmetic on values derived from the clock parameters cannot wrap, truncate or panic"""
    n_arith = 0
    for n, anc in hir.walk(body):
        if n.get("k") in ("MethodCall", "Call"):
            c_ = hir.callee_of(n) or ""
            if c_.endswith(PANICKING_STD) and ("Duration" in c_ or "time::Instant" in c_ or "::clamp" in c_ or "num::" in c_) and mentions_inputs(n, fn):
                n_arith += 1
                ctx.check("C13.A1", "panicking-library-arithmetic-on-clock-values:%s" % c_.rsplit("::", 1)[-1], False, fn=GO, file=fn["file"],
                          line=hir.line(n),
                          what="a library operation that panics for part of its argument range (`clamp` with min > max, Duration/Instant "
                               "`+`/`-`/`*` on overflow, `pow`, `div_ceil` by zero ...) is applied to a value derived from the GUI's clock "
                               "parameters: the `go` that hits the range panics on the command thread and gets no bestmove",
                          expected="saturating_*/checked_*/min/max", found=hir.fmt(sym(n), 160))
        k = n.get("k")
        if k in ("Binary", "AssignOp") and n["op"].rstrip("=") in ("+", "-", "*", "/", "%", "<<") and n.get("op") not in ("==", "<=", ">=", "!="):
            ty = n.get("ty") if k == "Binary" else hir.strip(n["l"]).get("ty")
            dep = mentions_inputs(n, fn)
            if not dep:
                continue
            n_arith += 1
            ok = ty not in INT_TYPES
            if not ok and n["op"].rstrip("=") in ("/", "%") and str(ty).startswith("u") and _nonzero(sym(n["r"])):
                ok = True       # an unsigned division cannot overflow; the divisor is non-zero by construction
            ctx.check("C13.A1", "raw-integer-arithmetic-on-clock-values:%s" % n["op"], ok, fn=GO, file=fn["file"], line=hir.line(n),
                      what="unchecked integer arithmetic on a value derived from the GUI's clock parameters: for part of the input space it "
                           "wraps (e.g. 2%% of the clock + increment below the latency allowance turns a small budget into ~2^64 ms) or "
                           "panics in debug builds, poisoning the shared state", expected="saturating_*/checked_*/min/max",
                      found={"op": n["op"], "type": ty, "depends on": dep, "expr": hir.fmt(sym(n), 160)})
        if k == "Cast":
            src = hir.strip(n["e"]).get("ty")
            dst = n.get("ty")
            if src in INT_TYPES and dst in INT_TYPES and WIDTH[dst] < WIDTH[src] and mentions_inputs(n, fn):
                n_arith += 1
                ctx.check("C13.A1", "narrowing-cast-on-clock-values", False, fn=GO, file=fn["file"], line=hir.line(n),
                          what="a clock value is truncated by an `as` cast", found={"from": src, "to": dst})
        if k == "MethodCall" and n["name"].startswith(("wrapping_", "unchecked_", "overflowing_")) and mentions_inputs(n, fn):
            n_arith += 1
            ctx.check("C13.A1", "wrapping-arithmetic-on-clock-values:%s" % n["name"], False, fn=GO, file=fn["file"], line=hir.line(n),
                      what="wrapping arithmetic on a clock value", found=hir.fmt(sym(n), 120))
    sat = [n for n, _ in hir.walk(body) if n.get("k") == "MethodCall" and n["name"] in ("saturating_add", "saturating_sub", "saturating_mul", "min")
           and mentions_inputs(n, fn)]
    ctx.floor("C13.A1", "saturating/min operations on clock values", len(sat), 3)


def a2_to_a6(ctx, F, fn, body, sym):
    # A2 / A3 / A4: the budget (the Option the timer statement tests) as one normal form, decided by cases over which `go`
    # parameters were given and whose turn it is (S-eval): the written form - assignments to a mutable local, one expression with
    # Option combinators, match or if-let - is free
    lets = {}
    for n, anc in hir.walk(body):
        if n.get("k") == "SLet" and n["pat"].get("k") == "PBind" and n.get("init") is not None:
            lets.setdefault(n["pat"]["name"], []).append(n)
    roles = p14.closures_by_role(F)
    V, why = budget_value(F, fn, roles)
    ctx.check("C13.A3", "budget-value-extracted", V is not None, fn=GO, file=fn["file"], nontrivial=False,
              what="the time budget tested before the timer is armed could not be summarised: " + str(why), found=why)
    SOME, NONE = "std::prelude::v1::Some", ("variant", "std::prelude::v1::None")
    CLOCKS = ("wtime", "btime", "winc", "binc")
    players = sorted({t for t in (hir.subterms(V) if V is not None else ()) if t and ((t[:2] == ("call", "chess::Game::player")) or (t[0] == "field" and t[-1] == "current_player"))}, key=str)

    def case(given, side, infinite=False):
        a = {}
        for nm in CLOCKS + ("move_time",):
            # the parameter as a local, or as a field of an options struct filled by the parsing loop (`?name`)
            a[("var", nm)] = a[("var", "?" + nm)] = ("ctor", SOME, (("var", nm.upper()),)) if nm in given else NONE
        a[("var", "infinite")] = a[("var", "?infinite")] = ("lit", infinite)
        for p_ in players:
            a[p_] = ("variant", "chess::Player::" + side)
        v = hir.fold(V, a)
        return hir.fold(v, a)

    margin_in_budget = [False]

    def millis(v):
        """X of Some(Duration::from_millis(X)), also when the constant safety margin is already taken off:
        Some(from_millis(X).saturating_sub(<constant duration>))"""
        if not (v[0] == "ctor" and str(v[1]).endswith("Some") and len(v[2]) == 1):
            return None
        d_ = v[2][0]
        if d_[0] == "call" and str(d_[1]).endswith("Duration::saturating_sub") and len(d_[2]) == 2 and \
                not any(x[:1] in (("var",), ("field",), ("index",)) for x in hir.subterms(d_[2][1])):
            margin_in_budget[0] = True
            d_ = d_[2][0]
        if d_[0] == "call" and str(d_[1]).endswith("Duration::from_millis"):
            return d_[2][0]
        return None
    own = {"White": ("wtime", "winc"), "Black": ("btime", "binc")}
    budgets = {}
    if V is not None:
        # A4: an explicit movetime is the budget, whatever else was given
        bad = []
        for side in ("White", "Black"):
            for given in (("move_time",), ("move_time",) + CLOCKS, ("move_time", "wtime", "winc")):
                v = case(given, side)
                if millis(v) != ("var", "MOVE_TIME"):
                    bad.append((given, side, hir.fmt(v, 100)))
        ctx.check("C13.A4", "fixed-time-is-the-given-value", not bad, fn=GO, file=fn["file"], what="`movetime` must be used as given (never extended)",
                  expected="budget = Some(Duration::from_millis(move_time)) whenever movetime is given", found=bad[:3])
        # A3: no movetime: no budget without the mover's own clock; a budget from a partial set of parameters (the increment or
        # the opponent's clock left out) is held to the same clauses as the full one
        bad = []
        partial = []
        for side in ("White", "Black"):
            for missing in CLOCKS + (None,):
                given = tuple(c for c in CLOCKS if c != missing) if missing else ()
                v = case(given, side)
                if v == NONE:
                    continue
                if own[side][0] not in given:
                    bad.append((given, side, hir.fmt(v, 100)))
                else:
                    partial.append((side, given, millis(v), v))
        # a parameter set for which the budget expression unwraps a parameter that was not given panics on the command thread
        unwraps = []
        for side in ("White", "Black"):
            for missing in CLOCKS + (None,):
                given = tuple(c for c in CLOCKS if c != missing) if missing else ()
                v = case(given, side)
                for t_ in hir.subterms(v):
                    if isinstance(t_, tuple) and t_[:1] == ("call",) and str(t_[1]).endswith(("::unwrap", "::expect")) and t_[2] and t_[2][0] == NONE:
                        unwraps.append((given, side))
        ctx.check("C13.A3", "no-unwrap-of-a-parameter-that-was-not-given", not unwraps, fn=GO, file=fn["file"],
                  what="for some set of clock parameters the budget unwraps one that was not given: the `go` panics instead of thinking",
                  found=sorted(set(unwraps))[:3])
        ctx.check("C13.A3", "no-clock-budget-without-the-mover's-clock", not bad, fn=GO, file=fn["file"],
                  what="a clock budget is defined although the clock of the side to move was not given", found=bad[:2])
        for side in ("White", "Black"):
            budgets[side] = millis(case(CLOCKS, side))
        for side, given, x, v in partial:
            clock, inc = own[side]
            okp = x is not None and x[0] == "call" and str(x[1]).endswith("Ord::min") and any(y == ("var", clock.upper()) for y in x[2]) and \
                {s_[1].lower() for s_ in hir.subterms(x) if len(s_) == 2 and s_[0] == "var"} & INPUTS <= {clock, inc}
            ctx.check("C13.A2", "partial-parameters:budget-clamped-by-own-clock:%s" % side, okp, fn=GO, file=fn["file"],
                      what="with only some clock parameters given (%s) the budget must still be limited by the mover's own clock and "
                           "built from the mover's clock and increment only" % ", ".join(given),
                      expected="Some(from_millis(min(.., %s)))" % clock, found=hir.fmt(v, 200))
    ctx.check("C13.A3", "budget-selected-by-side-to-move", bool(players) and all(budgets.get(s_) is not None for s_ in ("White", "Black")) and
              budgets.get("White") != budgets.get("Black"), fn=GO, file=fn["file"],
              what="the clock budget must be chosen by the side to move of the current game: one budget under player == White, one otherwise",
              found={"side tests": [hir.fmt(p_, 60) for p_ in players], "budgets": {k: hir.fmt(v, 100) if v else None for k, v in budgets.items()}})

    def unwrapped(t):
        names = set()
        for s_ in hir.subterms(t):
            if len(s_) == 2 and s_[0] == "var":
                names.add(s_[1].lower())
        return names & INPUTS

    def is_clock(t, clock):
        return t == ("var", clock.upper())
    clock_assign = None
    for side in ("White", "Black"):
        x = budgets.get(side)
        if x is None:
            continue
        clock, inc = own[side]
        ok = x[0] == "call" and str(x[1]).endswith("Ord::min") and any(is_clock(y, clock) for y in x[2])
        ctx.check("C13.A2", "budget-clamped-by-own-clock:%s" % side, ok, fn=GO, file=fn["file"],
                  what="%s's budget is not limited by %s's remaining time: the increment is an independent input, so 2%% of the clock + "
                       "increment can exceed the clock (`go wtime 100 ... winc 5000`)" % (side, side),
                  expected="min(.., %s) as the outermost operation" % clock, found=hir.fmt(x, 300) if x else None)
        names = unwrapped(x)
        ctx.check("C13.A3", "budget-uses-own-clock-and-increment-only:%s" % side, names == {clock, inc}, fn=GO, file=fn["file"],
                  what="%s's budget must be computed from %s and %s" % (side, clock, inc),
                  expected=sorted((clock, inc)), found=sorted(names))
        # share factor <= 1 and latency subtracted, not added
        frac_ok = lat_ok = False
        for s_ in hir.subterms(x):
            if len(s_) == 4 and s_[0] == "bin" and s_[1] == "*":
                for side_t in (s_[2], s_[3]):
                    if side_t[0] == "const":
                        b_ = F.const_bytes(side_t[1])
                        v_ = struct.unpack("<d", b_)[0]
                        frac_ok = 0.0 <= v_ <= 1.0
                    if side_t[0] == "lit":
                        try:
                            frac_ok = 0.0 <= float(side_t[1]) <= 1.0
                        except (TypeError, ValueError):
                            pass
            if len(s_) == 3 and s_[0] == "call" and str(s_[1]).endswith("saturating_sub"):
                lat_ok = True
        ctx.check("C13.A2", "share-of-clock-at-most-1:%s" % side, frac_ok, fn=GO, file=fn["file"],
                  what="the fraction of the clock spent per move must be a constant in [0, 1]", found=frac_ok)
    # A5 (and the A4 margin): what the timer sleeps on and what is announced
    ws, wsym = fmt_writes(fn, F)
    info = [w for w in ws if w[1] and w[1].startswith("info time")]
    ok = len(info) == 1 and bool(info[0][2])
    printed_nf = info[0][2][0][1] if ok else None
    slept_nf = None
    slept = None
    timer_node = None
    if "timer" in roles:
        tfn = roles["timer"]
        # in the parent's HIR the closure body is inlined
        for n, anc in hir.walk(body):
            if n.get("k") == "Closure" and n.get("def") == tfn["path"]:
                timer_node = n
                for c, _ in hir.walk(n["body"]):
                    if c.get("k") == "Call" and hir.callee_of(c) == "std::thread::sleep":
                        slept = hir.fmt(sym(c["args"][0]), 80)
                        slept_nf = sym(c["args"][0])
    # the names the budget test binds (`if let Some(time) = ..` / `Some(time) if ..`): innermost Some-pattern guard of the timer
    tg = (hir.guards_of(timer_node, body, sym) or []) if timer_node is not None else []
    some_guards = [x for x in tg if (x[0] == "if" and x[1][0] == "let" and "Some" in str(x[1][1][1:2])) or
                   (x[0] == "arm" and isinstance(x[2], tuple) and "Some" in str(x[2][1:2]))]
    bound = set()
    if some_guards:
        x = some_guards[-1]
        bound = set(x[1][3]) if x[0] == "if" else set(x[3])
    # later adjustment: only a saturating subtraction of a constant from the budget the test bound
    ok4 = False
    if slept_nf is not None and slept_nf[0] == "call" and str(slept_nf[1]).endswith("Duration::saturating_sub") and len(slept_nf[2]) == 2 \
            and slept_nf[2][0][0] == "var" and slept_nf[2][0][1] in bound:
        ok4 = not any(x[:1] in (("var",), ("field",), ("index",)) for x in hir.subterms(slept_nf[2][1]))
    if slept_nf is not None and slept_nf[0] == "var" and slept_nf[1] in bound and margin_in_budget[0]:
        ok4 = True          # the margin was taken off where the budget was computed; the timer sleeps on the budget as it is
    adj = [n for n in lets.get("time", []) if slept_nf is not None and sym(n["init"]) == slept_nf]
    ctx.check("C13.A4", "only-a-saturating-safety-margin-is-subtracted", ok4, fn=GO, file=fn["file"], line=hir.line(adj[0]) if adj else None,
              what="after the budget is chosen it may only be reduced, with saturation", expected="<budget>.saturating_sub(<constant duration>)",
              found=slept)
    same_value = printed_nf is not None and slept_nf is not None and printed_nf == ("call", "std::time::Duration::as_millis", (slept_nf,))
    adjusted = slept_nf is not None and ((slept_nf[0] == "call" and str(slept_nf[1]).endswith("Duration::saturating_sub")) or
                                         (slept_nf[0] == "var" and slept_nf[1] in bound and margin_in_budget[0]))
    ctx.check("C13.A5", "announced-budget-is-the-enforced-budget", ok and same_value and adjusted, fn=GO, file=fn["file"],
              line=hir.line(info[0][0]) if info else None,
              what="the value printed as `info time`, the value the timer sleeps on must be the same adjusted budget",
              found={"printed": hir.fmt(info[0][2][0][1], 60) if info and info[0][2] else None, "slept": slept})
    # no timer when infinite: the spawn is reached exactly when the budget is Some and `infinite` is false
    armed_ok, spawn_g = False, []
    for n, anc in hir.walk(body):
        if n.get("k") == "Closure" and "timer" in roles and n.get("def") == roles["timer"]["path"]:
            g = hir.guards_of(n, body, sym) or []
            spawn_g = [(hir.fmt(x[1], 60), x[2] if x[0] == "if" else hir.fmt(x[2], 30)) for x in g if x[0] in ("if", "arm")]
            scr = [(x[1][2] if x[0] == "if" else x[1]) for x in some_guards]
            reach = hir.guards_term(g)
            INF = ("var", "infinite")
            if scr:
                some_d = ("ctor", "std::prelude::v1::Some", (("var", "D"),))
                none_d = ("variant", "std::prelude::v1::None")
                # outer tests (e.g. a game is loaded) hold; what their patterns bind is named in the keys of the inner ones
                base, ren = {}, {}
                for k_, (t_, x_) in enumerate(zip(scr[:-1], some_guards[:-1])):
                    base[hir.subst(t_, ren)] = ("ctor", "std::prelude::v1::Some", (("var", "G%d" % k_),))
                    nms = x_[1][3] if x_[0] == "if" else x_[3]
                    if len(nms) == 1:
                        ren[("var", nms[0])] = ("var", "G%d" % k_)
                budget_key = hir.subst(scr[-1], ren)

                def under(budget, inf):
                    # `infinite` may already be part of the budget (None when infinite): then the test sees None
                    if budget == some_d and V is not None and case(("move_time",), "White", infinite=inf) == none_d:
                        return ("lit", False)
                    a_ = dict(base)
                    a_[budget_key] = budget
                    a_[INF] = a_[("var", "?infinite")] = ("lit", inf)
                    for t_ in hir.subterms(reach):       # `infinite` as a field of an options struct
                        if t_[:1] == ("field",) and t_[-1] == "infinite":
                            a_[t_] = ("lit", inf)
                    return hir.fold(reach, a_)
                armed_ok = under(some_d, False) == ("lit", True) and hir.all_leaves_false(under(some_d, True)) and \
                    hir.all_leaves_false(under(none_d, False))
    # ... and `infinite` means that the word was given: a boolean the spawn is switched off by starts as false and is set only where
    # the token "infinite" is recognised (a flag that is on by default leaves every timed `go` without its timer)
    offs = set()
    for n, anc in hir.walk(body):
        if n.get("k") == "Closure" and "timer" in roles and n.get("def") == roles["timer"]["path"]:
            for x in hir.guards_of(n, body, sym) or []:
                if x[0] == "if" and x[2] is False and isinstance(x[1], tuple) and x[1][:1] == ("var",):
                    offs.add(x[1][1])
    for nm in sorted(offs):
        inits = [n for n, _ in hir.walk(body) if n.get("k") == "SLet" and n["pat"].get("k") == "PBind" and n["pat"].get("name") == nm and n.get("init") is not None]
        sets = [(n, anc) for n, anc in hir.walk(body) if n.get("k") == "Assign" and hir.strip(n["l"]).get("k") == "Path" and hir.strip(n["l"])["to"].get("name") == nm]
        # (a flag that arrives as the field of an options value has no `let` of its own here: only its assignments are looked at)
        ok_i = (len(inits) == 1 and sym(inits[0]["init"]) == ("lit", False)) or not inits
        ok_s = True
        for n, anc in sets:
            if sym(n["r"]) == ("lit", False):
                continue
            arm_ok = False
            for a_ in anc:
                if a_.get("k") == "Match":
                    for arm in a_["arms"]:
                        if any(x is n for x, _ in hir.walk(arm["body"])) and "infinite" in [w_ for w_ in _words(hir.pat_key(arm["pat"]))]:
                            arm_ok = True
                if a_.get("k") == "If" and any(t_ == ("lit", "infinite") for t_ in hir.subterms(sym(a_["cond"]))) and any(x is n for x, _ in hir.walk(a_["then"])):
                    arm_ok = True
            ok_s = ok_s and arm_ok
        ctx.check("C13.A5", "untimed-only-on-request:%s" % nm, ok_i and ok_s, fn=GO, file=fn["file"], line=hir.line(inits[0]) if inits else None,
                  what="the flag that switches the timer off must start as false and be set only where the word `infinite` is read",
                  expected="let mut %s = false; \"infinite\" => %s = true" % (nm, nm), found={"initial": hir.fmt(sym(inits[0]["init"]), 40) if inits else None, "assignments": len(sets)})
    ctx.check("C13.A5", "timer-armed-iff-budget-and-not-infinite", armed_ok,
              fn=GO, file=fn["file"], what="the timer must be armed exactly when a budget exists and `infinite` was not given", found=spawn_g)
    # A6: the budget is *enforced*: the flag the timer clears is observed at every interior node and an abort unwinds at once
    from . import p07
    before, nv = len(ctx.instances), len(ctx.violations)
    p07.q1(ctx, F)
    p07.q2(ctx, F)
    p07.flag_identity(ctx, F)       # ... and it is the same flag at every level of the search
    p14.flag_raised_only_by_go(ctx, F, "C14.O3")       # the timer's clear is final: nobody raises the flag again
    for i in ctx.instances[before:]:
        i["rule"] = "C13.A6(" + i["rule"] + ")"
    for v in ctx.violations[nv:]:
        v["rule"] = "C13.A6(" + v["rule"] + ")"
        v["key"] = "C13.A6|" + v["key"]
    ctx.assume("wall-clock behaviour (sleep overshoot, scheduling of the search thread) is outside a static decision")
