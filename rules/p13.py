"""C13 - thinking time never exceeds the time available.

Decides the arithmetic clause: (A1) every integer operation on values that depend on wtime/btime/winc/binc/movetime
is saturating/checked/min/max (no raw + - * on integers, no narrowing cast); (A2) the clock budget of each side passes
through `min` with that side's own clock as its outermost operation, and the share factor is <= 1; (A3) White's budget
is built from (wtime, winc) only and Black's from (btime, binc) only, selected by the side to move; (A4) the fixed-time
path is the given value; the only later adjustment is a saturating subtraction; (A5) the value announced as `info time`,
the value slept on and the flag cleared afterwards are the same definitions.
Does NOT decide that bestmove appears within the budget on the wall clock (scheduler, sleep overshoot): runtime only.
"""
import struct
from . import core, hir, mir
from .common import dependence_nodes, fmt_writes
from . import p14

LEVEL = "other"
EXPLANATION = ("Operator discipline on the typed HIR of uci::command_go: every arithmetic node whose data-dependence closure "
               "reaches a clock input must be a saturating/checked method or min/max; normal forms of the two side budgets "
               "(outermost min with the own clock); constants evaluated by the compiler; the timer closure's captured duration.")
GO = "uci::command_go"
INPUTS = {"wtime", "btime", "winc", "binc", "move_time"}
INT_TYPES = {"u8", "u16", "u32", "u64", "u128", "usize", "i8", "i16", "i32", "i64", "i128", "isize"}
WIDTH = {"u8": 8, "i8": 8, "u16": 16, "i16": 16, "u32": 32, "i32": 32, "u64": 64, "i64": 64, "usize": 64, "isize": 64, "u128": 128, "i128": 128}


def mentions_inputs(node, fn):
    names = {n["to"]["name"] for n in dependence_nodes(node, fn["hir"]) if n.get("k") == "Path" and n["to"].get("res") == "local"}
    return sorted(names & INPUTS)


def run(ctx):
    F = ctx.facts
    fn = F.fn(GO)
    body = fn["hir"]["body"]
    env = hir.Env(fn["hir"], F)
    sym = hir.Sym(env, F, depth=40)
    # A1
    n_arith = 0
    for n, anc in hir.walk(body):
        k = n.get("k")
        if k in ("Binary", "AssignOp") and n["op"].rstrip("=") in ("+", "-", "*", "/", "%", "<<") and n.get("op") not in ("==", "<=", ">=", "!="):
            ty = n.get("ty") if k == "Binary" else hir.strip(n["l"]).get("ty")
            dep = mentions_inputs(n, fn)
            if not dep:
                continue
            n_arith += 1
            ok = ty not in INT_TYPES
            ctx.check("C13.A1", "raw-integer-arithmetic-on-clock-values:%s" % n["op"], ok, fn=GO, file=fn["file"], line=hir.line(n),
                      what="unchecked integer arithmetic on a value derived from the GUI's clock parameters: for part of the input space it "
                           "wraps (e.g. 2%% of the clock + increment below the latency allowance turns a small budget into ~2^64 ms) or "
                           "panics in debug builds, poisoning the shared state", expected="saturating_*/checked_*/min/max",
                      found={"op": n["op"], "type": ty, "depends on": dep, "expr": hir.fmt(sym(n), 160)})
        if k == "Cast":
            src = hir.strip(n["e"]).get("ty")
            dst = n.get("ty")
            if src in INT_TYPES and dst in INT_TYPES and WIDTH[dst] < WIDTH[src] and mentions_inputs(n, fn):
                n_arith += 1
                ctx.check("C13.A1", "narrowing-cast-on-clock-values", False, fn=GO, file=fn["file"], line=hir.line(n),
                          what="a clock value is truncated by an `as` cast", found={"from": src, "to": dst})
        if k == "MethodCall" and n["name"].startswith(("wrapping_", "unchecked_", "overflowing_")) and mentions_inputs(n, fn):
            n_arith += 1
            ctx.check("C13.A1", "wrapping-arithmetic-on-clock-values:%s" % n["name"], False, fn=GO, file=fn["file"], line=hir.line(n),
                      what="wrapping arithmetic on a clock value", found=hir.fmt(sym(n), 120))
    sat = [n for n, _ in hir.walk(body) if n.get("k") == "MethodCall" and n["name"] in ("saturating_add", "saturating_sub", "saturating_mul", "min")
           and mentions_inputs(n, fn)]
    ctx.floor("C13.A1", "saturating/min operations on clock values", len(sat), 3)
    # A2 / A3 / A4: every value `time` can be given, as cases (conditions on the way, value)
    lets = {}
    for n, anc in hir.walk(body):
        if n.get("k") == "SLet" and n["pat"].get("k") == "PBind" and n.get("init") is not None:
            lets.setdefault(n["pat"]["name"], []).append(n)
    symt = hir.Sym(env, F, depth=40, through=True)
    assign_time = [n for n, _ in hir.walk(body) if n.get("k") == "Assign" and hir.strip(n["l"]).get("to", {}).get("name") == "time"]
    cases = []      # (assign node, guards+conds as [(text, pol)], millis term or None, raw value)
    for a in assign_time:
        g0 = [(hir.fmt(hir.canon(x[1]), 300), x[2]) for x in (hir.guards_of(a, body, sym) or []) if x[0] == "if"]
        glets = [x[1] for x in (hir.guards_of(a, body, sym) or []) if x[0] == "if" and x[2] is True and x[1][0] == "let"]
        try:
            split = hir.lift_ifs(symt(a["r"]))
        except ValueError:
            split = [((), symt(a["r"]))]
        for conds, v in split:
            # drop impossible combinations (the same scrutinee matched against two different patterns)
            seen_m = {}
            consistent = True
            for c, pol in conds:
                if isinstance(c, tuple) and c and c[0] == "matches" and pol:
                    if seen_m.setdefault(c[1], c[2]) != c[2]:
                        consistent = False
            if not consistent:
                continue
            cs = g0 + [(hir.fmt(hir.canon(c), 300), pol) for c, pol in conds if isinstance(c, tuple)]
            ms = None
            if v[0] == "ctor" and str(v[1]).endswith("Some") and v[2][0][0] == "call" and str(v[2][0][1]).endswith("Duration::from_millis"):
                ms = v[2][0][2][0]
            cases.append((a, cs, ms, v, glets))

    def unwrapped(t):
        """inputs named in a term; `x.unwrap()` and a pattern-bound `x` are the same thing here"""
        names = set()
        for s_ in hir.subterms(t):
            if len(s_) == 2 and s_[0] == "var":
                names.add(s_[1])
        return names & INPUTS

    def is_clock(t, clock):
        return t == ("var", clock) or t == ("call", "std::option::Option::<T>::unwrap", (("var", clock),))
    own = {"White": ("wtime", "winc"), "Black": ("btime", "binc")}
    clock_cases = [c for c in cases if c[2] is not None and unwrapped(c[2]) & {"wtime", "btime", "winc", "binc"}]
    fixed_cases = [c for c in cases if c not in clock_cases]
    sides = {}
    for c in clock_cases:
        side = None
        for t, pol in c[1]:
            for S_, O_ in (("White", "Black"), ("Black", "White")):
                for who in ("Game::player(game)", "game.current_player"):
                    if (t == "(%s == Player::%s)" % (who, S_) and pol) or (t == "(%s == Player::%s)" % (who, O_) and not pol) or \
                            (t == "(%s != Player::%s)" % (who, O_) and pol) or (t == "matches(%s, Player::%s)" % (who, S_) and pol):
                        side = S_
        sides.setdefault(side, []).append(c)
    ctx.check("C13.A3", "budget-selected-by-side-to-move", set(sides) == {"White", "Black"} and all(len(v) == 1 for v in sides.values()), fn=GO,
              file=fn["file"], line=hir.line(clock_cases[0][0]) if clock_cases else None,
              what="the clock budget must be chosen by the side to move of the current game: one budget under player == White, one otherwise",
              found={"sides": sorted(str(k) for k in sides), "cases": [(c[1][-2:], hir.fmt(c[3], 80)) for c in clock_cases]})
    clock_assign = clock_cases[0][0] if clock_cases else None
    for side in ("White", "Black"):
        if side not in sides:
            continue
        x = sides[side][0][2]
        clock, inc = own[side]
        ok = x is not None and x[0] == "call" and str(x[1]).endswith("Ord::min") and any(is_clock(y, clock) for y in x[2])
        ctx.check("C13.A2", "budget-clamped-by-own-clock:%s" % side, ok, fn=GO, file=fn["file"], line=hir.line(clock_assign),
                  what="%s's budget is not limited by %s's remaining time: the increment is an independent input, so 2%% of the clock + "
                       "increment can exceed the clock (`go wtime 100 ... winc 5000`)" % (side, side),
                  expected="min(.., %s) as the outermost operation" % clock, found=hir.fmt(x, 300) if x else None)
        names = unwrapped(x) if x is not None else set()
        ctx.check("C13.A3", "budget-uses-own-clock-and-increment-only:%s" % side, names == {clock, inc}, fn=GO, file=fn["file"],
                  line=hir.line(clock_assign), what="%s's budget must be computed from %s and %s" % (side, clock, inc),
                  expected=sorted((clock, inc)), found=sorted(names))
        # share factor <= 1 and latency subtracted, not added
        frac_ok = lat_ok = False
        if x is not None:
            for s_ in hir.subterms(x):
                if len(s_) == 4 and s_[0] == "bin" and s_[1] == "*":
                    for side_t in (s_[2], s_[3]):
                        if side_t[0] == "const":
                            b_ = F.const_bytes(side_t[1])
                            v_ = struct.unpack("<d", b_)[0]
                            frac_ok = 0.0 <= v_ <= 1.0
                        if side_t[0] == "lit":
                            try:
                                frac_ok = 0.0 <= float(side_t[1]) <= 1.0
                            except (TypeError, ValueError):
                                pass
                if len(s_) == 3 and s_[0] == "call" and str(s_[1]).endswith("saturating_sub"):
                    lat_ok = True
        ctx.check("C13.A2", "share-of-clock-at-most-1:%s" % side, frac_ok, fn=GO, file=fn["file"], line=hir.line(clock_assign),
                  what="the fraction of the clock spent per move must be a constant in [0, 1]", found=frac_ok)
    # clock branch requires all four parameters: is_some() tests, or one pattern that binds all four
    four_ok = bool(clock_cases)
    for c in clock_cases:
        gt = " ".join(t for t, pol in c[1] if pol is True).replace("<T>::", "")
        by_test = all(("is_some(%s)" % p_) in gt for p_ in ("wtime", "btime", "winc", "binc"))
        by_pat = False
        for l in c[4]:
            vars_ = {s_[1] for s_ in hir.subterms(l[2]) if len(s_) == 2 and s_[0] == "var"}
            pk_ = l[1]
            if {"wtime", "btime", "winc", "binc"} <= vars_ and isinstance(pk_, tuple) and pk_[0] == "tup" and \
                    all(isinstance(q, tuple) and q[0] == "variant" and str(q[1]).endswith("::Some") for q in pk_[1:]) and len(pk_) == 5:
                by_pat = True
        sep = [sum(1 for l in c[4] if l[1] == ("variant", "std::prelude::v1::Some") and l[2] == ("var", p_)) for p_ in ("wtime", "btime", "winc", "binc")]
        four_ok = four_ok and (by_test or by_pat or all(n_ >= 1 for n_ in sep))
    ctx.check("C13.A3", "clock-branch-needs-all-four-parameters", four_ok, fn=GO, file=fn["file"],
              what="the clock budget is only defined when all four clock parameters were given",
              found=[c[1][:4] for c in clock_cases][:2])
    # A4
    mt = fixed_cases
    ok = len(mt) == 1 and hir.fmt(mt[0][3], 80) == "v1::Some(Duration::from_millis(move_time))"
    g4 = [t for t, pol in mt[0][1] if pol is True] if mt else []
    ctx.check("C13.A4", "fixed-time-is-the-given-value", ok and any("let(v1::Some, move_time" in t for t in g4), fn=GO, file=fn["file"],
              line=hir.line(mt[0][0]) if mt else None, what="`movetime` must be used as given (never extended)",
              expected="time = Some(Duration::from_millis(move_time))", found=[hir.fmt(c[3], 80) for c in mt])
    # later adjustment: only a saturating subtraction of a constant
    adj = [n for n in lets.get("time", []) if hir.strip(n["init"]).get("k") == "MethodCall"]
    ok = False
    if len(adj) == 1:
        t_ = sym(adj[0]["init"])
        # time.saturating_sub(<a constant duration>): the subtrahend mentions no variable
        if t_[0] == "call" and str(t_[1]).endswith("Duration::saturating_sub") and len(t_[2]) == 2 and t_[2][0] == ("var", "time"):
            ok = not any(x[:1] in (("var",), ("field",), ("index",)) for x in hir.subterms(t_[2][1]))
    ctx.check("C13.A4", "only-a-saturating-safety-margin-is-subtracted", ok, fn=GO, file=fn["file"], line=hir.line(adj[0]) if adj else None,
              what="after the budget is chosen it may only be reduced, with saturation", expected="time.saturating_sub(<constant duration>)",
              found=[hir.fmt(sym(a["init"]), 80) for a in adj])
    # A5
    ws, wsym = fmt_writes(fn, F)
    info = [w for w in ws if w[1] and w[1].startswith("info time")]
    ok = len(info) == 1 and bool(info[0][2])
    printed_nf = info[0][2][0][1] if ok else None
    slept_nf = None
    roles = p14.closures_by_role(F)
    slept = None
    if "timer" in roles:
        tfn = roles["timer"]
        # in the parent's HIR the closure body is inlined
        for n, anc in hir.walk(body):
            if n.get("k") == "Closure" and n.get("def") == tfn["path"]:
                for c, _ in hir.walk(n["body"]):
                    if c.get("k") == "Call" and hir.callee_of(c) == "std::thread::sleep":
                        slept = hir.fmt(sym(c["args"][0]), 80)
                        slept_nf = sym(c["args"][0])
    # both must refer to the adjusted `time` binding: same innermost let
    same_scope = False
    if info and adj:
        for n, anc in hir.walk(body):
            if n is info[0][0]:
                blk = [a for a in anc if a.get("k") == "Block" and not a.get("mac")][-1]
                same_scope = any(st is adj[0] for st in blk.get("stmts") or [])
    same_value = printed_nf is not None and slept_nf is not None and printed_nf == ("call", "std::time::Duration::as_millis", (slept_nf,))
    adjusted = slept_nf is not None and slept_nf[0] == "call" and str(slept_nf[1]).endswith("Duration::saturating_sub")
    ctx.check("C13.A5", "announced-budget-is-the-enforced-budget", ok and same_value and adjusted and same_scope, fn=GO, file=fn["file"],
              line=hir.line(info[0][0]) if info else None,
              what="the value printed as `info time`, the value the timer sleeps on must be the same adjusted budget",
              found={"printed": hir.fmt(info[0][2][0][1], 60) if info and info[0][2] else None, "slept": slept, "same scope": same_scope})
    # no timer when infinite
    spawn_g = []
    for n, anc in hir.walk(body):
        if n.get("k") == "Closure" and "timer" in roles and n.get("def") == roles["timer"]["path"]:
            spawn_g = [(hir.fmt(x[1], 60), x[2]) for x in (hir.guards_of(n, body, sym) or []) if x[0] == "if"]
    ctx.check("C13.A5", "timer-armed-iff-budget-and-not-infinite", ("infinite", False) in spawn_g and any(t.startswith("let(v1::Some, time") for t, p in spawn_g),
              fn=GO, file=fn["file"], what="the timer must be armed exactly when a budget exists and `infinite` was not given", found=spawn_g)
    # A6: the budget is *enforced*: the flag the timer clears is observed at every interior node and an abort unwinds at once
    from . import p07
    before, nv = len(ctx.instances), len(ctx.violations)
    p07.q1(ctx, F)
    p07.q2(ctx, F)
    for i in ctx.instances[before:]:
        i["rule"] = "C13.A6(" + i["rule"] + ")"
    for v in ctx.violations[nv:]:
        v["rule"] = "C13.A6(" + v["rule"] + ")"
        v["key"] = "C13.A6|" + v["key"]
    ctx.assume("wall-clock behaviour (sleep overshoot, scheduling of the search thread) is outside a static decision")
