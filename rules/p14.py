"""C14 - each `go` gets exactly one `bestmove`; the session never wedges or dies.

Decides the ordering / pairing conditions the property's quantifier names (dominance and path facts on MIR):
 O1 exactly one `bestmove` announcement on every path of the search thread; nobody else prints `bestmove`;
 O2 the running flag is cleared before `bestmove` is printed (a GUI's reply must not be refused);
 O3 the flag is raised before the timer thread exists (a short timer must not be overwritten by the raise);
 O4 no JoinHandle::join while a MutexGuard<Data> is live (the search thread holds the lock for the whole search);
 O5 `isready` is answered unconditionally and reaches neither a lock nor a join;
 O6 one search thread per accepted `go`; no error return after the flag was raised;
 O7 a single mutex type is ever locked (no lock-order cycle).
Does NOT explore interleavings.
"""
from . import core, hir, mir
from .common import fmt_writes

LEVEL = "other"
EXPLANATION = ("Dominance and path queries on the MIR CFGs of uci::command_go, its two thread closures and uci::uci_talk: "
               "positions of atomic stores, thread spawns, prints and joins; may-liveness of MutexGuard locals at joins; "
               "call-graph reachability of Mutex::lock / JoinHandle::join from the isready handler.")
GO = "uci::command_go"
TALK = "uci::uci_talk"


def closures_by_role(F):
    roles = {}
    for fn in F.closures_of(GO):
        cs = {mir.callee(t) for _, t in mir.Cfg(fn).calls()}
        if "search::get_best_move_until_stop" in cs:
            roles["search"] = fn
        elif "std::thread::sleep" in cs:
            roles["timer"] = fn
    return roles


def stores(cfg):
    """[(block, bool value, receiver root local)] for AtomicBool::store calls."""
    out = []
    defs = mir.copy_sources(cfg.fn)
    for b, t in cfg.calls(lambda c, t: c.endswith("Atomic::<bool>::store") or c.endswith("AtomicBool::store")):
        v = (t["args"][1].get("c") or {}).get("int")
        r = None
        a0 = t["args"][0]
        if a0.get("k") in ("copy", "move"):
            r, steps = mir.root_of(a0["place"]["l"], defs)
            # through Arc deref: `&*arc` is a call to Deref::deref
            ds = defs.get(r)
            hops = 0
            while ds and len(ds) == 1 and ds[0].get("k") == "CallResult" and ds[0]["callee"].endswith("deref") and hops < 4:
                a = ds[0]["args"][0]
                if a.get("k") not in ("copy", "move"):
                    break
                r, steps = mir.root_of(a["place"]["l"], defs)
                ds = defs.get(r)
                hops += 1
        out.append((b, v, r, t))
    return out


def spawn_sites(cfg):
    """[(block, closure def path, terminator)]"""
    out = []
    defs = mir.copy_sources(cfg.fn)
    for b, t in cfg.calls(lambda c, t: c == "std::thread::spawn"):
        a0 = t["args"][0]
        clo = None
        if a0.get("k") in ("copy", "move"):
            r, _ = mir.root_of(a0["place"]["l"], defs)
            for rv in defs.get(r, []):
                if rv.get("k") == "Aggregate" and rv.get("ak") == "Closure":
                    clo = rv["closure"]
        out.append((b, clo, t))
    return out


def print_sites(fn, F):
    """MIR blocks of `println!` sites whose template starts with a given text: {block: text}."""
    ws, _ = fmt_writes(fn, F)
    by_line = {}
    for n, text, args, g in ws:
        by_line.setdefault(hir.line(n), []).append(text or "")
    cfg = mir.Cfg(fn)
    out = {}
    for b, t in cfg.calls(lambda c, t: c.endswith("io::_print")):
        ln = mir.span_line(t)
        texts = by_line.get(ln, [])
        out[b] = texts[0] if texts else ""
    return cfg, out


def run(ctx):
    F = ctx.facts
    roles = closures_by_role(F)
    for r in ("search", "timer"):
        if r not in roles:
            ctx.anchor_missing("C14.O1", "%s thread closure in command_go" % r)
            return
    o1_o2(ctx, F, roles["search"])
    o3_o6(ctx, F, roles)
    o4(ctx, F)
    o5(ctx, F)
    o6b(ctx, F)
    o8(ctx, F, roles["search"])
    o7(ctx, F)
    o11(ctx, F)
    o13(ctx, F)
    o14(ctx, F)
    # `stop` ends the search: the flag it clears is the flag every level of the search looks at (C07.Q7)
    from . import p07
    before, nv = len(ctx.instances), len(ctx.violations)
    p07.flag_identity(ctx, F)
    for i in ctx.instances[before:]:
        i["rule"] = "C14.O12(" + i["rule"] + ")"
    for v in ctx.violations[nv:]:
        v["rule"] = "C14.O12(" + v["rule"] + ")"
        v["key"] = "C14.O12|" + v["key"]
    # "exactly one bestmove ... at the depth limit", "neither panics nor deadlocks": the search a `go` starts must end by itself
    # at its limit and its driver must not panic or spin - the driver rules of C08 are necessary conditions here
    from . import p08
    before, nv = len(ctx.instances), len(ctx.violations)
    p08.run(ctx)
    for i in ctx.instances[before:]:
        i["rule"] = "C14.O9(" + i["rule"] + ")"
    for v in ctx.violations[nv:]:
        v["rule"] = "C14.O9(" + v["rule"] + ")"
        v["key"] = "C14.O9|" + v["key"]
    # a `go` whose clock arithmetic panics (or wraps into a budget of centuries) gets no bestmove: the arithmetic discipline of C13
    from . import p13, hir as _hir
    before, nv = len(ctx.instances), len(ctx.violations)
    gfn = F.fn(p13.GO)
    p13.a1(ctx, F, gfn, gfn["hir"]["body"], _hir.Sym(_hir.Env(gfn["hir"], F), F, depth=40))
    for i in ctx.instances[before:]:
        i["rule"] = "C14.O10(" + i["rule"] + ")"
    for v in ctx.violations[nv:]:
        v["rule"] = "C14.O10(" + v["rule"] + ")"
        v["key"] = "C14.O10|" + v["key"]


def count_paths(cfg, hits):
    """(min, max) number of blocks in `hits` on any path entry -> Return (max = None if a hit lies on a cycle)."""
    import functools
    import sys
    sys.setrecursionlimit(10000)
    rets = set(cfg.returns())
    INF = 10 ** 6
    # cycle check restricted to nodes that can reach a return
    color = {}
    on_cycle_hit = [False]
    memo_min, memo_max = {}, {}

    def dfs(b):
        if b in memo_min:
            return memo_min[b], memo_max[b]
        if color.get(b) == 1:
            return None
        color[b] = 1
        h = 1 if b in hits else 0
        if b in rets:
            res = (h, h)
        else:
            mins, maxs = [], []
            for s in cfg.succ[b]:
                r = dfs(s)
                if r is None:
                    # back edge: a loop; a hit inside a loop means unbounded repetitions
                    continue
                if r[0] is not None:
                    mins.append(r[0])
                    maxs.append(r[1])
            if not mins:
                res = (None, None)
            else:
                res = (h + min(mins), h + max(maxs))
        color[b] = 2
        memo_min[b], memo_max[b] = res
        return res
    r = dfs(0)
    # hits inside loops
    loop_hit = False
    for h in hits:
        if h in cfg.reach_from_succs(h):
            loop_hit = True
    return r, loop_hit


def o1_o2(ctx, F, sfn):
    cfg, prints = print_sites(sfn, F)
    best = {b for b, t in prints.items() if t.startswith("bestmove")}
    (mn, mx), loop_hit = count_paths(cfg, best)
    ctx.check("C14.O1", "exactly-one-bestmove-per-search", mn == 1 and mx == 1 and not loop_hit, fn=sfn["path"], file=sfn["file"],
              line=sfn["span"][0], what="every path through the search thread must print `bestmove` exactly once "
                                        "(none: the GUI waits forever; two: the GUI plays a move twice / desynchronises)",
              expected="min = max = 1", found={"min": mn, "max": mx, "sites": len(best), "in_loop": loop_hit})
    # nobody else prints bestmove
    others = []
    for path, fn in F.fns.items():
        if fn.get("kind") == "Closure" or path == sfn["path"] or not fn.get("hir"):
            continue
        ws, _ = fmt_writes(fn, F)
        for n, text, args, g in ws:
            if text and text.startswith("bestmove"):
                # closures are inlined in their parent's HIR: skip the search closure's own lines
                if not (sfn["span"][0] <= hir.line(n) <= sfn["span"][2] and fn["file"] == sfn["file"]):
                    others.append((path, hir.line(n)))
    ctx.check("C14.O1", "no-other-bestmove-printer", not others, fn=sfn["path"], file=sfn["file"],
              what="`bestmove` is printed somewhere else too", found=others)
    # O2
    st = [s for s in stores(cfg) if s[1] == 0]
    ok = bool(st) and all(any(cfg.dominates(s[0], b) for s in st) for b in best) and bool(best)
    ctx.check("C14.O2", "flag-cleared-before-bestmove", ok, fn=sfn["path"], file=sfn["file"],
              line=cfg.line_of_block(sorted(best)[0]) if best else sfn["span"][0],
              what="`bestmove` is announced while search_is_running is still true: a GUI that answers at once gets "
                   "`error: search is still running` for its next position/go",
              expected="store(false) dominates every bestmove print", found={"stores(false)": [mir.span_line(s[3]) for s in st],
                                                                            "prints": sorted(cfg.line_of_block(b) for b in best)})
    # the flag cleared is the one the search polls
    calls = cfg.calls(lambda c, t: c == "search::get_best_move_until_stop")
    same = False
    if calls and st:
        defs = mir.copy_sources(sfn)
        a = calls[0][1]["args"][2]
        if a.get("k") in ("copy", "move"):
            r, _ = mir.root_of(a["place"]["l"], defs)
            ds = defs.get(r)
            hops = 0
            while ds and len(ds) == 1 and ds[0].get("k") == "CallResult" and ds[0]["callee"].endswith("deref") and hops < 4:
                x = ds[0]["args"][0]
                r, _ = mir.root_of(x["place"]["l"], defs)
                ds = defs.get(r)
                hops += 1
            same = any(s[2] == r for s in st)
    ctx.check("C14.O2", "cleared-flag-is-the-polled-flag", same, fn=sfn["path"], file=sfn["file"],
              what="the flag cleared at the end of the search must be the one handed to the search", found=same)


def flag_raised_only_by_go(ctx, F, rule):
    """Who may raise a running flag: `command_go` (before its threads exist) and nobody else.  A `store(true)` anywhere else - in
    the search thread, in a guard object, in the driver - can come after the timer's or `stop`'s `store(false)` and overwrite it:
    the search is then never stopped.  Any value that is not the literal `false` counts as a possible raise."""
    sites = []
    for p, fn in sorted(F.fns.items()):
        if not fn.get("mir"):
            continue
        for b, v, r, t in stores(mir.Cfg(fn)):
            if v != 0:
                sites.append((p, mir.span_line(t), v))
    bad = [x for x in sites if x[0] != GO]
    ctx.check(rule, "flag-raised-only-by-command_go", not bad and any(x[0] == GO for x in sites), fn=bad[0][0] if bad else GO,
              file=F.fns[bad[0][0]]["file"] if bad else F.fn(GO)["file"], line=bad[0][1] if bad else None,
              what="a running flag is set to true outside command_go: a `stop` or the timer's clear that came first is overwritten and "
                   "nobody ever stops the search (thinking time exceeded, no bestmove)",
              expected="store(true) only in uci::command_go, before the timer and search threads exist", found=sites)


def o3_o6(ctx, F, roles):
    fn = F.fn(GO)
    cfg = mir.Cfg(fn)
    sp = spawn_sites(cfg)
    timer = [s for s in sp if s[1] == roles["timer"]["path"]]
    search = [s for s in sp if s[1] == roles["search"]["path"]]
    raises = [s for s in stores(cfg) if s[1] == 1]
    ok = bool(raises) and bool(timer) and all(any(cfg.dominates(r[0], t[0]) for r in raises) for t in timer)
    ctx.check("C14.O3", "flag-raised-before-timer-thread-exists", ok, fn=GO, file=fn["file"],
              line=mir.span_line(timer[0][2]) if timer else fn["span"][0],
              what="the timer thread is spawned before search_is_running is raised: with a budget of a few ms its store(false) "
                   "can come first, the later store(true) wins and nobody ever stops the search (no bestmove, session wedged)",
              expected="store(true) dominates thread::spawn(timer closure)",
              found={"store(true) lines": [mir.span_line(r[3]) for r in raises], "timer spawn lines": [mir.span_line(t[2]) for t in timer]})
    flag_raised_only_by_go(ctx, F, "C14.O3")
    ok2 = bool(raises) and bool(search) and all(any(cfg.dominates(r[0], t[0]) for r in raises) for t in search)
    ctx.check("C14.O3", "flag-raised-before-search-thread-exists", ok2, fn=GO, file=fn["file"],
              what="the flag must be raised before the search thread can clear it", found=ok2)
    # timer clears a clone of the same Arc the search polls
    tcfg = mir.Cfg(roles["timer"])
    tst = [s for s in stores(tcfg) if s[1] == 0]
    sleep = tcfg.calls(lambda c, t: c == "std::thread::sleep")
    ok = len(tst) == 1 and len(sleep) == 1 and tcfg.dominates(sleep[0][0], tst[0][0])
    ctx.check("C14.O3", "timer-sleeps-then-clears-the-flag", ok, fn=roles["timer"]["path"], file=fn["file"],
              what="the timer thread must sleep for the budget and then clear the running flag", found={"stores": len(tst), "sleeps": len(sleep)})
    # captured flag of both closures is a clone of the parameter (MIR: the Arc<AtomicBool> operand of each closure
    # aggregate is the result of Arc::clone on something rooted in the parameter)
    defs = mir.copy_sources(fn)
    m = fn["mir"]
    flag_params = [i for i in range(1, m["arg_count"] + 1) if "Arc<std::sync::atomic::Atomic" in m["locals"][i]["ty"] or "AtomicBool" in m["locals"][i]["ty"]]
    caps = []
    for blk in m["blocks"]:
        for st in blk["stmts"]:
            rv = st.get("rv") or {}
            if st["k"] == "Assign" and rv.get("k") == "Aggregate" and rv.get("ak") == "Closure" and \
                    rv.get("closure") in (roles["timer"]["path"], roles["search"]["path"]):
                for o in rv["ops"]:
                    if o.get("k") in ("copy", "move") and ("Atomic<bool>" in o["place"].get("ty", "") or "AtomicBool" in o["place"].get("ty", "")):
                        r, _ = mir.root_of(o["place"]["l"], defs)
                        ds = defs.get(r) or []
                        src = None
                        if len(ds) == 1 and ds[0].get("k") == "CallResult" and ds[0]["callee"].endswith("clone") and ds[0]["args"] and \
                                ds[0]["args"][0].get("k") in ("copy", "move"):
                            r2, _ = mir.root_of(ds[0]["args"][0]["place"]["l"], defs)
                            src = r2
                        caps.append((rv["closure"].split("::")[-1], "clone of parameter" if src in flag_params else "other: local _%s" % (src if src is not None else r)))
    ok = len(caps) == 2 and all(c[1] == "clone of parameter" for c in caps) and len({c[0] for c in caps}) == 2
    ctx.check("C14.O3", "both-threads-share-the-command's-flag", ok, fn=GO, file=fn["file"],
              what="timer and search thread must each capture a clone of the Arc<AtomicBool> created for this `go`", found=caps)
    # O6
    ctx.check("C14.O6", "one-search-thread-per-go", len(search) == 1 and not (search[0][0] in cfg.reach_from_succs(search[0][0])),
              fn=GO, file=fn["file"], what="command_go must spawn exactly one search thread", found=len(search))
    ctx.check("C14.O6", "at-most-one-timer-thread-per-go", len(timer) == 1 and not (timer[0][0] in cfg.reach_from_succs(timer[0][0])),
              fn=GO, file=fn["file"], what="command_go must arm at most one timer", found=len(timer))
    # after the raise no error return: every return reachable from the raise passes the search spawn
    if raises and search:
        rb = raises[0][0]
        ok = cfg.must_pass(rb, set(cfg.returns()), lambda b: b == search[0][0])
        ctx.check("C14.O6", "no-exit-between-raise-and-search-spawn", ok, fn=GO, file=fn["file"],
                  what="once search_is_running is raised the search thread must be started on every path (otherwise every later "
                       "command is refused with 'search is still running')", found=ok)
    # uci_talk stores the handle on Ok and prints the error on Err
    talk = F.fn(TALK)
    tenv = hir.Env(talk["hir"], F)
    tsym = hir.Sym(tenv, F)
    ok = False
    for c, anc in hir.calls(talk["hir"]["body"], "uci::command_go"):
        for a in reversed(anc):
            if a.get("k") == "Match" and a.get("src") == "Normal":
                arms = {}
                for arm in a["arms"]:
                    pk = hir.pat_key(arm["pat"])
                    arms[pk[1].split("::")[-1] if isinstance(pk, tuple) else pk] = arm
                if "Ok" in arms and "Err" in arms:
                    okb = hir.strip(arms["Ok"]["body"])
                    ok = okb.get("k") == "Assign" and hir.strip(okb["l"]).get("to", {}).get("name") == "search_thread" and \
                        hir.fmt(tsym(okb["r"]), 60).startswith("v1::Some(")
                break
    ctx.check("C14.O6", "handle-of-the-search-thread-is-kept", ok, fn=TALK, file=talk["file"],
              what="the JoinHandle returned by command_go must be stored so that stop/wait can join it", found=ok)
    # a fresh flag per go
    fresh = False
    for n, anc in hir.walk(talk["hir"]["body"]):
        if n.get("k") == "Assign" and hir.strip(n["l"]).get("to", {}).get("name") == "search_is_running":
            r = tsym(n["r"])
            fresh = r[0] == "call" and str(r[1]).endswith("Arc::<T>::new") and r[2][0][0] == "call" and \
                str(r[2][0][1]).endswith("::new") and r[2][0][2] == (("lit", False),)
            # in the arm that handles `go`: the innermost match arm around the assignment also contains the call of command_go
            same_arm = False
            for a_ in reversed(anc):
                if a_.get("k") == "Match" and a_.get("src") == "Normal":
                    for arm_ in a_["arms"]:
                        if any(x is n for x, _ in hir.walk(arm_["body"])):
                            same_arm = any(x.get("k") == "Call" and hir.callee_of(x) == "uci::command_go" for x, _ in hir.walk(arm_["body"]))
                    break
            fresh = fresh and same_arm
    ctx.check("C14.O6", "fresh-flag-per-go", fresh, fn=TALK, file=talk["file"],
              what="each `go` must get its own flag so that a stale timer of an earlier search cannot stop the new one", found=fresh)


def o4(ctx, F):
    fn = F.fn(TALK)
    cfg = mir.Cfg(fn)
    guards = {i for i, l in enumerate(cfg.locals) if l["ty"].startswith("std::sync::MutexGuard<")}
    # forward may-liveness of guard locals: live from the call that defines them to their Drop / StorageDead
    defs = mir.copy_sources(fn)
    live_in = {0: frozenset()}
    work = [0]
    joins = []
    while work:
        b = work.pop()
        cur = set(live_in[b])
        blk = cfg.blocks[b]
        for s in blk["stmts"]:
            if s["k"] == "StorageDead" and s["l"] in cur:
                cur.discard(s["l"])
            if s["k"] == "Assign" and not s["place"].get("p") and s["place"]["l"] in guards:
                cur.add(s["place"]["l"])
        t = blk["term"]
        if t["k"] == "Call":
            c = mir.callee(t)
            if c.endswith("JoinHandle::<T>::join") or c.endswith("JoinHandle<T>::join"):
                joins.append((b, frozenset(cur), t))
            d = t.get("dest")
            if d and not d.get("p") and d["l"] in guards:
                cur.add(d["l"])
        if t["k"] == "Drop" and not t["place"].get("p") and t["place"]["l"] in cur:
            cur.discard(t["place"]["l"])
        out = frozenset(cur)
        for s in cfg.succ[b]:
            if s not in live_in:
                live_in[s] = out
                work.append(s)
            elif not out <= live_in[s]:
                live_in[s] = live_in[s] | out
                work.append(s)
    ctx.floor("C14.O4", "join sites in uci_talk", len(joins), 3)
    for b, live, t in joins:
        ctx.check("C14.O4", "no-join-under-the-data-lock:line-independent-%d" % joins.index((b, live, t)), not live, fn=TALK, file=fn["file"],
                  line=mir.span_line(t),
                  what="a search thread is joined while the stdin thread holds the Data mutex: the search thread needs that mutex "
                       "for its whole search, so both block forever",
                  expected="no MutexGuard<Data> live at JoinHandle::join", found=sorted(cfg.local_name(g) or "_%d" % g for g in live))
    # stop: flag cleared before the join
    body = fn["hir"]["body"]
    env = hir.Env(fn["hir"], F)
    sym = hir.Sym(env, F)
    for n, anc in hir.walk(body):
        if n.get("k") == "Match" and n.get("src") == "Normal":
            for a in n["arms"]:
                pk = hir.pat_key(a["pat"])
                if pk == ("lit", "stop"):
                    seq = []
                    for c, _ in hir.walk(a["body"]):
                        if c.get("k") == "MethodCall" and c["name"] == "store":
                            seq.append("store(%s)" % hir.fmt(sym(c["args"][0]), 10))
                        if c.get("k") == "MethodCall" and c["name"] == "join":
                            seq.append("join")
                    ok = "store(False)" in seq and "join" in seq and seq.index("store(False)") < seq.index("join")
                    uncond = not [x for x in (hir.guards_of([c for c, _ in hir.walk(a["body"]) if c.get("k") == "MethodCall" and c["name"] == "store"][0], a["body"], sym) or []) if x[0] == "if"] if "store(False)" in seq else False
                    ctx.check("C14.O4", "stop:clears-flag-then-joins", ok and uncond, fn=TALK, file=fn["file"], line=hir.line(a["body"]),
                              what="`stop` must clear the running flag (unconditionally) before it waits for the search thread",
                              expected=["store(False)", "join"], found=seq)


def command_arm(F, cmd, expand=()):
    """(uci_talk with the given anchored handlers expanded, the body of the match arm for the command text `cmd`, Sym) - the
    handler may be a function or written in the arm itself"""
    from . import inline
    fn = inline.expand_known(F, TALK, list(expand))
    sym = hir.Sym(hir.Env(fn["hir"], F), F)
    for n, anc in hir.walk(fn["hir"]["body"]):
        if n.get("k") == "Match" and n.get("src") == "Normal":
            for a in n["arms"]:
                pk = hir.pat_key(a["pat"])
                if pk == ("lit", cmd) or (isinstance(pk, tuple) and pk and pk[0] == "or" and ("lit", cmd) in pk):
                    return fn, a["body"], sym
    # the command text may first be mapped to a variant of a command enum (anywhere in the crate), on which the loop then matches
    variant = None
    for g in F.fns.values():
        if not g.get("hir") or g.get("kind") == "Closure":
            continue
        gsym = None
        for n, anc in hir.walk(g["hir"]["body"]):
            if n.get("k") == "Match" and n.get("src") == "Normal":
                for a in n["arms"]:
                    pk = hir.pat_key(a["pat"])
                    if pk == ("lit", cmd) or (isinstance(pk, tuple) and pk and pk[0] == "or" and ("lit", cmd) in pk):
                        gsym = gsym or hir.Sym(hir.Env(g["hir"], F), F)
                        v = gsym(a["body"])
                        if v[0] == "ctor" and str(v[1]).endswith(("::Some", "::Ok")) and len(v[2]) == 1:
                            v = v[2][0]
                        if v[0] == "variant" and not str(v[1]).startswith("std::"):
                            variant = v
    if variant is not None:
        for n, anc in hir.walk(fn["hir"]["body"]):
            if n.get("k") == "Match" and n.get("src") == "Normal":
                for a in n["arms"]:
                    pk = hir.pat_key(a["pat"])
                    if isinstance(pk, tuple) and (tuple(pk) == variant or (pk and pk[0] == "or" and variant in [tuple(x) for x in pk[1:] if isinstance(x, tuple)])):
                        return fn, a["body"], sym
    return fn, None, sym


def o5(ctx, F):
    fn, arm, sym = command_arm(F, "isready", ["uci::command_isready"])
    ok = False
    callees = []
    if arm is not None:
        conds = [c for c, _ in hir.walk(arm) if c.get("k") in ("If", "Match", "Loop") and not c.get("mac")]
        callees = sorted({hir.callee_of(c) for c, _ in hir.walk(arm) if c.get("k") in ("Call", "MethodCall") and not c.get("mac") and hir.callee_of(c)})
        ok = not conds
    ctx.check("C14.O5", "isready-answered-unconditionally", ok, fn=TALK, file=fn["file"],
              what="`isready` must be answered without looking at the search state or taking the lock", found={"arm found": arm is not None, "calls": callees})
    g = mir.callgraph(F)
    r = set()
    for c in callees:
        r.add(c)
        r |= mir.reachable_fns(g, c)
    bad = sorted(c for c in r if "Mutex" in c and "lock" in c or c.endswith("::join") or "thread::sleep" in c or "stdin" in c or "Atomic" in c)
    ctx.check("C14.O5", "isready-reaches-no-lock-or-join", not bad, fn=TALK, file=fn["file"],
              what="the isready handler can block (or looks at the search state)", found=bad)
    ws, _ = fmt_writes(fn, F)
    mine = [w for w in ws if arm is not None and any(x is w[0] for x, _ in hir.walk(arm))]
    ctx.check("C14.O5", "isready-prints-readyok", any(w[1] and w[1].startswith("readyok") for w in mine), fn=TALK,
              file=fn["file"], what="isready must answer `readyok`", found=[w[1] for w in mine])


def o7(ctx, F):
    locks = set()
    sites = []
    panics = []
    for path, fn in F.fns.items():
        if not fn.get("mir"):
            continue
        for b in fn["mir"]["blocks"]:
            t = b["term"]
            if t["k"] == "Call":
                c = mir.callee(t)
                if c.endswith("Mutex::<T>::lock"):
                    locks.add(t.get("callee_generic"))
                    sites.append((path, mir.span_line(t)))
    ctx.check("C14.O7", "single-mutex-type", len(locks) == 1, fn=GO, file="src/uci.rs",
              what="more than one mutex is locked in the crate: lock ordering would have to be analysed", found=sorted(locks))
    ctx.floor("C14.O7", "lock sites", len(sites), 5)
    # the search thread holds the lock from its first statement: any other holder must release before join (O4);
    # list the panic-propagation edges (lock().unwrap(), join().unwrap()) for the record
    ctx.note("panic-propagation edges: every lock().unwrap()/join().unwrap() site panics only if the search thread panicked; "
             "those panics are the obligations of C08/C13/C15 (%d lock sites)" % len(sites))


def o11(ctx, F):
    """O11 the command loop is not left through an error while idle: a `?` in uci_talk's loop whose operand is the handle of the search
    thread (`search_thread.context(..)?` - an error when there is none) stands under "a search is running" - otherwise the
    first `ucinewgame` / `stop` of a session ends the engine."""
    fn = F.fn(TALK)
    body = fn["hir"]["body"]
    sym = hir.Sym(hir.Env(fn["hir"], F), F)
    n = 0
    for m, anc in hir.walk(body):
        if m.get("k") == "Match" and str(m.get("src", "")).startswith("TryDesugar") and any(a_.get("k") == "Loop" for a_ in anc):
            if "search_thread" not in hir.fmt(sym(m["e"]), 300):
                continue
            n += 1
            g = hir.guards_of(m, body, sym) or []
            running = any(x[0] == "if" and x[2] is True and "load(search_is_running" in hir.fmt(x[1], 200).replace("std::sync::atomic::Atomic::", "").replace("<bool>::", "")
                          for x in g)
            ctx.check("C14.O11", "thread-handle-demanded-only-while-searching", running, fn=TALK, file=fn["file"], line=hir.line(m),
                      what="the command loop returns an error when there is no search thread, on a path that is taken while no search is "
                           "running: the session ends at the first such command", expected="under `if search_is_running.load(..)`",
                      found=[(hir.fmt(x[1], 80), x[2]) for x in g if x[0] == "if"][-3:])


def o13(ctx, F):
    """O13 "no search is flagged" does not mean "no search thread": the timer lowers the flag too, possibly before the search thread
    has even taken the session state.  A command that touches that state on the strength of the lowered flag (`ucinewgame`,
    `position`, `go`, `show`) therefore first reaps the previous search thread - a `join` of the stored handle that is not itself
    under the "a search is running" test, before the state is locked."""
    fn = F.fn(TALK)
    body = fn["hir"]["body"]
    sym = hir.Sym(hir.Env(fn["hir"], F), F)
    targets = {"ucinewgame": "uci::command_ucinewgame", "position": "uci::command_position", "go": "uci::command_go", "show": "uci::command_show"}
    arm_of = {}
    for m, _ in hir.walk(body):
        if m.get("k") == "Match" and m.get("src") == "Normal":
            for a_ in m["arms"]:
                for cmd, callee in targets.items():
                    if hir.calls(a_["body"], callee):
                        arm_of.setdefault(cmd, a_["body"])     # the outermost arm: the command's own (walk is pre-order)
    n = 0
    for cmd, callee in sorted(targets.items()):
        arm = arm_of.get(cmd)
        if arm is None:
            continue
        n += 1
        call = hir.calls(arm, callee)[0][0]
        ok = False
        for j, anc in hir.walk(arm):
            if j.get("k") == "MethodCall" and j.get("name") == "join" and hir.order_key(j) < hir.order_key(call):
                g = hir.guards_of(j, arm, sym) or []
                under_flag = any(x[0] == "if" and x[2] is True and "load(search_is_running" in
                                 hir.fmt(x[1], 200).replace("std::sync::atomic::Atomic::", "").replace("<bool>::", "") for x in g)
                refused = any(x[0] == "if" and x[2] is True and "load(search_is_running" in
                              hir.fmt(x[1], 200).replace("std::sync::atomic::Atomic::", "").replace("<bool>::", "")
                              for x in (hir.guards_of(call, arm, sym) or []))
                if not under_flag and not refused:
                    ok = True
        ctx.check("C14.O13", "previous-search-thread-reaped-before-the-state-is-touched:%s" % cmd, ok, fn=TALK, file=fn["file"], line=hir.line(call),
                  what="`%s` relies on the lowered flag alone: the timer of a tiny budget lowers it before the search thread has taken the "
                       "session state, so this command can take the state first (`go movetime 1`, `ucinewgame`: the search thread then "
                       "unwraps a game that is gone, panics and poisons the mutex)" % cmd,
                  expected="if let Some(t) = search_thread.take() { t.join() } outside the running test, before the lock", found=ok)
    ctx.floor("C14.O13", "commands that touch the session state", n, 3)


def _running_test(x):
    return x[0] == "if" and x[2] is True and "load(search_is_running" in hir.fmt(x[1], 200).replace("std::sync::atomic::Atomic::", "").replace("<bool>::", "")


def o14(ctx, F):
    """O14 the command loop only waits for a search it has told to stop, and never lets go of one it has not waited for: (a) a
    `join` on a path taken *while a search is flagged as running* is preceded on that path by lowering the flag (else `go infinite`,
    `ucinewgame` blocks the command loop for good - `stop` is never read); (b) a thread handle taken out of the loop's slot is
    joined or stored again, never bound and dropped (a dropped handle detaches the search thread: the command goes on to lock the
    session state while that thread may not yet have taken it - the race of O13 again)."""
    fn = F.fn(TALK)
    body = fn["hir"]["body"]
    sym = hir.Sym(hir.Env(fn["hir"], F), F)
    n_j = 0
    for j, anc in hir.walk(body):
        if j.get("k") == "MethodCall" and j.get("name") == "join" and "JoinHandle" in str(j["recv"].get("ty", "")):
            g = hir.guards_of(j, body, sym) or []
            if not any(_running_test(x) for x in g):
                continue
            n_j += 1
            # the innermost block under the running test that holds the join: a store(false) on the flag earlier in it
            ifs = [a_ for a_ in anc if a_.get("k") == "If" and "load(search_is_running" in
                   hir.fmt(sym(a_["cond"]), 200).replace("std::sync::atomic::Atomic::", "").replace("<bool>::", "")]
            scope = ifs[-1]["then"] if ifs else body
            lowered = [c for c, _ in hir.walk(scope) if c.get("k") == "MethodCall" and c.get("name") == "store" and
                       "search_is_running" in hir.fmt(sym(c["recv"]), 80) and sym(c["args"][0]) == ("lit", False) and hir.order_key(c) < hir.order_key(j)
                       and not [x for x in (hir.guards_of(c, scope, sym) or []) if x[0] == "if"]]
            ctx.check("C14.O14", "search-told-to-stop-before-it-is-waited-for", bool(lowered), fn=TALK, file=fn["file"], line=hir.line(j),
                      what="the command loop waits for a running search without telling it to stop: with an unlimited search the loop "
                           "blocks for good and no further command is read", expected="search_is_running.store(false) before the join",
                      found=[hir.fmt(sym(c["args"][0]), 10) for c, _ in hir.walk(scope) if c.get("k") == "MethodCall" and c.get("name") == "store"])
    # (b) every binding of a thread handle is used (joined, stored, returned)
    binds = {}
    def pats(n):
        if isinstance(n, dict):
            if n.get("k") == "PBind" and str(n.get("ty", "")).startswith("std::thread::JoinHandle<"):
                binds[n["id"]] = n
            for v in n.values():
                pats(v)
        elif isinstance(n, list):
            for v in n:
                pats(v)
    pats(fn["hir"])
    used = set()
    for n, anc in hir.walk(body):
        if n.get("k") == "Path" and (n.get("to") or {}).get("res") == "local" and n["to"].get("id") in binds:
            par = anc[-1] if anc else {}
            if (par.get("k") == "MethodCall" and par.get("name") == "join" and par.get("recv") is n) \
                    or (par.get("k") == "Call" and str(hir.callee_of(par) or "").endswith("::Some")) \
                    or par.get("k") in ("Match", "Arm", "Block", "Ret", "Assign", "Struct", "Tuple", "SLet"):      # joined, kept, or handed on as a value
                used.add(n["to"]["id"])
    for i_, b_ in sorted(binds.items()):
        if str(b_.get("name", "")).startswith("_"):
            continue
        ctx.check("C14.O14", "thread-handle-joined-or-kept:%s" % b_.get("name"), i_ in used, fn=TALK, file=fn["file"],
                  what="a search thread's handle is taken out of the loop's slot and dropped: the thread is detached and the command "
                       "goes on to the session state without waiting for it", expected="thread.join() / search_thread = Some(thread)",
                  found="bound, neither joined nor kept")
    ctx.floor("C14.O14", "thread handle bindings in the command loop", len(binds), 4)


def o6b(ctx, F):
    """position / go / show are refused while a search runs (the search owns the game and the table)."""
    fn = F.fn(TALK)
    body = fn["hir"]["body"]
    sym = hir.Sym(hir.Env(fn["hir"], F), F)
    for cmd, callee in (("position", "uci::command_position"), ("go", "uci::command_go"), ("show", "uci::command_show")):
        sites = hir.calls(body, callee)
        ok = len(sites) == 1
        found = None
        if ok:
            c = sites[0][0]
            g = hir.guards_of(c, body, sym) or []
            # the handler call identifies the command (the arm may be a text pattern or a variant of a command enum)
            inner = [(hir.fmt(x[1], 120), x[2]) for x in g if x[0] == "if"]
            found = inner
            ok = inner is not None and ("<bool>::load(search_is_running, Ordering::Relaxed)", False) in [(t.replace("std::sync::atomic::Atomic::", ""), p) for t, p in inner]
        ctx.check("C14.O6", "refused-while-searching:%s" % cmd, ok, fn=TALK, file=fn["file"],
                  what="`%s` must be refused while a search is running (a second search / a position change under the running search "
                       "breaks the one-bestmove-per-go pairing)" % cmd, expected="only in the else-branch of `if search_is_running.load()`",
                  found=found)


def o8(ctx, F, sfn):
    """The search thread takes the Data lock once and finishes with the game (including forgetting it) before it releases the lock:
    otherwise a `position` sent right after `bestmove` can be applied first and then wiped by the late `current_game = None`.
    And nothing reachable from the search thread takes the stdout lock for longer than one print (isready must be answerable)."""
    cfg = mir.Cfg(sfn)
    locks = cfg.calls(lambda c, t: c.endswith("Mutex::<T>::lock"))
    ctx.check("C14.O8", "search-thread-locks-the-data-once", len(locks) == 1, fn=sfn["path"], file=sfn["file"],
              what="the search thread must take the Data mutex exactly once, for the whole of its work on the game",
              expected=1, found=len(locks))
    # writes to Data.current_game inside the closure must happen while the guard of that single lock is live
    guards = {i for i, l in enumerate(cfg.locals) if l["ty"].startswith("std::sync::MutexGuard<")}
    drops = [b for b in range(cfg.n) if cfg.blocks[b]["term"]["k"] == "Drop" and not cfg.blocks[b]["term"]["place"].get("p")
             and cfg.blocks[b]["term"]["place"]["l"] in guards]
    after_drop = set()
    for d in drops:
        after_drop |= cfg.reach_from_succs(d)
    resets = []
    for b in range(cfg.n):
        for s in cfg.blocks[b]["stmts"]:
            if s["k"] == "Assign" and s["place"].get("ty", "").startswith("std::option::Option<chess::Game>"):
                resets.append(b)
        t = cfg.blocks[b]["term"]
        if t["k"] == "Drop" and t["place"].get("ty", "").startswith("std::option::Option<chess::Game>") and t["place"].get("p"):
            resets.append(b)
    late = sorted(set(r for r in resets if r in after_drop))
    ctx.check("C14.O8", "game-forgotten-before-the-lock-is-released", bool(resets) and not late and len(locks) == 1, fn=sfn["path"], file=sfn["file"],
              what="the search thread clears the session's game after it has released (and re-taken) the Data lock: a `position` command that "
                   "arrives right after `bestmove` is applied in between and then wiped, so the following `go` fails with 'No game to play'",
              expected="current_game reset while the guard taken before the search is still live",
              found={"resets": len(resets), "after guard drop": len(late), "locks": len(locks)})
    g = mir.callgraph(F)
    reach = mir.reachable_fns(g, sfn["path"])
    so = sorted(c for c in reach if "Stdout" in c and c.endswith("::lock"))
    ctx.check("C14.O5", "search-thread-never-holds-the-stdout-lock", not so, fn=sfn["path"], file=sfn["file"],
              what="code reachable from the search thread takes the stdout lock explicitly: while it is held `isready` (answered by the stdin "
                   "thread with println!) blocks until the search ends", found=so)
