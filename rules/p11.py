"""C11 - exported FEN describes the position and re-imports to the same game.

Decides: the tables of the writer (Game::fen, Piece::as_char_ascii) and of the reader (Game::new,
Piece::from_char_ascii) are inverse to each other AND equal to the FEN standard, so a field that is
consistently wrong in both directions is caught (the round-trip tests cannot see that).
Does not decide: "same legal moves" after re-import (delegated to C01) - only that placement, side, rights and
en-passant file are transported, which together with C04 gives the same hash.
"""
from . import core, hir
from .common import (discr_map, sym_fn, emissions, loop_binders, range_of, plain_guards, gamestate_bit_facts)

LEVEL = "other"
EXPLANATION = ("Writer and reader tables extracted from typed HIR (emission list of Game::fen with the guards each push runs "
               "under; match tables of Game::new; case-folded summaries of the letter functions) and compared three ways: "
               "writer vs standard, reader vs standard, writer vs reader.")

STD_LETTERS = {"King": "K", "Queen": "Q", "Rook": "R", "Bishop": "B", "Knight": "N", "Pawn": "P"}
PT = "chess::piece::PieceType::"
PL = "chess::Player::"
WRITER = "chess::Game::fen"
READER = "chess::Game::new"


def run(ctx):
    F = ctx.facts
    _FACTS[0] = F
    D = discr_map(F)
    t1_letters(ctx, F, D)
    em, sym = emissions(F.fn(WRITER), F, recv="result")
    ctx.floor("C11.T7", "string emissions in Game::fen", len(em), 8)
    writer_board(ctx, F, em)
    writer_fields(ctx, F, em)
    t8_board_dependent_rejections(ctx, F)
    reader(ctx, F)
    # re-import must give the same en-passant file (and hash): importer and Game::push record it under the same condition
    from . import p04
    before, nv = len(ctx.instances), len(ctx.violations)
    p04.rule_k7(ctx, F)
    # ... and the same hash: every value xor-ed into the hash is a key of the position, the importer folds each square once and takes
    # the state key only when rights and en-passant file are final (a played and a re-imported game then hash alike)
    p04.rule_k5(ctx, F)
    p04.rule_k6(ctx, F, parts=("rank", "slots", "final", "side"))
    for i in ctx.instances[before:]:
        i["rule"] = "C11.T6(" + i["rule"] + ")"
    for v in ctx.violations[nv:]:
        v["rule"] = "C11.T6(" + v["rule"] + ")"
        v["key"] = "C11.T6|" + v["key"]


def t1_letters(ctx, F, D):
    w = F.fn("chess::piece::Piece::as_char_ascii")
    r = F.fn("chess::piece::Piece::from_char_ascii")
    wnf, rnf = sym_fn(w, F), sym_fn(r, F)
    for owner in ("White", "Black"):
        for t, L in STD_LETTERS.items():
            exp = L if owner == "White" else L.lower()
            v = hir.fold(wnf, {("field", ("var", "self"), "owner"): ("variant", PL + owner),
                               ("field", ("var", "self"), "piece_type"): ("variant", PT + t)}, D)
            ctx.check("C11.T1", "writer:%s %s" % (owner, t), v == ("lit", exp), fn=w["path"], file=w["file"],
                      line=w["span"][0], what="FEN piece letter of the writer differs from the standard",
                      expected=exp, found=hir.fmt(v, 60))
            back = hir.fold(rnf, {("var", "piece"): ("lit", exp)}, D)
            want = ("ctor", "std::prelude::v1::Some",
                    (("struct", "chess::piece::Piece", (("owner", ("variant", PL + owner)), ("piece_type", ("variant", PT + t)))),))
            ok = back == want or _some_piece(back) == (owner, t)
            ctx.check("C11.T1", "reader:%s" % exp, ok, fn=r["path"], file=r["file"], line=r["span"][0],
                      what="FEN piece letter is read back as a different piece than the standard / the writer says",
                      expected="%s %s" % (owner, t), found=hir.fmt(back, 120))
    # letters that are not pieces are refused
    for ch in "xXaz1":
        back = hir.fold(rnf, {("var", "piece"): ("lit", ch)}, D)
        ok = back[0] == "ret" and "None" in hir.fmt(back, 200) and "Some" not in hir.fmt(back, 200)
        ctx.check("C11.T1", "reader-refuses:%s" % ch, ok, fn=r["path"], file=r["file"], line=r["span"][0],
                  what="a character that is no FEN piece letter is accepted as a piece", found=hir.fmt(back, 120))


def _some_piece(nf):
    try:
        if nf[0] in ("ctor", "call") and str(nf[1]).endswith("Some"):
            st = nf[2][0]
            if st[0] == "struct":
                d = dict(st[2])
                return (d["owner"][1].split("::")[-1], d["piece_type"][1].split("::")[-1])
    except Exception:
        pass
    return None


def _is(nf, ch):
    return nf == ("lit", ch)


def writer_board(ctx, F, em):
    fn = F.fn(WRITER)
    # the piece emission
    pieces = [e for e in em if e[2][0] == "call" and str(e[2][1]).endswith("Piece::as_char_ascii")]
    ctx.check("C11.T2", "writer:piece-emission-exists", len(pieces) == 1, fn=WRITER, file=fn["file"],
              what="Game::fen must emit as_char_ascii of the piece on each occupied square exactly once",
              found=len(pieces))
    if len(pieces) != 1:
        return
    node, _, arg, guards = pieces[0]
    loops = loop_binders(guards)
    ok = len(loops) == 2
    outer = range_of(loops[0][0]) if ok else None
    inner = range_of(loops[1][0]) if ok else None
    ctx.check("C11.T2", "writer:ranks-8-down-to-1", ok and outer == (0, 8, True), fn=WRITER, file=fn["file"], line=hir.line(node),
              what="the first FEN rank must be rank 8: outer loop over rows 0..8 reversed",
              expected="(0..8).rev()", found=hir.fmt(loops[0][0], 80) if loops else None)
    ctx.check("C11.T3", "writer:files-a-to-h", ok and inner == (0, 8, False), fn=WRITER, file=fn["file"], line=hir.line(node),
              what="files must be written a to h: inner loop over cols 0..8 ascending",
              expected="0..8", found=hir.fmt(loops[1][0], 80) if len(loops) > 1 else None)
    if not ok:
        return
    rowv, colv = (loops[0][1] or ("?",))[0], (loops[1][1] or ("?",))[0]
    # square read: get_position(new_assert(row, col)) of the loop variables, in that order
    sq = [g for g in plain_guards(guards) if g[0] == "arm" and g[1][0] == "call" and str(g[1][1]).endswith("Game::get_position")]
    if not sq:
        # `if let Some(piece) = self.get_position(..)` spelling of the same test
        sq = [("arm", g[1][2]) for g in plain_guards(guards) if g[0] == "if" and g[2] is True and isinstance(g[1], tuple) and g[1][0] == "let"
              and g[1][2][0] == "call" and str(g[1][2][1]).endswith("Game::get_position")]
    good = False
    if sq:
        p = sq[0][1][2][1]
        good = p[0] == "call" and str(p[1]).endswith(("Position::new_assert", "Position::new_unsafe", "Position::new")) \
            and p[2] == (("var", rowv), ("var", colv))
    ctx.check("C11.T2", "writer:square=(row,col)-of-loop-vars", good, fn=WRITER, file=fn["file"], line=hir.line(node),
              what="the piece written for a (rank, file) slot is not the piece on (row, col)",
              expected="get_position(Position(row=%s, col=%s))" % (rowv, colv), found=hir.fmt(sq[0][1], 120) if sq else None)
    # the emitted piece is the one that was read
    ctx.check("C11.T2", "writer:emits-the-piece-read", arg[2][0][0] in ("var", "field"), fn=WRITER, file=fn["file"], line=hir.line(node),
              what="the letter written does not come from the piece read from the square", found=hir.fmt(arg, 100),
              nontrivial=False)
    # '/' between ranks, not after the last
    sl = [e for e in em if _is(e[2], "/")]
    ok = len(sl) == 1
    if ok:
        g = plain_guards(sl[0][3])
        lp = loop_binders(sl[0][3])
        conds = [hir.fmt(x[1], 60) for x in g if x[0] == "if" and x[2] is True]
        ok = len(lp) == 1 and conds in (["(%s > 0)" % rowv], ["(%s != 0)" % rowv], ["(%s >= 1)" % rowv])
    ctx.check("C11.T2", "writer:separator-between-ranks", ok, fn=WRITER, file=fn["file"],
              what="'/' must be written after every rank except the last (row 0)", expected="once per outer iteration when row > 0",
              found=[(hir.fmt(x[1], 60), x[2]) for x in plain_guards(sl[0][3])] if sl else None)
    # run-length: counts flushed before a piece and at the end of each rank, only when > 0, reset after flush
    runs = [e for e in em if e[2][0] == "call" and str(e[2][1]).endswith("::to_string") and e[2][2][0][0] == "var"]
    cnt = runs[0][2][2][0][1] if runs else None
    depths = sorted(len(loop_binders(e[3])) for e in runs)
    conds_ok = all(any(x[0] == "if" and x[2] is True and hir.fmt(x[1], 60) == "(%s > 0)" % cnt for x in plain_guards(e[3])) for e in runs)
    ctx.check("C11.T3", "writer:empty-run-flushed-before-piece-and-at-rank-end", depths == [1, 2] and conds_ok, fn=WRITER, file=fn["file"],
              what="the empty-square count must be flushed (if > 0) before each piece and at the end of each rank",
              expected="two flushes: one inside the file loop before the piece, one after it", found={"loop_depths": depths, "guarded": conds_ok})
    # counter handling: +1 on empty, reset to 0 after the in-rank flush, fresh 0 per rank
    body = fn["hir"]["body"]
    inc = reset = init_in_rank = False
    for n, anc in hir.walk(body):
        if n.get("k") == "AssignOp" and n["op"] == "+=" and hir.strip(n["l"]).get("to", {}).get("name") == cnt \
                and hir.strip(n["r"]).get("v") == 1:
            inc = True
        if n.get("k") == "Assign" and hir.strip(n["l"]).get("to", {}).get("name") == cnt and hir.strip(n["r"]).get("v") == 0:
            reset = True
            # the reset comes after the flush it belongs to (a reset in front of it makes every run print as 0)
            blk = [a_ for a_ in anc if a_.get("k") == "Block"]
            if blk:
                sts = blk[-1].get("stmts") or []
                me = next((i_ for i_, st_ in enumerate(sts) if any(x is n for x, _ in hir.walk(st_))), None)
                fl = [i_ for i_, st_ in enumerate(sts) if any(x.get("k") == "MethodCall" and x.get("name") == "to_string" and
                                                               hir.strip(x["recv"]).get("to", {}).get("name") == cnt for x, _ in hir.walk(st_))]
                if me is not None and fl and min(fl) > me:
                    reset = False
        if n.get("k") == "SLet" and n["pat"].get("name") == cnt and hir.strip(n["init"]).get("v") == 0:
            init_in_rank = sum(1 for a in anc if a.get("k") == "Loop") == 1
    ctx.check("C11.T3", "writer:empty-run-counter", inc and reset and init_in_rank, fn=WRITER, file=fn["file"],
              what="the empty-square counter is not (+1 per empty square, reset after a flush, fresh per rank)",
              found={"increment": inc, "reset_after_flush": reset, "initialised_per_rank": init_in_rank})


def writer_text(F, rights, side, ep):
    """Text Game::fen produces after the piece placement for a state with these castling rights (dict), side to move and
    en-passant value (0..7, 8 = none): the function is summarised symbolically (helpers expanded, literal-array loops
    unrolled, the placement loops left opaque) and folded under the assumptions.  Returns (list of parts, error)."""
    from . import inline
    fn = F.fn(WRITER)
    cache = getattr(F, "_fen_summary", None)
    if cache is None:
        h = inline.unroll_literal_loops(fn["hir"])
        ex = hir.Exec(h, F, tolerant=True)
        cache = hir.resolve_consts(ex.run(), F)
        F._fen_summary = cache
    ST = ("call", "chess::Game::state", (("var", "self"),))
    a = {("field", ("var", "self"), "current_player"): ("variant", PL + side),
         ("call", "chess::Game::player", (("var", "self"),)): ("variant", PL + side),
         ("call", "chess::gamestate::GameState::en_passant", (ST,)): ("lit", ep)}
    for k, v in rights.items():
        a[("call", "chess::gamestate::GameState::%s_castling" % k, (ST,))] = ("lit", v)
    from .common import chess_evalcalls
    ev = chess_evalcalls(None, {})
    v = hir.fold(cache, a, discr_map(F), hir.table_helpers(F), ev)
    v = hir.fold(v, a, discr_map(F), hir.table_helpers(F), ev)
    if not (isinstance(v, tuple) and v and v[0] == "str"):
        return None, "summary does not fold to a string: %s" % hir.fmt(v, 160)
    parts = []
    for p_ in v[1:]:
        x = p_[1]
        if p_[0] in ("ch", "s") and x[0] == "lit" and isinstance(x[1], str):
            parts.append(x[1])
        elif x[0] == "opaque":
            parts.append(("LOOP",))
        else:
            parts.append(("TERM", hir.fmt(x, 200), x))
    return parts, None


def writer_fields(ctx, F, em):
    """Fields 2-6 of the FEN writer, decided by evaluating the writer for every combination of side (2), castling rights
    (16) and en-passant value (9) and comparing the text after the piece placement with the FEN grammar."""
    fn = F.fn(WRITER)
    RIGHTS = (("white_king", "K"), ("white_queen", "Q"), ("black_king", "k"), ("black_queen", "q"))
    bad = {"side": [], "castling": [], "ep": [], "shape": [], "tail": []}
    n_cases = 0
    err = None
    fm_terms = set()
    raw_terms = {}
    last_terms = set()
    try:
        for side in ("White", "Black"):
            for mask in range(16):
                rights = {k: bool(mask >> i & 1) for i, (k, _) in enumerate(RIGHTS)}
                for ep in range(9):
                    if mask not in (0, 15, 5, 10) and ep not in (0, 8):
                        continue        # rights and en passant are written independently: the full product adds nothing
                    parts, err = writer_text(F, rights, side, ep)
                    if err:
                        raise ValueError(err)
                    n_cases += 1
                    # text after the last opaque (placement) chunk
                    idx = max([i for i, p_ in enumerate(parts) if p_ == ("LOOP",)] or [-1])
                    tail = parts[idx + 1:]
                    if idx < 0 or any(p_ == ("LOOP",) for p_ in tail):
                        bad["shape"].append((side, mask, ep, "no placement loop before the fields"))
                        continue
                    txt = "".join(p_ if isinstance(p_, str) else "\x00" for p_ in tail)
                    terms = [p_[1] for p_ in tail if not isinstance(p_, str)]
                    for p_ in tail:
                        if not isinstance(p_, str) and len(p_) > 2:
                            raw_terms[p_[1]] = p_[2]
                    f = txt.split(" ")
                    if len(f) != 6 or f[0] != "":
                        bad["shape"].append((side, mask, ep, txt.replace("\x00", "<?>")))
                        continue
                    want_c = "".join(ch for k, ch in RIGHTS if rights[k]) or "-"
                    want_e = "-" if ep == 8 else "abcdefgh"[ep] + ("6" if side == "White" else "3")
                    if f[1] != ("w" if side == "White" else "b"):
                        bad["side"].append((side, f[1]))
                    if f[2] != want_c:
                        bad["castling"].append((want_c, f[2]))
                    if f[3] != want_e:
                        bad["ep"].append((side, ep, want_e, f[3]))
                    # each counter is a literal number or one computed value (checked below to be an unsigned number's text)
                    n_t = sum(1 for x_ in (f[4], f[5]) if x_ == "\x00")
                    if not all(x_.isdigit() or x_ == "\x00" for x_ in (f[4], f[5])) or len(terms) != n_t:
                        bad["tail"].append((f[4].replace("\x00", "<?>"), f[5].replace("\x00", "<?>")))
                    fm_terms |= set(terms)
                    if f[5] == "\x00" and terms:
                        last_terms.add(terms[-1])
    except (hir.Unsupported, ValueError, KeyError, RecursionError) as e:
        err = str(e)
    ok_sum = err is None and n_cases > 0
    ctx.check("C11.T7", "writer:summarisable", ok_sum, fn=WRITER, file=fn["file"], nontrivial=False,
              what="Game::fen can no longer be evaluated per state (unsupported shape): %s" % err, found=n_cases)
    if not ok_sum:
        return
    ctx.check("C11.T7", "writer:six-fields", not bad["shape"], fn=WRITER, file=fn["file"],
              what="after the piece placement the writer must produce exactly ' side castling en-passant halfmove fullmove' (five separators)",
              expected="' w KQkq - 0 <n>'", found=bad["shape"][:3] or "%d states evaluated" % n_cases)
    ctx.check("C11.T4", "writer:side-letter", not bad["side"], fn=WRITER, file=fn["file"],
              what="side to move must be written as 'w' for White and 'b' for Black of the game's current player",
              expected={"White": "w", "Black": "b"}, found=bad["side"][:3] or "ok")
    ctx.check("C11.T5", "writer:castling-letters", not bad["castling"], fn=WRITER, file=fn["file"],
              what="castling field must be K,Q,k,q (in that order) for the four rights of the current state, '-' iff none",
              expected="subset of KQkq in order | '-'", found=[("want %s" % w, "got %s" % g) for w, g in bad["castling"][:4]] or "all 16 right sets")
    ctx.check("C11.T5", "writer:dash-iff-no-right", not [x for x in bad["castling"] if "-" in x], fn=WRITER, file=fn["file"],
              what="'-' must be written exactly when none of the four rights was written", found=[x for x in bad["castling"] if "-" in x][:3] or "ok")
    ctx.check("C11.T6", "writer:en-passant-rank-by-side", not [x for x in bad["ep"] if x[1] != 8 and x[3][:1] == x[2][:1]], fn=WRITER, file=fn["file"],
              what="the en-passant target lies behind the pawn that just moved: rank 6 when White is to move, rank 3 when Black is",
              expected={"White": "6", "Black": "3"}, found=[x for x in bad["ep"] if x[1] != 8][:3] or "ok")
    ctx.check("C11.T6", "writer:en-passant-file-and-dash", not bad["ep"], fn=WRITER, file=fn["file"],
              what="en-passant field must be file 'a'+ep followed by the rank when ep < 8, '-' otherwise",
              expected="'a'+ep, rank | '-'", found=bad["ep"][:4] or "ep 0..8 x both sides")
    ctx.check("C11.T7", "writer:halfmove-field", not bad["tail"], fn=WRITER, file=fn["file"],
              what="fifth and sixth field (half-move clock, full-move number) must each be a number", found=bad["tail"][:2] or "ok")
    # a computed counter is the decimal text of an unsigned integer: every to_string() of the writer is applied to an unsigned value
    UNS = ("u8", "u16", "u32", "u64", "u128", "usize")
    ts = [n for n, anc in hir.walk(fn["hir"]["body"]) if n.get("k") == "MethodCall" and n.get("name") == "to_string"
          and not any(a_.get("k") == "Loop" for a_ in anc)]        # (the ones inside the placement loops print run lengths)
    ts_bad = [str(hir.strip(n["recv"]).get("ty")) for n in ts if str(hir.strip(n["recv"]).get("ty")).lstrip("&") not in UNS]
    fm_ok = not bad["tail"] and len(fm_terms) >= 1 and all("to_string(" in t_ for t_ in fm_terms) and not ts_bad
    # at the start of a game (nothing recorded yet, loaded counters at their smallest) a computed counter is not negative: an
    # unsigned `len / 2 - 1` panics in debug builds and prints 18446744073709551615 otherwise
    def at_start(t):
        if not isinstance(t, tuple) or isinstance(t, hir.PK):
            return t
        if t[:1] == ("call",) and str(t[1]).rsplit("::", 1)[-1] in ("len", "count") and "to_string" not in str(t[1]):
            return ("lit", 0)
        if t[:1] == ("field",) and t[1] == ("var", "self"):
            return ("lit", 1)
        return tuple(at_start(x) if isinstance(x, tuple) else x for x in t)
    neg = []
    for txt_, x in sorted(raw_terms.items()):
        if x[:1] == ("call",) and "to_string" in str(x[1]) and len(x[2]) == 1:
            v0 = hir.sym_int(hir.fold(at_start(x[2][0]), {}))
            if v0 is not None and v0 < 0:
                neg.append((txt_, v0))
            # the full-move number (the last field) counts from 1
            if v0 is not None and v0 < 1 and last_terms and txt_ in last_terms:
                neg.append((txt_, "full-move number %d for a game without moves" % v0))
    ctx.check("C11.T7", "writer:counters-not-negative-at-the-start", not neg, fn=WRITER, file=fn["file"],
              what="a computed counter field is negative for a game with no recorded move (unsigned arithmetic: a panic in debug builds, "
                   "a 20-digit number otherwise)", found=neg or "ok")
    ctx.check("C11.T7", "writer:fullmove-field", fm_ok, fn=WRITER, file=fn["file"],
              what="a counter field that is computed must be the decimal text of an unsigned number (`<unsigned>.to_string()`)",
              expected="to_string(<unsigned integer>)", found={"terms": sorted(fm_terms)[:2], "to_string of": ts_bad})


def t8_board_dependent_rejections(ctx, F, rule="C11.T8"):
    """A rejection (`bail!` / `return Err`) in the importer that depends on the board content - e.g. a plausibility check of the
    en-passant square - must not fire for positions that come from a game: its condition is evaluated on boards consistent with
    a double pawn push (pushed pawn in place, the squares it passed empty, a capturing pawn beside it), for both sides to move."""
    from .common import enclosing_conditions, dependence_nodes, chess_evalcalls
    fn = F.fn(READER)
    body = fn["hir"]["body"]
    env = hir.Env(fn["hir"], F)
    keep = {"col", "current_player", "board"}
    symt = hir.Sym(env, F, depth=30, through=True, keep=keep)
    D = discr_map(F)
    PCE, PT_ = "chess::piece::Piece", "chess::piece::PieceType::"
    SOME, NONE = "std::prelude::v1::Some", ("variant", "std::prelude::v1::None")

    def pc(kind, owner):
        return ("ctor", SOME, (("struct", PCE, (("owner", ("variant", PL + owner)), ("piece_type", ("variant", PT_ + kind)))),))
    n = 0
    for r, anc in hir.walk(body):
        if r.get("k") != "Ret" or r.get("e") is None:
            continue
        v = hir.fmt(symt(r["e"]), 80)
        if not (r.get("mac") == "bail" or "Err(" in v):
            continue
        dep = [x for c_ in enclosing_conditions(r, fn["hir"]) for x in dependence_nodes(c_, fn["hir"])]
        reads_board = any(x.get("k") == "Index" and hir.strip(x["e"]).get("to", {}).get("name") == "board" for x in dep) or \
            any(x.get("k") == "MethodCall" and (hir.callee_of(x) or "").endswith("Game::get_position") for x in dep)
        if not reads_board:
            continue
        n += 1
        # only the conditions that look at the board (the syntactic guards around them use unrelated scanner variables)
        def no_board(g_):
            if not (g_[0] in ("if", "arm") and isinstance(g_[1], tuple)):
                return True
            return not any(x == ("var", "board") or x[:2] == ("call", "chess::Game::get_position") for x in hir.subterms(g_[1]))
        term = hir.guards_term(hir.guards_of(r, body, symt) or [], skip=no_board)
        bad = []
        for side, other, prow, trow, orow in (("White", "Black", 4, 5, 6), ("Black", "White", 3, 2, 1)):
            for f in range(8):
                for cap in (f - 1, f + 1):
                    if not 0 <= cap <= 7:
                        continue
                    brd = {(prow, f): pc("Pawn", other), (trow, f): NONE, (orow, f): NONE, (prow, cap): pc("Pawn", side)}
                    for c2 in (f - 1, f + 1):
                        if 0 <= c2 <= 7 and (prow, c2) not in brd:
                            brd[(prow, c2)] = NONE
                    a = {("var", "current_player"): ("variant", PL + side), ("var", "col"): ("lit", f)}
                    for (rr, cc), cont in brd.items():
                        a[("index", ("var", "board"), ("lit", rr * 8 + cc))] = cont
                    res = hir.fold(hir.resolve_consts(term, F), a, D, None, chess_evalcalls(brd))
                    if not hir.all_leaves_false(res):
                        bad.append({"side to move": side, "en-passant file": "abcdefgh"[f], "capturing pawn on": "abcdefgh"[cap],
                                    "rejection condition": hir.fmt(res, 160)})
        ctx.check(rule, "board-dependent-rejection-spares-positions-from-play#%d" % n, not bad, fn=READER, file=fn["file"], line=hir.line(r),
                  what="the importer refuses (or may refuse) a FEN whose en-passant square comes from a real double pawn push: a position the "
                       "engine itself exports cannot be loaded again",
                  expected="no rejection when the pushed pawn stands on its square, the squares behind it are empty and a pawn can capture",
                  found=bad[:3] or "not rejected")
    ctx.note("%s: %d board-dependent rejection(s) in the importer evaluated on consistent en-passant boards" % (rule, n))


_FACTS = [None]


def _match_table(nf):
    """{variant path or literal: literal} for a ("match", scrut, arms) normal form with literal bodies."""
    nf = hir.resolve_consts(nf, _FACTS[0])
    if not (isinstance(nf, tuple) and nf and nf[0] == "match"):
        return None
    out = {}
    for pk, g, body in nf[2]:
        if g is not None or body[0] != "lit":
            return None
        if isinstance(pk, tuple) and pk[0] in ("variant", "lit"):
            out[pk[1]] = body[1]
        else:
            return None
    return out


def _initial_value(body, symt, node, depth=0):
    """What a place holds before any element store: a local is its initialiser (element stores do not re-bind it), a field of a
    local built by a struct literal is that field of the literal; references are looked through."""
    n0 = hir.strip(node)
    while n0.get("k") in ("Unary", "AddrOf") and n0.get("e"):
        n0 = hir.strip(n0["e"])
    if depth > 6:
        return hir.fold(symt(n0), {})
    if n0.get("k") == "Path" and n0["to"].get("res") == "local":
        lid = n0["to"]["id"]
        inits = [n["init"] for n, _ in hir.walk(body) if n.get("k") == "SLet" and n["pat"].get("k") == "PBind"
                 and n["pat"].get("id") == lid and n.get("init") is not None]
        whole = [n for n, _ in hir.walk(body) if n.get("k") == "Assign" and hir.strip(n["l"]).get("k") == "Path"
                 and hir.strip(n["l"])["to"].get("id") == lid]
        if len(inits) == 1 and not whole:
            return _initial_value(body, symt, inits[0], depth + 1)
        return ("var", n0["to"]["name"])
    if n0.get("k") == "Field":
        b = _initial_value(body, symt, n0["e"], depth + 1)
        if b[0] == "struct":
            for nm, v in b[2]:
                if nm == n0["name"]:
                    return v
        return ("field", b, n0["name"])
    return hir.fold(symt(n0), {})


def reader_board_fresh(ctx, F):
    """The digit arm of the scanner skips squares without writing them, so wherever the scanner runs (Game::new, and any function
    an import helper was expanded into) the array its piece arm stores into must be all-None when the scan starts - a new
    `[None; 64]`, not the board of a game that already holds a position - or the digit arm must clear the squares itself."""
    n_sc = 0
    for p, fn in sorted(F.fns.items()):
        if fn.get("kind") == "Closure" or not fn.get("hir"):
            continue
        body = fn["hir"]["body"]
        scanners = [n for n, _ in hir.walk(body) if n.get("k") == "Match" and n.get("src") == "Normal"
                    and ("lit", "/") in [hir.pat_key(a["pat"]) for a in n["arms"]]]
        if not scanners:
            continue
        symt = hir.Sym(hir.Env(fn["hir"], F), F, through=True)
        for sc in scanners:
            stores = [n for n, _ in hir.walk(sc) if n.get("k") == "Assign" and hir.strip(n["l"]).get("k") == "Index"
                      and str(n["r"].get("ty", "")).startswith("std::option::Option<chess::piece::Piece")]
            some = [n for n in stores if symt(n["r"])[0] == "ctor"]
            clears = [n for n in stores if symt(n["r"]) == ("variant", "std::prelude::v1::None")]
            if not some:
                continue
            n_sc += 1
            base = _initial_value(body, symt, hir.strip(some[0]["l"])["e"])
            while base[0] in ("un", "addr", "ref") and len(base) >= 2 and isinstance(base[-1], tuple):
                base = base[-1]
            txt = hir.fmt(base, 80)
            fresh = txt.startswith("repeat(v1::None")
            ctx.check("C11.T3", "reader:skipped-squares-are-empty:%s" % p.split("::")[-1], fresh or bool(clears), fn=p, file=fn["file"],
                      line=hir.line(some[0]),
                      what="the FEN reader fills a board that is not empty when the scan starts and does not clear the squares a digit "
                           "skips: pieces of the previous position survive on them (the exported FEN then differs from the imported one)",
                      expected="a fresh [None; 64] (or `board[..] = None` in the digit arm)", found=txt)
    ctx.floor("C11.T3", "functions that run the board scanner", n_sc, 1)


def reader(ctx, F):
    _FACTS[0] = F
    fn = F.fn(READER)
    body = fn["hir"]["body"]
    env = hir.Env(fn["hir"], F)
    sym = hir.Sym(env, F)
    # T2/T3: counters
    inits = {}
    for n, anc in hir.walk(body):
        if n.get("k") == "SLet" and n["pat"].get("k") == "PBind" and n["pat"]["name"] in ("row", "col") and not any(a.get("k") == "Loop" for a in anc):
            inits.setdefault(n["pat"]["name"], hir.sym_int(sym(n["init"])))
    ctx.check("C11.T2", "reader:first-rank-is-row-7", inits.get("row") == 7, fn=READER, file=fn["file"],
              what="the reader must start at row 7 (rank 8 comes first in a FEN)", expected=7, found=inits.get("row"))
    ctx.check("C11.T3", "reader:first-file-is-col-0", inits.get("col") == 0, fn=READER, file=fn["file"],
              what="the reader must start each rank at col 0 (file a)", expected=0, found=inits.get("col"))
    scanner = None
    for n, anc in hir.walk(body):
        if n.get("k") == "Match" and n.get("src") == "Normal" and ("lit", "/") in [hir.pat_key(a["pat"]) for a in n["arms"]]:
            scanner = n
    if scanner is None:
        ctx.anchor_missing("C11.T2", "board scanner in Game::new")
        return
    for a in scanner["arms"]:
        pk = hir.pat_key(a["pat"])
        arm = a["body"]
        if pk == ("lit", "/"):
            dec = col0 = False
            for n, anc in hir.walk(arm):
                if n.get("k") == "AssignOp" and n["op"] == "-=" and hir.strip(n["l"]).get("to", {}).get("name") == "row" and hir.strip(n["r"]).get("v") == 1:
                    dec = True
                if n.get("k") == "Assign" and hir.strip(n["l"]).get("to", {}).get("name") == "col" and hir.strip(n["r"]).get("v") == 0:
                    col0 = True
            ctx.check("C11.T2", "reader:separator-moves-one-rank-down", dec and col0, fn=READER, file=fn["file"], line=hir.line(arm),
                      what="'/' must move to the next lower row and back to file a", found={"row-=1": dec, "col=0": col0})
        elif a.get("guard") and "is_ascii_alphabetic" in hir.fmt(sym(a["guard"]), 200):
            # the square a piece letter lands on is (row, col), then col advances by one
            sqs = [c for c, _ in hir.walk(arm) if c.get("k") in ("Call", "MethodCall") and
                   (hir.callee_of(c) or "").endswith(("Position::new", "Position::new_assert"))]
            good = bool(sqs) and all(sym(c["args"][0]) == ("var", "row") and sym(c["args"][1]) == ("var", "col") for c in sqs)
            ctx.check("C11.T3", "reader:piece-lands-on-(row,col)", good, fn=READER, file=fn["file"], line=hir.line(arm),
                      what="a piece letter must be placed on (row, col) of the scan position",
                      found=[hir.fmt(sym(c), 80) for c in sqs])
            stores = [n for n, _ in hir.walk(arm) if n.get("k") == "Assign" and hir.strip(n["l"]).get("k") == "Index"
                      and hir.strip(hir.strip(n["l"])["e"]).get("to", {}).get("name") == "board"]
            ctx.check("C11.T3", "reader:piece-stored-on-board", len(stores) == 1, fn=READER, file=fn["file"], line=hir.line(arm),
                      what="the piece read must be stored on the board square", found=len(stores))
    reader_board_fresh(ctx, F)
    # T4 side
    tbl = None
    for n, anc in hir.walk(body):
        if n.get("k") == "Match" and n.get("src") == "Normal":
            t = {}
            for a in n["arms"]:
                pk = hir.pat_key(a["pat"])
                b = sym(a["body"])
                if b[0] == "ctor" and str(b[1]).endswith(("::Some", "::Ok")) and len(b[2]) == 1:
                    b = b[2][0]       # `"w" => Some(White)` in a helper whose failure the caller turns into the error
                if isinstance(pk, tuple) and pk[0] == "lit" and b[0] == "variant" and b[1].startswith(PL):
                    t[pk[1]] = b[1]
            if t:
                tbl = (t, n)
    ctx.check("C11.T4", "reader:side-letter", tbl is not None and tbl[0] == {"w": PL + "White", "b": PL + "Black"}, fn=READER,
              file=fn["file"], line=hir.line(tbl[1]) if tbl else None,
              what="'w' must be read as White to move and 'b' as Black", expected={"w": "White", "b": "Black"},
              found=tbl[0] if tbl else None)
    reader_castling_letters(ctx, F, "C11.T5")
    recs, layout = gamestate_bit_facts(F)
    for key, ok, fnp, found in recs:
        ctx.check("C11.T5", "bits:" + key, ok, fn=fnp, file="src/chess/gamestate.rs",
                  what="getter and setters of a right/en-passant nibble disagree on the bit they use", found=found)
    reader_rest(ctx, F, fn, body, sym)


def reader_castling_letters(ctx, F, rule):
    """T5 castling letters -> setters (the reference accessor of the bit that is set, see inline.canon_rights)"""
    fn = F.fn(READER)
    body = fn["hir"]["body"]
    ctab = None
    for n, anc in hir.walk(body):
        if n.get("k") == "Match" and n.get("src") == "Normal":
            t = {}
            for a in n["arms"]:
                pk = hir.pat_key(a["pat"])
                # the one castling setter the arm calls (directly, or as the body of an expanded `grant(right)`)
                cs = [c for c, _ in hir.walk(a["body"]) if c.get("k") == "MethodCall" and "castling" in (hir.callee_of(c) or c["name"])]
                b = cs[0] if len(cs) == 1 else {}
                if isinstance(pk, tuple) and pk[0] == "lit" and b.get("k") == "MethodCall" and "castling" in (hir.callee_of(b) or b["name"]):
                    t[pk[1]] = (hir.callee_of(b) or b["name"]).rsplit("::", 1)[-1]      # resolved (anchor) name, not the spelling
            if t:
                ctab = (t, n)
    exp = {"K": "set_white_king_castling_true", "Q": "set_white_queen_castling_true",
           "k": "set_black_king_castling_true", "q": "set_black_queen_castling_true"}
    castling_letters_on_consistent_boards(ctx, F, fn, exp, rule)
    if not (ctab is not None and ctab[0] == exp):
        # not one letter -> setter table: decide per letter which setters can be reached
        bv = castling_letters_by_cases(F, fn, exp)
        if bv is not None:
            ctx.check(rule, "reader:castling-letters", not bv, fn=READER, file=fn["file"], line=hir.line(ctab[1]) if ctab else None,
                      what="castling letters must grant the right the writer prints them for (K, Q, k, q = bits 4, 5, 6, 7 of the state byte "
                           "that indexes the published state keys); decided per letter over the setter calls that can be reached",
                      expected=exp, found=bv)
            return
    ctx.check(rule, "reader:castling-letters", ctab is not None and ctab[0] == exp, fn=READER, file=fn["file"],
              line=hir.line(ctab[1]) if ctab else None,
              what="castling letters must grant the right the writer prints them for (K, Q, k, q = bits 4, 5, 6, 7 of the state byte that "
                   "indexes the published state keys)", expected=exp, found=ctab[0] if ctab else None)


def castling_letters_on_consistent_boards(ctx, F, fn, exp, rule):
    """A castling letter of an exported position stands for a king and a rook on their home squares; an importer that makes the
    right depend on the board must grant it on every such board: the guards of the letter's setter call, folded under letter = c
    and a board that has the king and that rook at home (nothing on the other corners), must not come out false."""
    from .common import chess_evalcalls, position_values
    body = fn["hir"]["body"]
    sym = hir.Sym(hir.Env(fn["hir"], F), F, through=True)
    D = discr_map(F)
    homes = {"K": ("White", (0, 4), (0, 7)), "Q": ("White", (0, 4), (0, 0)), "k": ("Black", (7, 4), (7, 7)), "q": ("Black", (7, 4), (7, 0))}
    letter_of = {v: k for k, v in exp.items()}
    SOME, NONE = "std::prelude::v1::Some", ("variant", "std::prelude::v1::None")

    def pc(kind, owner):
        return ("ctor", SOME, (("struct", "chess::piece::Piece", (("owner", ("variant", PL + owner)), ("piece_type", ("variant", PT + kind)))),))
    for c, anc in hir.walk(body):
        if not (c.get("k") == "MethodCall" and (hir.callee_of(c) or c["name"]).rsplit("::", 1)[-1] in letter_of):
            continue
        ch = letter_of[(hir.callee_of(c) or c["name"]).rsplit("::", 1)[-1]]
        t = position_values(hir.resolve_consts(hir.guards_term(hir.guards_of(c, body, sym) or []), F), F)
        cvars = set()
        for n, _ in hir.walk(body):
            to = n.get("to") or {}
            if n.get("k") == "Path" and to.get("res") == "local" and str(n.get("ty")) == "char" and hir.contains(t, ("var", to.get("name"))):
                cvars.add(to["name"])
        if len(cvars) != 1:
            continue
        owner, ksq, rsq = homes[ch]
        a = {("var", next(iter(cvars))): ("lit", ch)}
        board = {(r_, c_): NONE for r_ in range(8) for c_ in range(8)}
        board[ksq] = pc("King", owner)
        board[rsq] = pc("Rook", owner)
        bases = {x[1] for x in hir.subterms(t) if isinstance(x, tuple) and x[:1] == ("index",) and "board" in hir.fmt(x[1], 40)}
        for (r_, c_), v_ in board.items():
            for b_ in bases:
                a[("index", b_, ("lit", r_ * 8 + c_))] = v_
        ev = chess_evalcalls(board)
        v = hir.fold(hir.fold(t, a, D, hir.table_helpers(F), ev), a, D, hir.table_helpers(F), ev)
        ctx.check(rule, "reader:castling-letter-granted-with-king-and-rook-at-home:%s" % ch, not (v == ("lit", False) or hir.all_leaves_false(v)),
                  fn=READER, file=fn["file"], line=hir.line(c),
                  what="the importer does not grant the right `%s` on a board that has the %s king and that rook on their home squares: the "
                       "exported text of such a position re-imports without the right" % (ch, owner),
                  expected="granted", found=hir.fmt(v, 120))


def castling_letters_by_cases(F, fn, exp):
    """For every character c of a castling field: the castling setters whose call site can be reached when the letter being looked
    at is c (lexical guards incl. earlier statements that leave on some letters, folded under letter = c).  [] when K, Q, k, q
    reach exactly their own setter and no other character reaches any; failing letters otherwise; None when the setters are not
    guarded by one character variable."""
    body = fn["hir"]["body"]
    sym = hir.Sym(hir.Env(fn["hir"], F), F)
    sites = [(c, anc) for c, anc in hir.walk(body) if c.get("k") == "MethodCall" and
             (hir.callee_of(c) or c["name"]).rsplit("::", 1)[-1] in set(exp.values())]
    if not sites:
        return None
    terms = []
    chars = set()
    for c, anc in sites:
        g = hir.guards_of(c, body, sym) or []
        t = hir.guards_term(g)
        terms.append(((hir.callee_of(c) or c["name"]).rsplit("::", 1)[-1], t))
        for x, _ in hir.walk(body):
            pass
        for st in hir.subterms(t):
            if isinstance(st, tuple) and st[:1] == ("var",):
                chars.add(st[1])
    # the letter variable: a local of type char that the guards mention
    cvars = set()
    for n, _ in hir.walk(body):
        to = n.get("to") or {}
        if n.get("k") == "Path" and to.get("res") == "local" and to.get("name") in chars and str(n.get("ty")) == "char":
            cvars.add(to["name"])
    if len(cvars) != 1:
        return None
    cv = ("var", next(iter(cvars)))
    bad = []
    for ch in "KQkq-xAa1 /w":
        reach = set()
        for name, t in terms:
            v = hir.fold(t, {cv: ("lit", ch)})
            if not (v == ("lit", False) or hir.all_leaves_false(v)):
                reach.add(name)
        want = {exp[ch]} if ch in exp else set()
        if reach != want:
            bad.append((ch, sorted(reach)))
    return bad


def castling_unknown_refused(F, fn, exp=None):
    """Characters other than KQkq- in the castling field: for each, an error return inside the letter loop is definitely reached
    (its lexical guards fold to true under letter = c).  [] = all refused, list of characters that are not, None = no letter loop."""
    exp = exp or {"K": "set_white_king_castling_true", "Q": "set_white_queen_castling_true",
                  "k": "set_black_king_castling_true", "q": "set_black_queen_castling_true"}
    body = fn["hir"]["body"]
    sym = hir.Sym(hir.Env(fn["hir"], F), F)
    sites = [(c, anc) for c, anc in hir.walk(body) if c.get("k") == "MethodCall" and
             (hir.callee_of(c) or c["name"]).rsplit("::", 1)[-1] in set(exp.values())]
    loops = []
    for c, anc in sites:
        lp = [a for a in anc if a.get("k") == "Loop"]
        if lp and not any(lp[-1] is x for x in loops):
            loops.append(lp[-1])
    if len(loops) != 1:
        return None
    loop = loops[0]
    cvars = set()
    for n, _ in hir.walk(loop):
        to = n.get("to") or {}
        if n.get("k") == "Path" and to.get("res") == "local" and str(n.get("ty")) == "char":
            cvars.add(to["name"])
    if len(cvars) != 1:
        return None
    cv = ("var", next(iter(cvars)))
    rets = [(n, hir.guards_term(hir.guards_of(n, loop, sym) or [])) for n, _ in hir.walk(loop) if n.get("k") == "Ret"]
    bad = []
    for ch in "xAa1 /w?":
        if not any(hir.fold(t, {cv: ("lit", ch)}) == ("lit", True) for _, t in rets):
            bad.append(ch)
    # ... and the five characters the field is made of are not refused (`-` stands for "no rights" and must be let through)
    # (a lone dash may also be recognised as the whole field before the loop is entered: then the loop need not know it)
    outer = hir.guards_of(loop, body, sym) or []
    dash_outside = any(("lit", "-") in set(hir.subterms(x[1])) for x in outer if x[0] in ("if", "arm") and isinstance(x[1], tuple))
    for ch in "KQkq-":
        if ch == "-" and dash_outside:
            continue
        if any(hir.fold(t, {cv: ("lit", ch)}) == ("lit", True) for _, t in rets):
            bad.append("refuses " + ch)
    return bad


def reader_rest(ctx, F, fn, body, sym):
    # T6 en passant: decoded file = letter - 'a'; rank table (if the reader has one) equals the writer's
    n_ep = 0
    for call, anc in hir.calls(body, "GameState::set_en_passant"):
        v = sym(call["args"][0])
        if hir.sym_int(v) == 8:
            continue
        n_ep += 1
        deps = hir.fmt(v, 400)
        # walk data dependence: the argument must be (byte - 97)
        from .common import dependence_nodes
        nodes = dependence_nodes(call["args"][0], fn["hir"])
        sub_a = any(n.get("k") == "Binary" and n["op"] == "-" and hir.strip(n["r"]).get("v") == 97 for n in nodes) or \
            any(n.get("k") == "MethodCall" and n["name"] in ("wrapping_sub", "checked_sub") and hir.strip(n["args"][0]).get("v") == 97 for n in nodes)
        ctx.check("C11.T6", "reader:en-passant-file=letter-'a'", sub_a, fn=READER, file=fn["file"], line=hir.line(call),
                  what="the en-passant file must be decoded as letter - 'a' (inverse of the writer's 'a' + file)",
                  found=deps)
    ctx.floor("C11.T6", "en-passant decoding sites in the reader", n_ep, 1)
    rank_tabs = []
    for n, anc in hir.walk(body):
        if n.get("k") == "Match":
            t = _match_table(sym(n))
            if t and set(t) == {PL + "White", PL + "Black"} and all(isinstance(v, (int, str)) for v in t.values()):
                vals = {k: (chr(v) if isinstance(v, int) and 48 <= v < 58 else v) for k, v in t.items()}
                if set(vals.values()) <= set("12345678") and sym(n["e"])[0] in ("var", "match", "field"):
                    rank_tabs.append((vals, n))
    for vals, n in rank_tabs:
        if set(vals.values()) & {"3", "6"}:
            ctx.check("C11.T6", "reader:en-passant-rank-by-side", vals == {PL + "White": "6", PL + "Black": "3"}, fn=READER,
                      file=fn["file"], line=hir.line(n),
                      what="the reader's en-passant rank table disagrees with the writer's (White to move <-> rank 6)",
                      expected={"White": "6", "Black": "3"}, found=vals)
    # T7: required fields
    lets = [n for n, _ in hir.walk(body) if n.get("k") == "SLet" and n.get("els") is not None and
            "next" in hir.fmt(sym(n["init"]), 200)]
    ctx.check("C11.T7", "reader:needs-four-fields", len(lets) >= 4, fn=READER, file=fn["file"],
              what="board, side, castling and en-passant fields must all be required", expected=">=4 let-else on terms.next()",
              found=len(lets))
