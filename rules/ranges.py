"""S4: forward interval analysis over one MIR body (dev configuration, overflow asserts present).

Sound over-approximation of the integer values of locals and of their fields: per program point a map
key -> (lo, hi) with key = (local, projection...) ; a key that is absent is unconstrained (type range).
Branch refinement through SwitchInt on comparison results, `Range::contains`, `char::is_ascii_digit`, enum
discriminants of `Position::new(..)` results (Some => both arguments in [0,7]) and of `Range::next` results;
call summaries for the small pure crate functions; widening at loop heads.  Used to discharge arithmetic-overflow
and precondition obligations; anything it cannot bound stays undischarged (never the other way round).
"""
from . import mir

INT = {"u8": (0, 255), "u16": (0, 65535), "u32": (0, 2**32 - 1), "u64": (0, 2**64 - 1), "usize": (0, 2**64 - 1), "u128": (0, 2**128 - 1),
       "i8": (-128, 127), "i16": (-32768, 32767), "i32": (-2**31, 2**31 - 1), "i64": (-2**63, 2**63 - 1), "isize": (-2**63, 2**63 - 1),
       "i128": (-2**127, 2**127 - 1), "bool": (0, 1), "char": (0, 0x10FFFF)}

SUMMARIES = {
    "chess::position::Position::row": (0, 7),
    "chess::position::Position::col": (0, 7),
    "chess::position::Position::as_usize": (0, 63),
    "chess::gamestate::GameState::en_passant": (0, 15),
    "chess::piece::Piece::as_index": (0, 11),
}


BOTTOM = (float("inf"), float("-inf"))     # empty interval: join identity (payload of a variant that was not constructed)


def ty_range(ty):
    return INT.get(ty)


class Analysis:
    def __init__(self, fn, widen_after=12):
        self.fn = fn
        self.cfg = mir.Cfg(fn)
        self.m = fn["mir"]
        self.locals = self.m["locals"]
        self.widen_after = widen_after
        self.def1 = self._single_defs()
        self.state_in = {}
        self.obligations = []     # (block, kind, ok, detail)
        self.visits = {}

    # ---------------------------------------------------------------- helpers
    def _single_defs(self):
        count, d = {}, {}
        for bi, b in enumerate(self.m["blocks"]):
            for s in b["stmts"]:
                if s["k"] == "Assign" and not s["place"].get("p"):
                    l = s["place"]["l"]
                    count[l] = count.get(l, 0) + 1
                    d[l] = ("rv", s["rv"], bi)
            t = b["term"]
            if t["k"] == "Call" and t.get("dest") and not t["dest"].get("p"):
                l = t["dest"]["l"]
                count[l] = count.get(l, 0) + 1
                d[l] = ("call", t, bi)
        return {l: v for l, v in d.items() if count[l] == 1}

    def key(self, place, st):
        """Canonical key of a place under the current reference facts (None if it goes through an unknown index)."""
        l = place["l"]
        proj = ()
        for p in place.get("p") or ():
            if p == "*":
                r = self.ref_target(l) if not proj else None
                if r is not None:
                    l, proj = r[0], tuple(r[1:])
                else:
                    proj = proj + ("*",)
            elif isinstance(p, dict) and "f" in p:
                proj = proj + (p["f"],)
            elif isinstance(p, dict) and "variant" in p:
                proj = proj + ("as " + p["variant"],)
            elif isinstance(p, dict) and "cidx" in p:
                proj = proj + ("[%d]" % p["cidx"],)
            else:
                return None
        return (l,) + proj

    def ref_target(self, l):
        d = self.def1.get(l)
        if d and d[0] == "rv" and d[1]["k"] in ("Ref", "RawPtr", "CopyForDeref"):
            k = self.key(d[1]["place"], None)
            return k
        if d and d[0] == "rv" and d[1]["k"] == "Use" and d[1]["op"].get("k") in ("copy", "move") and \
                self.locals[l]["ty"].startswith("&"):
            src = d[1]["op"]["place"]
            if not src.get("p"):
                return self.ref_target(src["l"])
        return None

    def place_ty(self, place):
        return place.get("ty")

    def get(self, st, key, ty=None):
        if key is not None and key in st:
            return st[key]
        return ty_range(ty) if ty else None

    def operand(self, op, st):
        if op is None:
            return None
        if op.get("k") == "const":
            c = op.get("c") or {}
            if c.get("int") is not None:
                return (c["int"], c["int"])
            return ty_range(c.get("ty"))
        if op.get("k") in ("copy", "move"):
            pl = op["place"]
            return self.get(st, self.key(pl, st), pl.get("ty"))
        return None

    # ---------------------------------------------------------------- transfer
    def rvalue(self, rv, st, dest_ty):
        k = rv["k"]
        if k == "Use":
            return self.operand(rv["op"], st)
        if k == "Cast":
            v = self.operand(rv["op"], st)
            tr = ty_range(rv.get("to"))
            if v is None or tr is None:
                return tr
            if rv.get("ck") in ("IntToInt",) or True:
                if tr[0] <= v[0] and v[1] <= tr[1]:
                    return v
                return tr
        if k == "BinaryOp":
            a, b = self.operand(rv["a"], st), self.operand(rv["b"], st)
            op = rv["op"]
            base = op.replace("WithOverflow", "").replace("Unchecked", "")
            if base in ("Add", "Sub", "Mul") and a is not None and b is not None:
                if base == "Add":
                    r = (a[0] + b[0], a[1] + b[1])
                elif base == "Sub":
                    r = (a[0] - b[1], a[1] - b[0])
                else:
                    c = [a[0] * b[0], a[0] * b[1], a[1] * b[0], a[1] * b[1]]
                    r = (min(c), max(c))
                return ("math", r)
            if base == "BitAnd":
                cands = [x[1] for x in (a, b) if x is not None and x[0] >= 0]
                if cands:
                    return (0, min(cands))
            if base == "BitOr" and a is not None and b is not None and a[0] >= 0 and b[0] >= 0:
                return (max(a[0], b[0]), (1 << max(a[1], b[1]).bit_length()) - 1)
            if base == "Shr" and a is not None and b is not None and a[0] >= 0 and b[0] == b[1] and 0 <= b[0] < 128:
                return (a[0] >> b[0], a[1] >> b[0])
            if base == "Shl" and a is not None and b is not None and a[0] >= 0 and b[0] == b[1] and 0 <= b[0] < 64:
                return ("math", (a[0] << b[0], a[1] << b[0]))
            if base in ("Lt", "Le", "Gt", "Ge", "Eq", "Ne"):
                return (0, 1)
            return None
        if k == "Discriminant":
            return None
        if k == "UnaryOp":
            a = self.operand(rv["a"], st)
            if rv["op"] == "Not" and dest_ty == "bool":
                return (0, 1)
            if rv["op"] == "Neg" and a is not None:
                return ("math", (-a[1], -a[0]))
            return None
        return None

    def assign(self, place, val, st):
        key = self.key(place, st)
        if key is None:
            return
        # kill sub-keys
        for k2 in [k for k in st if k[:len(key)] == key]:
            del st[k2]
        if val is not None:
            tr = ty_range(place.get("ty"))
            if tr is not None:
                val = (max(val[0], tr[0]), min(val[1], tr[1]))
                if val[0] > val[1]:
                    return
            st[key] = val

    def step_stmt(self, s, st):
        if s["k"] != "Assign":
            return
        rv = s["rv"]
        dest = s["place"]
        dty = dest.get("ty")
        if rv["k"] == "Aggregate":
            key = self.key(dest, st)
            if key is not None:
                for k2 in [k for k in st if k[:len(key)] == key]:
                    del st[k2]
                names = rv.get("fields") or [str(i) for i in range(len(rv["ops"]))]
                if rv.get("ak") == "Adt" and rv.get("variant") and rv.get("adt", "").endswith(("Option", "Result")):
                    # payload of the constructed variant; the payloads of the other variant are vacuous (bottom joins as identity)
                    var = rv["variant"]
                    other = {"Some": (), "None": ("Some",), "Ok": ("Err",), "Err": ("Ok",)}.get(var, ())
                    for i_, op in enumerate(rv["ops"]):
                        v = self.operand(op, st)
                        if v is not None:
                            st[key + ("as " + var, str(i_))] = v
                    for o_ in other:
                        st[key + ("as " + o_, "0")] = BOTTOM
                else:
                    for nm, op in zip(names, rv["ops"]):
                        v = self.operand(op, st)
                        if v is not None:
                            st[key + (nm,)] = v
            return
        v = self.rvalue(rv, st, dty)
        if isinstance(v, tuple) and v and v[0] == "math":
            r = v[1]
            if dty and dty.startswith("("):      # (T, bool) of a checked op: field 0 = result
                key = self.key(dest, st)
                inner = dty[1:].split(",")[0].strip()
                tr = ty_range(inner)
                if key is not None:
                    for k2 in [k for k in st if k[:len(key)] == key]:
                        del st[k2]
                    if tr and tr[0] <= r[0] and r[1] <= tr[1]:
                        st[key + ("0",)] = r
                        st[key + ("1",)] = (0, 0)
                    else:
                        st[key + ("1",)] = (0, 1)
                return
            tr = ty_range(dty)
            if tr and (r[0] < tr[0] or r[1] > tr[1]):
                v = tr          # wraps (release semantics)
            else:
                v = r
        if rv["k"] == "Use" and rv["op"].get("k") in ("copy", "move"):
            # struct copy: copy known sub-keys
            src = self.key(rv["op"]["place"], st)
            dk = self.key(dest, st)
            if src is not None and dk is not None:
                subs = [(k, val) for k, val in st.items() if k[:len(src)] == src and len(k) > len(src)]
                for k2 in [k for k in st if k[:len(dk)] == dk]:
                    del st[k2]
                for k, val in subs:
                    st[dk + k[len(src):]] = val
                if v is not None:
                    self.assign(dest, v, st) if not subs else st.__setitem__(dk, v)
                return
        self.assign(dest, v, st)

    def call(self, t, st):
        c = mir.callee(t)
        dest = t.get("dest")
        val = None
        if c in SUMMARIES:
            val = SUMMARIES[c]
        elif c.endswith("slice::<impl [T]>::len") and t["args"] and t["args"][0].get("k") in ("copy", "move") and not t["args"][0]["place"].get("p"):
            # length of a slice that is an unsized array reference: the array's length
            import re as _re
            l0 = t["args"][0]["place"]["l"]
            for _ in range(4):
                d = self.def1.get(l0)
                if not d or d[0] != "rv":
                    break
                rv0 = d[1]
                if rv0["k"] == "Cast" and "Unsize" in str(rv0.get("ck")):
                    m_ = _re.search(r";\s*(\d+)\]$", str(rv0.get("from", "")).strip())
                    if m_:
                        val = (int(m_.group(1)), int(m_.group(1)))
                    break
                if rv0["k"] == "Use" and rv0["op"].get("k") in ("copy", "move") and not rv0["op"]["place"].get("p"):
                    l0 = rv0["op"]["place"]["l"]
                    continue
                break
        elif c.endswith("<impl i8>::abs") or c.endswith("::abs"):
            a = self.operand(t["args"][0], st) if t["args"] else None
            if a is not None:
                val = (0 if a[0] <= 0 <= a[1] else min(abs(a[0]), abs(a[1])), max(abs(a[0]), abs(a[1])))
        elif c.endswith("IntoIterator>::into_iter") or c.endswith("IntoIterator::into_iter") or c.endswith("Iterator::rev"):
            # identity on ranges: copy the fields
            a = t["args"][0]
            if a.get("k") in ("copy", "move") and dest is not None:
                src, dk = self.key(a["place"], st), self.key(dest, st)
                if src is not None and dk is not None:
                    subs = [(k, v) for k, v in st.items() if k[:len(src)] == src and len(k) > len(src)]
                    for k2 in [k for k in st if k[:len(dk)] == dk]:
                        del st[k2]
                    for k, v in subs:
                        st[dk + k[len(src):]] = v
                    return
        if dest is not None:
            key = self.key(dest, st)
            if key is not None:
                for k2 in [k for k in st if k[:len(key)] == key]:
                    del st[k2]
                if val is not None:
                    st[key] = val
        # a call through `&mut x` may change x: forget what is known about mutably borrowed locals passed in
        for a in t["args"]:
            if a.get("k") in ("copy", "move"):
                l = a["place"]["l"]
                if self.locals[l]["ty"].startswith("&mut"):
                    r = self.ref_target(l)
                    if r is not None and not (c.endswith("Iterator>::next") or c.endswith("Iterator::next")):
                        for k2 in [k for k in st if k[:len(r)] == r]:
                            del st[k2]

    # ---------------------------------------------------------------- refinement
    def refine_cmp(self, op, a_op, b_op, truth, st):
        """Refine operands of `a op b` being `truth`."""
        inv = {"Lt": "Ge", "Le": "Gt", "Gt": "Le", "Ge": "Lt", "Eq": "Ne", "Ne": "Eq"}
        if not truth:
            op = inv[op]
        a, b = self.operand(a_op, st), self.operand(b_op, st)

        def setk(operand, lo=None, hi=None):
            if operand.get("k") not in ("copy", "move"):
                return
            pl = operand["place"]
            key = self.key(pl, st)
            if key is None:
                return
            cur = self.get(st, key, pl.get("ty"))
            if cur is None:
                cur = (-10**40, 10**40)
            nlo = cur[0] if lo is None else max(cur[0], lo)
            nhi = cur[1] if hi is None else min(cur[1], hi)
            if nlo <= nhi:
                st[key] = (nlo, nhi)
                # propagate to the variable this temporary was copied from (same block copies)
                d = self.def1.get(pl["l"]) if not pl.get("p") else None
                if d and d[0] == "rv" and d[1]["k"] == "Use" and d[1]["op"].get("k") in ("copy", "move"):
                    k2 = self.key(d[1]["op"]["place"], st)
                    if k2 is not None:
                        c2 = self.get(st, k2, d[1]["op"]["place"].get("ty")) or (-10**40, 10**40)
                        l2, h2 = max(c2[0], nlo), min(c2[1], nhi)
                        if l2 <= h2:
                            st[k2] = (l2, h2)
        if op == "Lt":
            if b is not None:
                setk(a_op, hi=b[1] - 1)
            if a is not None:
                setk(b_op, lo=a[0] + 1)
        elif op == "Le":
            if b is not None:
                setk(a_op, hi=b[1])
            if a is not None:
                setk(b_op, lo=a[0])
        elif op == "Gt":
            if b is not None:
                setk(a_op, lo=b[0] + 1)
            if a is not None:
                setk(b_op, hi=a[1] - 1)
        elif op == "Ge":
            if b is not None:
                setk(a_op, lo=b[0])
            if a is not None:
                setk(b_op, hi=a[1])
        elif op == "Eq":
            if b is not None:
                setk(a_op, lo=b[0], hi=b[1])
            if a is not None:
                setk(b_op, lo=a[0], hi=a[1])
        elif op == "Ne":
            # point exclusion at an end of the interval
            if b is not None and b[0] == b[1] and a is not None:
                if a[0] == b[0]:
                    setk(a_op, lo=a[0] + 1)
                elif a[1] == b[0]:
                    setk(a_op, hi=a[1] - 1)

    def refine_local(self, l, value, st, depth=0):
        """The (single-def) local l has the integer value `value` on this edge (bool: 0/1; discriminant: variant index)."""
        if depth > 6:
            return
        d = self.def1.get(l)
        if not d:
            return
        if d[0] == "rv":
            rv = d[1]
            if rv["k"] == "BinaryOp" and rv["op"] in ("Lt", "Le", "Gt", "Ge", "Eq", "Ne") and value in (0, 1):
                self.refine_cmp(rv["op"], rv["a"], rv["b"], value == 1, st)
            elif rv["k"] == "UnaryOp" and rv["op"] == "Not" and rv["a"].get("k") in ("copy", "move") and value in (0, 1):
                self.refine_local(rv["a"]["place"]["l"], 1 - value, st, depth + 1)
            elif rv["k"] == "Use" and rv["op"].get("k") in ("copy", "move") and not rv["op"]["place"].get("p"):
                self.refine_local(rv["op"]["place"]["l"], value, st, depth + 1)
            elif rv["k"] == "Discriminant":
                pl = rv["place"]
                if not pl.get("p"):
                    self.refine_option(pl["l"], value, st)
        elif d[0] == "call":
            t = d[1]
            c = mir.callee(t)
            if c.endswith("Range<Idx>>::contains") or c.endswith("::contains") and "Range" in c:
                if value == 1 and len(t["args"]) == 2:
                    rk = self._deref_key(t["args"][0], st)
                    xk = self._deref_key(t["args"][1], st)
                    if rk is not None and xk is not None:
                        lo = st.get(rk + ("start",))
                        hi = st.get(rk + ("end",))
                        if lo is not None and hi is not None:
                            cur = st.get(xk, (-10**40, 10**40))
                            n = (max(cur[0], lo[0]), min(cur[1], hi[1] - 1))
                            if n[0] <= n[1]:
                                st[xk] = n
            elif c.endswith("is_ascii_digit") and value == 1:
                xk = self._deref_key(t["args"][0], st)
                if xk is not None:
                    cur = st.get(xk, (-10**40, 10**40))
                    st[xk] = (max(cur[0], 48), min(cur[1], 57))

    def _deref_key(self, op, st):
        if op.get("k") not in ("copy", "move"):
            return None
        pl = op["place"]
        if pl.get("p"):
            return self.key(pl, st)
        r = self.ref_target(pl["l"])
        if r is not None:
            return r
        # promoted constant range `&(0..8)`: a const operand behind a ref
        d = self.def1.get(pl["l"])
        return None

    def refine_option(self, l, variant, st):
        """Local l is an Option/enum with known variant index on this edge."""
        d = self.def1.get(l)
        if not d or d[0] != "call":
            return
        t = d[1]
        c = mir.callee(t)
        if c == "chess::position::Position::new" and variant == 1:
            for a in t["args"]:
                if a.get("k") in ("copy", "move"):
                    k = self.key(a["place"], st)
                    if k is not None:
                        cur = st.get(k, (-10**40, 10**40))
                        st[k] = (max(cur[0], 0), min(cur[1], 7))
                        dd = self.def1.get(a["place"]["l"]) if not a["place"].get("p") else None
                        if dd and dd[0] == "rv" and dd[1]["k"] == "Use" and dd[1]["op"].get("k") in ("copy", "move"):
                            k2 = self.key(dd[1]["op"]["place"], st)
                            if k2 is not None:
                                c2 = st.get(k2, (-10**40, 10**40))
                                st[k2] = (max(c2[0], 0), min(c2[1], 7))
        if (c.endswith("Iterator>::next") or c.endswith("Iterator::next")) and variant == 1:
            rk = self._deref_key(t["args"][0], st)
            if rk is not None:
                lo, hi = st.get(rk + ("start",)), st.get(rk + ("end",))
                if lo is not None and hi is not None and hi[1] - 1 >= lo[0]:
                    st[(l, "as Some", "0")] = (lo[0], hi[1] - 1)

    # ---------------------------------------------------------------- driver
    def run(self, entry_facts=None):
        cfg = self.cfg
        self.state_in = {0: dict(entry_facts or {})}
        work = [0]
        self.obligations = []
        obl = {}
        while work:
            b = work.pop()
            st = dict(self.state_in[b])
            blk = cfg.blocks[b]
            for s in blk["stmts"]:
                self.step_stmt(s, st)
            t = blk["term"]
            outs = []
            if t["k"] == "Call":
                self.call(t, st)
                outs = [(x, st) for x in cfg.succ[b]]
            elif t["k"] == "Assert":
                ok, detail = self.check_assert(t, st)
                obl[b] = (t["msg"], ok, detail, mir.span_line(t))
                outs = [(t["target"], st)]
            elif t["k"] == "SwitchInt":
                d = t["discr"]
                seen_vals = []
                for val, bb in t["targets"]:
                    s2 = dict(st)
                    self.edge(d, val, s2, exact=True)
                    seen_vals.append(val)
                    outs.append((bb, s2))
                s2 = dict(st)
                # otherwise: for booleans the remaining value
                dty = (d.get("place") or {}).get("ty") or t.get("discr_ty")
                if dty == "bool" and len(seen_vals) == 1:
                    self.edge(d, 1 - seen_vals[0], s2, exact=True)
                elif len(seen_vals) == 1 and t.get("discr_ty") in ("isize", "usize", "u8") and seen_vals[0] in (0, 1):
                    self.edge(d, 1 - seen_vals[0], s2, exact=False)
                outs.append((t["otherwise"], s2))
            else:
                outs = [(x, st) for x in cfg.succ[b]]
            for nb, s2 in outs:
                if nb is None or cfg.blocks[nb]["term"]["k"] == "Unreachable":
                    continue
                if nb not in self.state_in:
                    self.state_in[nb] = s2
                    work.append(nb)
                    continue
                old = self.state_in[nb]
                new = {}
                for k in old:
                    if k in s2:
                        lo, hi = min(old[k][0], s2[k][0]), max(old[k][1], s2[k][1])
                        new[k] = (lo, hi)
                if new != old:
                    for k in list(new):
                        if new[k] != old.get(k):
                            vk = (nb, k)
                            self.visits[vk] = self.visits.get(vk, 0) + 1
                            if self.visits[vk] > self.widen_after:      # widening, per variable
                                tr = ty_range(self.locals[k[0]]["ty"]) if len(k) == 1 else None
                                lo = new[k][0] if new[k][0] == old[k][0] else (tr[0] if tr else None)
                                hi = new[k][1] if new[k][1] == old[k][1] else (tr[1] if tr else None)
                                if lo is None or hi is None:
                                    del new[k]
                                else:
                                    new[k] = (lo, hi)
                    self.state_in[nb] = new
                    work.append(nb)
        self.obligations = [(b,) + v for b, v in sorted(obl.items())]
        return self

    def edge(self, discr, value, st, exact):
        if discr.get("k") not in ("copy", "move"):
            return
        pl = discr["place"]
        if pl.get("p"):
            return
        l = pl["l"]
        ty = self.locals[l]["ty"]
        d = self.def1.get(l)
        if d and d[0] == "rv" and d[1]["k"] == "Discriminant":
            src = d[1]["place"]
            if not src.get("p") and exact:
                self.refine_option(src["l"], value, st)
            return
        if ty == "bool" or (d and d[0] == "rv" and d[1]["k"] in ("BinaryOp", "UnaryOp")) or (d and d[0] == "call"):
            if exact:
                self.refine_local(l, value, st)
            return
        if ty in INT and exact:
            st[(l,)] = (value, value)

    def check_assert(self, t, st):
        msg = t["msg"]
        if msg.startswith("Overflow:"):
            a, b = [self.operand(x, st) for x in t["ops"]]
            op = msg.split(":")[1]
            ty = None
            for x in t["ops"]:
                if x.get("k") in ("copy", "move"):
                    ty = x["place"].get("ty")
                elif x.get("k") == "const" and ty is None:
                    ty = (x.get("c") or {}).get("ty")
            tr = ty_range(ty)
            if a is None or b is None or tr is None:
                return False, {"a": a, "b": b, "type": ty}
            if op == "Add":
                r = (a[0] + b[0], a[1] + b[1])
            elif op == "Sub":
                r = (a[0] - b[1], a[1] - b[0])
            elif op == "Mul":
                c = [a[0] * b[0], a[0] * b[1], a[1] * b[0], a[1] * b[1]]
                r = (min(c), max(c))
            elif op in ("Shl", "Shr"):
                # the overflow of a shift is the shift amount reaching the width of the shifted type (the value may lose bits silently)
                aty = None
                x0 = t["ops"][0]
                aty = (x0.get("place") or {}).get("ty") if x0.get("k") in ("copy", "move") else (x0.get("c") or {}).get("ty")
                width = {"u8": 8, "i8": 8, "u16": 16, "i16": 16, "u32": 32, "i32": 32, "u64": 64, "i64": 64, "usize": 64, "isize": 64,
                         "u128": 128, "i128": 128}.get(aty)
                return (width is not None and 0 <= b[0] and b[1] < width), {"shift": b, "width": width, "type": aty}
            else:
                return False, {"op": op}
            return (tr[0] <= r[0] and r[1] <= tr[1]), {"a": a, "b": b, "result": r, "type": ty}
        if msg == "BoundsCheck":
            ln, ix = [self.operand(x, st) for x in t["ops"]]
            if ln is None or ix is None:
                return False, {"len": ln, "index": ix}
            return (0 <= ix[0] and ix[1] < ln[0]), {"len": ln, "index": ix}
        if msg == "OverflowNeg":
            a = self.operand(t["ops"][0], st)
            ty = (t["ops"][0].get("place") or {}).get("ty")
            tr = ty_range(ty)
            return (a is not None and tr is not None and a[0] > tr[0]), {"a": a}
        return False, {"kind": msg}

    def args_at_call(self, block):
        """Intervals of the call arguments at the terminator of `block` (state after the block's statements)."""
        st = dict(self.state_in.get(block, {}))
        for s in self.cfg.blocks[block]["stmts"]:
            self.step_stmt(s, st)
        t = self.cfg.blocks[block]["term"]
        return [self.operand(a, st) for a in t.get("args", [])]
