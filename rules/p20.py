"""C20 - the board display and move record show what was actually played.

Decides: (Y1) promotion letters of the move record agree with their sibling table (Piece::as_str_pgn) and with
K Q R B N; (Y2) each arm of Move::pgn_notation builds a string from origin file, capture mark, destination,
promotion piece of *that* move (string-building summary per variant); (Y3) the diagram prints rows 8..1 labelled
row+1, files a..h left to right under the legend, cell = piece on (row, col), and the Hash/Fen/PGN lines take
hash / fen() / get_pgn() of the same game; (Y4) glyphs = Unicode chess block; (Y5) move numbering.
"""
from . import core, hir
from .common import (discr_map, sym_fn, emissions, fmt_writes, loop_binders, range_of, plain_guards)

LEVEL = "other"
EXPLANATION = ("String-building summaries (forward substitution through push/push_str, merged over if/match) of "
               "Move::pgn_notation per move kind and capture case, compared part by part with the record format; "
               "format-macro sites of Display for Game extracted with their loop context; letter/glyph tables case-folded.")

PT = "chess::piece::PieceType::"
PL = "chess::Player::"
MV = "chess::move_struct::Move::"
PGN = "chess::move_struct::Move::pgn_notation"
STD = {"King": "K", "Queen": "Q", "Rook": "R", "Bishop": "B", "Knight": "N", "Pawn": ""}
GLYPH = {("White", "King"): 0x2654, ("White", "Queen"): 0x2655, ("White", "Rook"): 0x2656, ("White", "Bishop"): 0x2657,
         ("White", "Knight"): 0x2658, ("White", "Pawn"): 0x2659, ("Black", "King"): 0x265A, ("Black", "Queen"): 0x265B,
         ("Black", "Rook"): 0x265C, ("Black", "Bishop"): 0x265D, ("Black", "Knight"): 0x265E, ("Black", "Pawn"): 0x265F}


def SELF(f):
    return ("field", ("var", "self"), f)


def col_of(src):
    return ("call", "chess::position::Position::col", (src,))


def row_of(src):
    return ("call", "chess::position::Position::row", (src,))


def is_file_char(part, src):
    """part == ch(('a' + src) as char) in either operand order."""
    if part[0] != "ch":
        return False
    x = part[1]
    if x[0] != "cast" or x[2] != "char":
        return False
    b = x[1]
    if b[0] != "bin" or b[1] != "+":
        return False
    ops = [b[2], b[3]]
    lit = [o for o in ops if o == ("lit", 97)]
    oth = [o for o in ops if o != ("lit", 97)]
    return len(lit) == 1 and len(oth) == 1 and oth[0] == ("cast", src, "u8")


def is_rank_text(part, src_row):
    """part == s((row + 1).to_string()) or ch(('1' + row) as char)."""
    if part[0] == "s":
        x = part[1]
        while x[0] == "call" and str(x[1]).endswith(("as_str", "deref", "borrow", "as_ref")):
            x = x[2][0]
        if x[0] == "call" and str(x[1]).endswith("to_string"):
            a = x[2][0]
            return a in (("bin", "+", src_row, ("lit", 1)), ("bin", "+", ("lit", 1), src_row))
        return False
    if part[0] == "ch":
        x = part[1]
        return x[0] == "cast" and x[1] in (("bin", "+", ("cast", src_row, "u8"), ("lit", 49)),
                                            ("bin", "+", ("lit", 49), ("cast", src_row, "u8")))
    return False


def lit_ch(part, c):
    return part == ("ch", ("lit", c))


def run(ctx):
    F = ctx.facts
    D = discr_map(F)
    y1(ctx, F, D)
    y2(ctx, F, D)
    y3(ctx, F)
    y3_show(ctx, F)
    # the `Fen:` line is Game::fen(): its fields must describe the game (writer rules of C11)
    from . import p11
    before, nv = len(ctx.instances), len(ctx.violations)
    p11._FACTS[0] = F
    em, _sym = emissions(F.fn(p11.WRITER), F, recv="result")
    p11.writer_board(ctx, F, em)
    p11.writer_fields(ctx, F, em)
    for i in ctx.instances[before:]:
        i["rule"] = "C20.Y3(" + i["rule"] + ")"
    for v in ctx.violations[nv:]:
        v["rule"] = "C20.Y3(" + v["rule"] + ")"
        v["key"] = "C20.Y3|" + v["key"]
    y4(ctx, F, D)
    y5(ctx, F)
    y6(ctx, F)


def history_plays_and_records(ctx, F, rule):
    """Game::push_history(m) plays m (one unconditional Game::push of its own argument) - recording a move without playing it, or
    playing another one, makes the record and the board disagree"""
    ph = F.fn("chess::Game::push_history")
    symp = hir.Sym(hir.Env(ph["hir"], F), F)
    params = [p_["pat"].get("name") for p_ in ph["hir"]["params"]]
    mv = params[1] if len(params) > 1 else None
    plays = [c for c, _ in hir.walk(ph["hir"]["body"]) if c.get("k") == "MethodCall" and hir.callee_of(c) == "chess::Game::push"]
    ok = len(plays) == 1 and mv is not None and symp(plays[0]["args"][0]) == ("var", mv) and \
        not [x for x in (hir.guards_of(plays[0], ph["hir"]["body"], symp) or []) if x[0] in ("if", "arm")]
    ctx.check(rule, "recording-a-move-plays-it", ok, fn=ph["path"], file=ph["file"], line=ph["span"][0],
              what="Game::push_history must play exactly the move it records (one unconditional Game::push of its argument)",
              expected="self.push(%s)" % mv, found=[hir.fmt(symp(c["args"][0]), 40) for c in plays])


def y6(ctx, F):
    """Y6 the move record lists the moves that were played and stayed played: a function that appends to the record
    (Game::push_history) never takes a move back itself (Game::pop does not shorten the record, so a recorded move that is taken
    back stays listed).  Y7 the `Hash:` line belongs to the position shown: the importer's hash rules of C04 (every square folded
    exactly once, keys of the position only) - a game loaded from text is displayed before any move is played."""
    from . import mir, p04
    g = mir.callgraph(F)
    rec = sorted(p for p, cs in g.items() if "chess::Game::push_history" in cs)
    ctx.floor("C20.Y6", "functions that record a move", len(rec), 1)
    for p in rec:
        ctx.check("C20.Y6", "recorded-moves-are-not-taken-back:%s" % p, "chess::Game::pop" not in g.get(p, ()), fn=p, file=F.fn(p)["file"],
                  line=F.fn(p)["span"][0],
                  what="a function records a move in the game's move list and can take a move back: the take-back restores the board but "
                       "not the list, so `show` lists a move that is not part of the game",
                  expected="no call of Game::pop next to Game::push_history", found=sorted(c for c in g.get(p, ()) if c.startswith("chess::Game::p")))
    # ... and every played move gets into the record: push_history appends to a list that can hold a whole game (the position
    # command accepts up to 400 plies) by an operation that cannot drop the move silently
    import re as _re
    ph = F.fn("chess::Game::push_history")
    symp = hir.Sym(hir.Env(ph["hir"], F), F)
    apps = [c for c, _ in hir.walk(ph["hir"]["body"]) if c.get("k") == "MethodCall" and c["name"] in ("push", "try_push", "push_unchecked", "insert", "extend")
            and hir.fmt(symp(c["recv"]), 60).endswith("move_stack")]
    fty = next((f_["ty"] for f_ in F.adt("chess::Game")["variants"][0]["fields"] if f_["name"] == "move_stack"), "")
    m_cap = _re.search(r"ArrayVec<.*,\s*(\d+)>", fty)
    cap = int(m_cap.group(1)) if m_cap else None
    ok = len(apps) == 1 and apps[0]["name"] in ("push", "push_unchecked") and (cap is None or cap >= 512) and \
        (fty.startswith(("std::vec::Vec<", "alloc::vec::Vec<")) or cap is not None)
    ctx.check("C20.Y6", "every-recorded-move-is-kept", ok, fn=ph["path"], file=ph["file"], line=ph["span"][0],
              what="the move record can lose a played move: it is appended by an operation that drops it when the list is full, or the list "
                   "cannot hold a whole game (the position command accepts 400 plies)",
              expected="Vec::push (or a fixed list of at least 512 entries, pushed infallibly)",
              found={"appends": [c["name"] for c in apps], "type": fty})
    history_plays_and_records(ctx, F, "C20.Y6")
    # the game that `show` depicts is the game of the session as the commands left it: nothing that runs in between (a search) may
    # leave moves played on it (C03.S2, the push/pop pairing of every function that plays moves)
    from . import p03
    before, nv = len(ctx.instances), len(ctx.violations)
    p03.s2(ctx, F)
    for i in ctx.instances[before:]:
        i["rule"] = "C20.Y8(" + i["rule"] + ")"
    for v in ctx.violations[nv:]:
        v["rule"] = "C20.Y8(" + v["rule"] + ")"
        v["key"] = "C20.Y8|" + v["key"]
    before, nv = len(ctx.instances), len(ctx.violations)
    p04.rule_k5(ctx, F)
    p04.rule_k6(ctx, F, parts=("rank", "slots", "final", "side"))
    for i in ctx.instances[before:]:
        i["rule"] = "C20.Y7(" + i["rule"] + ")"
    for v in ctx.violations[nv:]:
        v["rule"] = "C20.Y7(" + v["rule"] + ")"
        v["key"] = "C20.Y7|" + v["key"]


def y1(ctx, F, D):
    fn = F.fn("chess::piece::Piece::as_str_pgn")
    nf = sym_fn(fn, F)
    sib = {}
    for t, L in STD.items():
        v = hir.fold(nf, {SELF("piece_type"): ("variant", PT + t)}, D)
        sib[t] = v[1] if v[0] == "lit" else None
        ctx.check("C20.Y1", "as_str_pgn:%s" % t, v == ("lit", L), fn=fn["path"], file=fn["file"], line=fn["span"][0],
                  what="piece letter of the move record differs from the standard", expected=L, found=hir.fmt(v, 40))
    # promotion letters inside pgn_notation
    pg = F.fn(PGN)
    nf = sym_fn(pg, F)
    n = 0
    S_, E_ = SELF("start"), SELF("end")
    for t in ("Queen", "Rook", "Bishop", "Knight"):
        # the last character of the text recorded for a quiet promotion to t (wherever the letter comes from: a match in place,
        # a helper, the lower-case letter of the UCI text upper-cased)
        env = {col_of(S_): ("lit", 4), row_of(S_): ("lit", 6), col_of(E_): ("lit", 4), row_of(E_): ("lit", 7),
               ("call", "std::option::Option::<T>::is_some", (SELF("captured_piece"),)): ("lit", False), SELF("new_piece"): ("variant", PT + t)}
        txt = eval_text(nf, "Promotion", env, D)
        got = txt[-1] if txt else None
        n += 1 if txt else 0
        ctx.check("C20.Y1", "promotion-letter:%s" % t, got == STD[t] and got == sib.get(t), fn=PGN, file=pg["file"],
                  line=pg["span"][0],
                  what="the promotion piece is recorded with a letter that differs from the letter table of the same piece",
                  expected=STD[t], found=got)
    ctx.floor("C20.Y1", "promotion letters", n, 4)


def arm_of(nf, variant):
    """Body of the arm for Move::<variant> in the top-level `match self`."""
    if nf[0] != "match" or nf[1] != ("var", "self"):
        return None
    for pk, g, body in nf[2]:
        if pk == ("variant", MV + variant):
            return body
    return None


def find_match_on(t, scrut):
    if isinstance(t, tuple):
        if t and t[0] == "match" and t[1] == scrut:
            return t
        for x in t[1:]:
            if isinstance(x, tuple):
                r = find_match_on(x, scrut)
                if r is not None:
                    return r
    return None


def parts_of(t):
    return list(t[1:]) if isinstance(t, tuple) and t and t[0] == "str" else None


def eval_text(nf, variant, env, D):
    """Text the writer produces for a move of this kind under concrete field values (case folding), or None."""
    from .common import eval_move_text
    return eval_move_text(nf, variant, env, D)


def y2(ctx, F, D):
    """Each move kind is recorded with its piece letter, origin file, capture mark, destination and promotion piece: the string-building
    summary is folded for concrete field values and compared with the expected text."""
    pg = F.fn(PGN)
    nf = sym_fn(pg, F)
    ok = nf[0] == "match" and nf[1] == ("var", "self")
    ctx.check("C20.Y2", "summary-shape", ok, fn=PGN, file=pg["file"], line=pg["span"][0], nontrivial=False,
              what="Move::pgn_notation is not a `match self` over the move kinds that can be summarised", found=hir.fmt(nf, 200))
    if not ok:
        return
    S, E = SELF("start"), SELF("end")
    cap = ("call", "std::option::Option::<T>::is_some", (SELF("captured_piece"),))
    letters = {"King": "K", "Queen": "Q", "Rook": "R", "Bishop": "B", "Knight": "N", "Pawn": ""}
    n = 0

    def env_for(r1, c1, r2, c2, captured):
        return {col_of(S): ("lit", c1), row_of(S): ("lit", r1), col_of(E): ("lit", c2), row_of(E): ("lit", r2), cap: ("lit", captured)}
    samples = [(0, 6, 2, 5), (6, 1, 4, 1), (3, 3, 4, 4), (7, 0, 0, 7)]
    for captured in (True, False):
        bad = []
        for kind, L in letters.items():
            for (r1, c1, r2, c2) in samples:
                env = env_for(r1, c1, r2, c2, captured)
                env[("call", "chess::piece::Piece::as_str_pgn", (SELF("piece"),))] = ("lit", L)
                got = eval_text(nf, "Normal", env, D)
                want = L + chr(97 + c1) + ("x" if captured else "") + chr(97 + c2) + str(r2 + 1)
                if got != want:
                    bad.append((kind, (r1, c1, r2, c2), got, want))
        n += 1
        ctx.check("C20.Y2", "Normal:%s" % ("capture" if captured else "quiet"), not bad, fn=PGN, file=pg["file"], line=pg["span"][0],
                  what="a normal move must be recorded as piece letter, origin file, 'x' iff capture, destination file and rank",
                  expected="e.g. Ngf3 / exd5", found=bad[:3])
        bad = []
        for kind in ("Queen", "Rook", "Bishop", "Knight"):
            for (r1, c1, r2, c2) in ((6, 4, 7, 3), (1, 0, 0, 1)):
                env = env_for(r1, c1, r2, c2, captured)
                env[SELF("new_piece")] = ("variant", PT + kind)
                got = eval_text(nf, "Promotion", env, D)
                want = chr(97 + c1) + ("x" if captured else "") + chr(97 + c2) + str(r2 + 1) + "=" + letters[kind]
                if got != want:
                    bad.append((kind, (r1, c1, r2, c2), got, want))
        n += 1
        ctx.check("C20.Y2", "Promotion:%s" % ("capture" if captured else "quiet"), not bad, fn=PGN, file=pg["file"], line=pg["span"][0],
                  what="a promotion must be recorded as origin file, 'x' iff capture, destination, '=' and the piece promoted to",
                  expected="e.g. exd8=Q", found=bad[:3])
    for owner, rank in (("White", "6"), ("Black", "3")):
        bad = []
        for c1, c2 in ((4, 3), (0, 1), (7, 6)):
            got = eval_text(nf, "EnPassant", {SELF("owner"): ("variant", PL + owner), SELF("start_col"): ("lit", c1), SELF("end_col"): ("lit", c2)}, D)
            want = chr(97 + c1) + "x" + chr(97 + c2) + rank
            if got != want:
                bad.append(((c1, c2), got, want))
        n += 1
        ctx.check("C20.Y2", "EnPassant:%s" % owner, not bad, fn=PGN, file=pg["file"], line=pg["span"][0],
                  what="an en-passant capture must be recorded as origin file, 'x', destination file and rank 6 (White) / 3 (Black)",
                  expected="e.g. exd%s" % rank, found=bad[:3])
    for variant, text in (("CastlingShort", "O-O"), ("CastlingLong", "O-O-O")):
        got = eval_text(nf, variant, {}, D)
        n += 1
        ctx.check("C20.Y2", variant, got == text, fn=PGN, file=pg["file"], line=pg["span"][0],
                  what="castling must be recorded as %s" % text, expected=text, found=got)
    ctx.floor("C20.Y2", "move-record cases", n, 8)


def _lits(t):
    for x in hir.subterms(t):
        if len(x) == 2 and x[0] == "lit" and isinstance(x[1], str):
            yield x[1]


def y3(ctx, F):
    fn = F.fn("<chess::Game as std::fmt::Display>::fmt")
    ws, sym = fmt_writes(fn, F)
    ctx.floor("C20.Y3", "format sites in Display for Game", len(ws), 8)
    P = fn["path"]

    def site(pred):
        return [w for w in ws if pred(w)]
    # header lines
    for label, want in (("Hash:", SELF("hash")), ("Fen:", ("call", "chess::Game::fen", (("var", "self"),))),
                        ("PGN:", ("call", "chess::Game::get_pgn", (("var", "self"),)))):
        s = site(lambda w: w[1] and label in w[1])
        ok = len(s) == 1 and len(s[0][2]) == 1 and s[0][2][0][1] == want and not s[0][3]
        ctx.check("C20.Y3", "line:%s" % label, ok, fn=P, file=fn["file"], line=hir.line(s[0][0]) if s else None,
                  what="the `%s` line must print %s of the game being shown" % (label, hir.fmt(want, 60)),
                  expected=hir.fmt(want, 60), found=[(w[1], [hir.fmt(a[1], 80) for a in w[2]]) for w in s])
    hx = site(lambda w: w[1] and "Hash:" in w[1])
    ctx.check("C20.Y3", "hash-in-upper-hex", bool(hx) and hx[0][2] and hx[0][2][0][0] == "new_upper_hex", fn=P, file=fn["file"],
              what="the hash line is printed in upper-case hex (README format)", found=hx[0][2][0][0] if hx and hx[0][2] else None)
    # cells
    cells = site(lambda w: len(loop_binders(w[3])) == 2)
    ok = len(cells) == 1
    ctx.check("C20.Y3", "one-cell-site", ok, fn=P, file=fn["file"], what="exactly one format site inside the (row, col) loops",
              found=len(cells), nontrivial=False)
    if ok:
        n, text, args, guards = cells[0]
        loops = loop_binders(guards)
        outer, inner = range_of(loops[0][0]), range_of(loops[1][0])
        rowv, colv = (loops[0][1] or ("?",))[0], (loops[1][1] or ("?",))[0]
        ctx.check("C20.Y3", "rows-8-down-to-1", outer == (0, 8, True), fn=P, file=fn["file"], line=hir.line(n),
                  what="the diagram must print row 7 (rank 8) first", expected="(0..8).rev()", found=hir.fmt(loops[0][0], 80))
        ctx.check("C20.Y3", "files-a-to-h", inner == (0, 8, False), fn=P, file=fn["file"], line=hir.line(n),
                  what="the diagram must print files left to right a..h", expected="0..8", found=hir.fmt(loops[1][0], 80))
        a = args[0][1] if args else ("none",)
        want_sq = ("call", "chess::position::Position::new_assert", (("var", rowv), ("var", colv)))
        sq_ok = _contains(a, ("call", "chess::Game::get_position", (("var", "self"), want_sq)))
        gp = ("call", "chess::Game::get_position", (("var", "self"), want_sq))
        # the plain form `{}` is what `show` prints; an alternate form `{:#}` (if the code asks for it) may use another rendering of
        # the same piece
        # a local chosen from the formatter's flags (`let glyph = if f.alternate() {..} else {..}`): the flags do not change while
        # the value is being formatted, so the local is its initialiser
        symT = hir.Sym(hir.Env(fn["hir"], F), F, through=True)
        for x, _ in hir.walk(fn["hir"]["body"]):
            if x.get("k") == "SLet" and x["pat"].get("k") == "PBind" and x.get("init") is not None and _contains(a, ("var", x["pat"]["name"])):
                iv = symT(x["init"])
                if any(isinstance(t, tuple) and t[:1] == ("call",) and ("fmt::Formatter" in str(t[1]) and str(t[1]).endswith("::alternate")) for t in hir.subterms(iv)):
                    a = hir.subst(a, {("var", x["pat"]["name"]): iv})
        alt = {t for t in hir.subterms(a) if isinstance(t, tuple) and t[:1] == ("call",) and ("fmt::Formatter" in str(t[1]) and str(t[1]).endswith("::alternate"))}
        plain = {t: ("lit", False) for t in alt}
        v_none = hir.fold(a, {**plain, gp: ("variant", "std::prelude::v1::None")})
        v_some = hir.fold(a, {**plain, gp: ("ctor", "std::prelude::v1::Some", (("var", "P"),))})
        glyph_ok = v_none == ("lit", " ") and v_some == ("call", "chess::piece::Piece::as_char", (("var", "P"),))
        if alt and glyph_ok:
            other = {t: ("lit", True) for t in alt}
            w_none = hir.fold(a, {**other, gp: ("variant", "std::prelude::v1::None")})
            w_some = hir.fold(a, {**other, gp: ("ctor", "std::prelude::v1::Some", (("var", "P"),))})
            glyph_ok = w_none == ("lit", " ") and w_some[:1] == ("call",) and str(w_some[1]).startswith("chess::piece::Piece::") and \
                w_some[2] == (("var", "P"),)
        ctx.check("C20.Y3", "cell=piece-on-(row,col)", sq_ok, fn=P, file=fn["file"], line=hir.line(n),
                  what="the cell printed at (row, col) is not the piece standing on (row, col)",
                  expected="get_position(new_assert(%s, %s))" % (rowv, colv), found=hir.fmt(a, 300))
        ctx.check("C20.Y3", "cell-glyph-or-blank", glyph_ok, fn=P, file=fn["file"], line=hir.line(n),
                  what="a cell shows the piece's glyph, or a blank for an empty square", found=hir.fmt(a, 300))
        # row label
        # (only prints inside the row loop of the diagram: another loop elsewhere in the display is not a row label)
        labels = site(lambda w: len(loop_binders(w[3])) == 1 and w[2] and loop_binders(w[3])[0][0] == loops[0][0])
        lab_ok = len(labels) == 1 and labels[0][2][0][1] in (("bin", "+", ("var", rowv), ("lit", 1)), ("bin", "+", ("lit", 1), ("var", rowv)))
        ctx.check("C20.Y3", "row-label=row+1", lab_ok, fn=P, file=fn["file"], line=hir.line(labels[0][0]) if labels else None,
                  what="each printed row must be labelled with its rank (row + 1)", expected="%s + 1" % rowv,
                  found=[hir.fmt(w[2][0][1], 60) for w in labels])
        # each row of the diagram is a line of its own
        ends = site(lambda w: len(loop_binders(w[3])) == 1 and loop_binders(w[3])[0][0] == loops[0][0] and w[1] and "\n" in w[1])
        ctx.check("C20.Y3", "row-ends-its-line", bool(ends), fn=P, file=fn["file"], line=hir.line(n),
                  what="the rows of the diagram are not separated by line breaks: the eight ranks run into one line",
                  expected="a line break printed once per row", found=[w[1] for w in ws if len(loop_binders(w[3])) == 1])
    legend = site(lambda w: w[1] and "a b c d e f g h" in w[1] and not loop_binders(w[3]))
    ctx.check("C20.Y3", "legend-a-to-h", len(legend) == 1, fn=P, file=fn["file"],
              what="the file legend `a b c d e f g h` must be printed once under the diagram", found=[w[1] for w in ws if w[1] and "a b" in w[1]])


def y3_show(ctx, F):
    fn = F.fn("uci::command_show")
    ws, sym = fmt_writes(fn, F)
    ok = len(ws) >= 1
    src = None
    for w in ws:
        # every print of the command (there may be several forms of the same display) shows the session's current game
        okw = bool(w[2]) and w[2][0][0] == "new_display"
        if okw:
            g = [x[1] for x in w[3] if x[0] == "if" and x[2] is True and x[1][0] == "let"]
            arg = w[2][0][1]
            okw = len(g) == 1 and bool(g[0][3]) and arg == ("var", g[0][3][0]) and "data.current_game" in hir.fmt(g[0][2], 120)
            src = hir.fmt(g[0][2], 120) if g else None
        ok = ok and okw
    ctx.check("C20.Y3", "show-prints-the-session's-current-game", ok, fn=fn["path"], file=fn["file"],
              what="`show` must print the Display of the session's current game", found=src)
    talk = F.fn("uci::uci_talk")
    sites = hir.calls(talk["hir"]["body"], "uci::command_show")
    ctx.check("C20.Y3", "show-command-dispatches-to-command_show", len(sites) == 1, fn=talk["path"], file=talk["file"], nontrivial=False,
              what="the `show` command must call command_show", found=len(sites))


def _contains(t, sub):
    return hir.contains(t, sub)


def y4(ctx, F, D):
    fn = F.fn("chess::piece::Piece::as_char")
    nf = sym_fn(fn, F)
    for (o, t), cp in GLYPH.items():
        v = hir.fold(nf, {SELF("owner"): ("variant", PL + o), SELF("piece_type"): ("variant", PT + t)}, D, hir.table_helpers(F))
        ctx.check("C20.Y4", "glyph:%s %s" % (o, t), v == ("lit", chr(cp)), fn=fn["path"], file=fn["file"], line=fn["span"][0],
                  what="the diagram glyph is not the Unicode chess symbol of that piece", expected="U+%04X" % cp,
                  found=hir.fmt(v, 40))


def y5(ctx, F):
    fn = F.fn("chess::Game::get_pgn")
    em, sym = emissions(fn, F, recv="s")
    ctx.floor("C20.Y5", "emissions in get_pgn", len(em), 3)
    nums = [e for e in em if e[2][0] == "call" and "to_string" in str(e[2][1]) or
            (e[2][0] == "call" and str(e[2][1]).endswith("as_str") and "to_string" in hir.fmt(e[2], 200))]
    ok = False
    found = None
    if nums:
        e = nums[0]
        g = [x for x in plain_guards(e[3]) if x[0] == "if"]
        found = (hir.fmt(e[2], 120), [(hir.fmt(x[1], 60), x[2]) for x in g])
        idx = None
        lb = loop_binders(e[3])
        names = lb[0][1] if lb else ()
        txt = hir.fmt(e[2], 200)
        for nm in names:
            if "((%s / 2) + 1)" % nm in txt and [(("((%s %% 2) == 0)" % nm), True)] == found[1]:
                ok = True
    ctx.check("C20.Y5", "move-number-before-white-moves", ok, fn=fn["path"], file=fn["file"], line=fn["span"][0],
              what="move numbers must be i/2+1, written before every even-indexed (White) move",
              expected="push_str((i/2+1).to_string()) under i % 2 == 0", found=found)
    # every move text is emitted unconditionally inside the loop, from the moves of move_stack in order
    symt = hir.Sym(hir.Env(fn["hir"], F), F, through=True)
    mv = []
    src_ok = False
    for e in em:
        lb = loop_binders(e[3])
        if len(lb) != 1:
            continue
        arg_t = hir.fmt(symt(e[0]["args"][0]), 300)
        it_t = hir.fmt(lb[0][0], 400)
        # the iterable may be a local (`let moves = ...collect()`): look through it
        it_full = it_t
        for n, anc in hir.walk(fn["hir"]["body"]):
            if n.get("k") == "SLet" and n["pat"].get("k") == "PBind" and ("(%s)" % n["pat"]["name"]) in it_t and n.get("init") is not None:
                it_full = it_t + " <- " + hir.fmt(symt(n["init"]), 400)
        names = lb[0][1]
        elem = [nm for nm in names if ("(%s)" % nm) in arg_t or arg_t == nm]
        if ("pgn_notation" in arg_t or "pgn_notation" in it_full) and elem and "to_string" not in arg_t:
            mv.append(e)
            src_ok = "move_stack" in it_full and "pgn_notation" in (arg_t + it_full) and \
                not any(w in it_full for w in ("rev(", "skip(", "take(", "filter(", "step_by(", "skip_while(", "take_while("))
    ok = len(mv) == 1 and not [x for x in plain_guards(mv[0][3]) if x[0] == "if"]
    ctx.check("C20.Y5", "every-move-recorded-in-order", ok and src_ok, fn=fn["path"], file=fn["file"], line=fn["span"][0],
              what="the record must contain pgn_notation of every move of the move stack, in order",
              found={"unconditional_emit": ok, "source_is_move_stack_mapped_through_pgn_notation": src_ok})
    # consecutive move texts are kept apart: in the loop of the move text an unconditional emission of a literal separator follows
    # (or precedes) it, or the text itself is built with one (format!("{} ", ..)); without it two moves read as one word
    sep = []
    if mv:
        lb0 = [b[1] for b in loop_binders(mv[0][3])]
        for e in em:
            if e is mv[0] or [b[1] for b in loop_binders(e[3])] != lb0 or [x for x in plain_guards(e[3]) if x[0] == "if"]:
                continue
            v = e[2]
            lit = v[1] if v[0] == "lit" else None
            if isinstance(lit, int) and 0 < lit < 128:
                lit = chr(lit)
            if isinstance(lit, str) and lit and all(ch in " \n\t,;" for ch in lit):
                sep.append(repr(lit))
        mtxt = hir.fmt(mv[0][2], 300)
        if not sep and ("format" in mtxt and ('" ' in mtxt or ' "' in mtxt)):
            sep.append("inside the formatted move text")
    ctx.check("C20.Y5", "moves-of-the-record-are-separated", bool(sep) or not mv, fn=fn["path"], file=fn["file"], line=fn["span"][0],
              what="nothing separates one move text of the record from the next: the record runs the moves together and no longer names "
                   "each move (origin, destination, capture mark read as part of the neighbour)",
              expected="an unconditional separator (space / line break) emitted with every move text", found=sep or "none")
