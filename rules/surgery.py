"""S3: board-surgery extraction for Game::push / Game::pop, per Move variant and owner.

For each arm of the `match` on the move, the ordered `set_position(sq, val)` / `set_king_position(who, sq)`
calls are normalised (tuple-lets and `row = match owner {..}` resolved by forward substitution, the owner fixed
by case folding) into symbolic squares and contents:
   square  : "start" | "end" | (row, col) with col an int or "start_col"/"end_col"
   content : None | ("field", "piece") | ("field", "captured_piece") | (kind, owner-expr)
"""
from . import hir
from .common import discr_map

MV = "chess::move_struct::Move::"
PT = "chess::piece::PieceType::"
PL = "chess::Player::"
VARIANTS = ("Normal", "Promotion", "EnPassant", "CastlingLong", "CastlingShort")


class Extraction(Exception):
    pass


def move_match(fn):
    """The `match <move param>` of push/pop with its arms keyed by variant."""
    body = fn["hir"]["body"]
    for n, anc in hir.walk(body):
        if n.get("k") == "Match" and n.get("src") == "Normal":
            keys = [hir.pat_key(a["pat"]) for a in n["arms"]]
            if all(isinstance(k, tuple) and k[0] == "variant" and k[1].startswith(MV) for k in keys) and len(keys) >= 5:
                return n, {k[1][len(MV):]: a for k, a in zip(keys, n["arms"])}
    raise Extraction("no `match` over the five Move variants in %s" % fn["path"])


def field_renames(pat):
    """{binding name: field name} for a struct pattern."""
    out = {}
    if pat.get("k") == "PStruct":
        for f in pat["fields"]:
            p = f["pat"]
            while p.get("k") == "PRef":
                p = p["pat"]
            if p.get("k") == "PBind":
                out[p["name"]] = f["name"]
    return out


def rename(t, ren):
    if isinstance(t, tuple):
        if len(t) == 2 and t[0] == "var" and t[1] in ren:
            return ("mfield", ren[t[1]])
        return tuple(rename(x, ren) if isinstance(x, tuple) else x for x in t)
    return t


def norm_square(t, D):
    if t == ("mfield", "start"):
        return "start"
    if t == ("mfield", "end"):
        return "end"
    if t[0] == "call" and str(t[1]).endswith(("Position::new_assert", "Position::new_unsafe")) and len(t[2]) == 2:
        r, c = t[2]
        ri = hir.sym_int(r)
        ci = hir.sym_int(c)
        if ci is None and c[0] == "mfield":
            ci = c[1]
        if ri is not None and ci is not None:
            return (ri, ci)
    raise Extraction("square not in normal form: %s" % hir.fmt(t, 120))


def norm_content(t, owner):
    if t[0] == "variant" and t[1].endswith("::None"):
        return None
    if t == ("mfield", "captured_piece"):
        return ("field", "captured_piece")
    if t[0] == "ctor" and str(t[1]).endswith("::Some") and len(t[2]) == 1:
        x = t[2][0]
        if x == ("mfield", "piece"):
            return ("field", "piece")
        if x[0] == "struct" and x[1] == "chess::piece::Piece":
            d = dict(x[2])
            kind, own = d.get("piece_type"), d.get("owner")
            if kind[0] == "variant":
                k = kind[1][len(PT):]
            elif kind == ("mfield", "new_piece"):
                k = "new_piece"
            else:
                raise Extraction("piece kind not in normal form: %s" % hir.fmt(kind, 80))
            if own == ("mfield", "owner"):
                o = "owner"
            elif own == ("variant", PL + owner):
                o = "owner"
            elif own[0] == "variant":
                o = "other"
            elif own == ("call", "chess::Player::the_other", (("mfield", "owner"),)):
                o = "other"
            else:
                raise Extraction("piece owner not in normal form: %s" % hir.fmt(own, 80))
            return (k, o)
    raise Extraction("content not in normal form: %s" % hir.fmt(t, 120))


def inline_helpers(node, F, depth=1):
    """One level of crate-local helper inlining is not needed on the pinned tree; kept as an explicit
    fail-closed point: a set_position hidden behind a helper is reported as 'not extractable'."""
    return node


def extract(fn, F):
    """{variant: {owner: {"writes": [(sq, content, guard-texts)], "king": [(who, sq, guards)]}}}"""
    D = discr_map(F)
    m, arms = move_match(fn)
    env = hir.Env(fn["hir"], F)
    sym = hir.Sym(env, F)
    out = {}
    for v in VARIANTS:
        if v not in arms:
            raise Extraction("arm for Move::%s missing in %s" % (v, fn["path"]))
        arm = arms[v]
        ren = field_renames(arm["pat"])
        out[v] = {}
        for owner in ("White", "Black"):
            assume = {("mfield", "owner"): ("variant", PL + owner),
                      ("field", ("var", "self"), "current_player"): ("variant", PL + owner)}
            writes, king = [], []
            for n, anc in hir.walk(arm["body"]):
                if n.get("k") != "MethodCall":
                    continue
                c = hir.callee_of(n) or ""
                if c.endswith("Game::set_position"):
                    sq = hir.fold(rename(sym(n["args"][0]), ren), assume, D)
                    val = rename(sym(n["args"][1]), ren)
                    g = local_guards(n, arm["body"], sym, ren)
                    writes.append((norm_square(sq, D), norm_content(val, owner), g, hir.line(n)))
                elif c.endswith("Game::set_king_position"):
                    who = hir.fold(rename(sym(n["args"][0]), ren), assume, D)
                    sq = hir.fold(rename(sym(n["args"][1]), ren), assume, D)
                    g = local_guards(n, arm["body"], sym, ren)
                    w = who[1][len(PL):] if who[0] == "variant" else hir.fmt(who, 60)
                    king.append((w, norm_square(sq, D), g, hir.line(n)))
            out[v][owner] = {"writes": writes, "king": king}
    return out, arms


def local_guards(n, root, sym, ren):
    g = hir.guards_of(n, root, sym) or []
    out = []
    for x in g:
        if x[0] == "if":
            out.append((hir.fmt(rename(x[1], ren), 200), x[2]))
        elif x[0] == "arm":
            out.append(("arm " + hir.fmt(rename(x[1], ren), 80) + " = " + hir.fmt(x[2], 60) if isinstance(x[2], tuple) else str(x[2]), True))
    return out


def final_map(writes):
    """Last write per square (unconditional writes only)."""
    m = {}
    for sq, val, g, line in writes:
        m[sq] = val
    return m


# ---------------------------------------------------------------------------
# the two oracles

def forward_oracle(variant, owner):
    """Rules of chess: squares and contents after the move (row 0 = rank 1, White moves up)."""
    r = 0 if owner == "White" else 7
    if variant == "Normal":
        return {"start": None, "end": ("field", "piece")}, None
    if variant == "Promotion":
        return {"start": None, "end": ("new_piece", "owner")}, None
    if variant == "EnPassant":
        frm, to = (4, 5) if owner == "White" else (3, 2)
        return {(frm, "end_col"): None, (frm, "start_col"): None, (to, "end_col"): ("Pawn", "owner")}, None
    if variant == "CastlingLong":
        return {(r, 0): None, (r, 4): None, (r, 3): ("Rook", "owner"), (r, 2): ("King", "owner")}, (r, 2)
    if variant == "CastlingShort":
        return {(r, 7): None, (r, 4): None, (r, 5): ("Rook", "owner"), (r, 6): ("King", "owner")}, (r, 6)


def inverse_oracle(variant, owner):
    """Pre-move content of every square the move touches (what take-back must restore)."""
    r = 0 if owner == "White" else 7
    if variant == "Normal":
        return {"start": ("field", "piece"), "end": ("field", "captured_piece")}, "start"
    if variant == "Promotion":
        return {"start": ("Pawn", "owner"), "end": ("field", "captured_piece")}, None
    if variant == "EnPassant":
        frm, to = (4, 5) if owner == "White" else (3, 2)
        return {(frm, "end_col"): ("Pawn", "other"), (frm, "start_col"): ("Pawn", "owner"), (to, "end_col"): None}, None
    if variant == "CastlingLong":
        return {(r, 0): ("Rook", "owner"), (r, 4): ("King", "owner"), (r, 3): None, (r, 2): None}, (r, 4)
    if variant == "CastlingShort":
        return {(r, 7): ("Rook", "owner"), (r, 4): ("King", "owner"), (r, 5): None, (r, 6): None}, (r, 4)
