"""C09 - pruning and move ordering never change the search result.

The property itself (equality of two numbers over all positions, depths and ordering states) is NOT decided: that needs
a reference search.  Decided are the structural clauses every fail-hard negamax / PVS must satisfy on all paths, each of
which is a necessary condition (breaking it changes the value on some position):

 B1 negamax discipline: every call of a searcher made while a move is played (one pending push) has its result negated
    exactly once before any use; the two same-node dispatches (depth 1, depth 0) are made with no move pending, are not
    negated and pass the node's own (alpha, beta) unchanged;
 B2 child window and depth: the bounds handed to a child are (-B, -A) for a sub-window [A, B] of the node's window:
    B is the node's beta (the root: +infinity = -(MIN+1)) or A+1 (null window), A is the node's running lower bound
    (alpha; the root: best_score) or a child result known to exceed it (re-search after a null-window fail-high); the
    child is searched one ply shallower and one ply further from the root - no reductions;
 B3 every generated move is searched: between generation and the move loop the list is only permuted (sort) - the
    root's single repetition filter excepted -, the loop runs over the whole list, it is left only at a beta cut-off (or
    by the abort), a move is skipped only by the capture-only rule of the quiescence search, and on every other
    iteration a child search with the unconditional (first-level) window is made;
 B4 ordering state is ordering state: killer moves, history counters and the table move reach only the sort key
    (`move_score`, which is pure) and their own updates inside the cut-off block; no bound, depth, skip or return
    depends on them;
 B5 stand-pat: the quiescence search starts from `score * side`, raises alpha to it, cuts off at `alpha >= beta`;
 B6 bounds move one way: alpha (the root: best_score) is only ever raised - assigned `max(alpha, r)` or `r` under
    `r > alpha` for a (negated) child result r; beta is never assigned; returns are those of the C10.N4 census.
Does NOT decide: the numerical equality; the table (the property disables it); the content of the leaf rule.
"""
from . import core, hir, mir, pairing
from .p16 import relabel

LEVEL = "other"
EXPLANATION = ("Typed-HIR normal forms of every searcher call (callee resolved), of the window/depth arguments, of every "
               "assignment to a bound and of every loop exit in the four search functions, with lexical guards; push/pop typestate "
               "on the MIR CFG gives the number of moves pending at each call; uses of the ordering state enumerated by resolved "
               "local; purity of the sort key by call-graph reachability over MIR.")
Q = "search::quiescence_search"
D1 = "search::get_best_move_score_depth_1"
S = "search::get_best_move_score"
E = "search::get_best_move_entry"
KEY = "search::move_score"
SEARCHERS = (Q, D1, S)
NODES = (Q, D1, S, E)
SHORT = {Q: "quiescence", D1: "depth1", S: "interior", E: "root"}
# node's window per function: (lower-bound variable, upper bound normal form or None for +infinity)
LOWER = {Q: "alpha", D1: "alpha", S: "alpha", E: "best_score"}
PERMUTERS = {"sort_by_cached_key", "sort_by_key", "sort_by", "sort", "sort_unstable_by_key", "sort_unstable_by", "sort_unstable",
             "reverse", "swap"}
READERS = {"is_empty", "len", "iter", "first", "last", "get", "as_slice", "contains", "capacity"}


def _neg(t):
    """normal form of -t with double negation and -(a+1) = -a-1 folded"""
    if t[0] == "neg":
        return t[1]
    return ("neg", t)


def _norm(t):
    """normalise window bound expressions: -(a + 1) -> (-a) - 1 ; (-1) + (-a) etc. are not produced by rustc's HIR"""
    if t[0] == "neg" and t[1][0] == "bin" and t[1][1] == "+" and t[1][3] == ("lit", 1):
        return ("bin", "-", ("neg", t[1][2]), ("lit", 1))
    if t[0] == "neg" and t[1][0] == "bin" and t[1][1] == "+" and t[1][2] == ("lit", 1):
        return ("bin", "-", ("neg", t[1][3]), ("lit", 1))
    if t[0] == "neg" and t[1][0] == "neg":
        return _norm(t[1][1])
    return t


def _is_try(a):
    return (a.get("k") == "Match" and str(a.get("src", "")).startswith("TryDesugar")) or \
           (a.get("k") == "Call" and str(hir.callee_of(a) or "").endswith("Try::branch"))


class Node:
    """one search function: its searcher calls, loops, assignments"""

    def __init__(self, F, path):
        self.F = F
        self.path = path
        self.fn = F.fn(path)
        self.body = self.fn["hir"]["body"]
        self.env = hir.Env(self.fn["hir"], F)
        self.sym = hir.Sym(self.env, F)
        self.params = [p["pat"].get("name") for p in self.fn["hir"]["params"]]
        self.pmut = {p["pat"].get("name"): "Mut)" in str(p["pat"].get("mode")) for p in self.fn["hir"]["params"]}
        res = pairing.analyse(self.fn, True)
        self.pending = {}
        for b, t in res["cfg"].calls(lambda c, t: c in SEARCHERS):
            st = res["state_at_term"].get(b)
            self.pending.setdefault((mir.callee(t), mir.span_line(t)), []).append(None if st is None or st == "ABORT" else len(st))
        self.calls = []
        for n, anc in hir.walk(self.body):
            if n.get("k") == "Call" and hir.callee_of(n) in SEARCHERS:
                self.calls.extend(self._split(self._call(n, anc)))
        self.loops = self._loops()

    def guards(self, n, in_loop=False):
        g = hir.guards_of(n, self.body, self.sym) or []
        out = []
        seen_loop = False
        for x in g:
            if x[0] == "arm" and "Iterator::next" in hir.fmt(x[1], 80):
                seen_loop = True
                out = [] if in_loop else out
                continue
            if x[0] == "if":
                out.append((hir.fmt(hir.canon(hir.resolve_consts(x[1], self.F)), 240), x[2]))
        return out if (seen_loop or not in_loop) else []

    def _call(self, n, anc):
        up = list(reversed(anc))
        i = 0
        tried = False
        while i < len(up) and _is_try(up[i]):
            tried = True
            i += 1
        negs = 0
        while i < len(up) and up[i].get("k") == "Unary" and up[i].get("op") == "Neg":
            negs += 1
            i += 1
        let = None
        user = up[i] if i < len(up) else None
        if user is not None and user.get("k") == "SLet" and user["pat"].get("k") == "PBind":
            let = user["pat"]["name"]
        elif user is not None and user.get("k") == "Assign" and hir.strip(user["l"]).get("k") == "Path" and \
                hir.strip(user["l"])["to"].get("res") == "local":
            let = hir.strip(user["l"])["to"]["name"]        # `score = -search(..)?`: re-binding of a result variable
        s = self.sym(n)
        callee = hir.callee_of(n)
        args = list(s[2])
        if callee == S:
            names = ("game", "table", "continue_running", "remaining_depth", "real_depth", "alpha", "beta", "killer_moves", "history")
        else:
            names = ("game", "alpha", "beta", "real_depth")
        # the callee's own parameter names (an extra parameter - a statistics sink, say - does not shift the window arguments)
        try:
            pn = [p_["pat"].get("name") for p_ in self.F.fn(callee)["hir"]["params"]]
        except Exception:
            pn = []
        if len(pn) == len(args) and set(names) <= set(pn):
            names = tuple(pn)
        a = dict(zip(names, args)) if len(args) == len(names) else {}
        pend = self.pending.get((callee, hir.line(n)))
        return {"node": n, "callee": callee, "negs": negs, "try": tried, "let": let, "user": user.get("k") if user else None,
                "args": a, "nargs": len(args), "pending": pend[0] if pend and len(set(pend)) == 1 else None,
                "line": hir.line(n), "guards": self.guards(n, in_loop=True), "in_loop": any(a_.get("k") == "Loop" for a_ in anc)}

    def _split(self, c):
        """one call whose window is chosen by a condition in argument position (`if first { beta } else { alpha + 1 }`) is one call
        per case, each under that case's condition: the same discipline as two calls under complementary conditions"""
        a = c["args"]
        if not a or not any(x[:1] in (("if",), ("match",)) for k_ in ("alpha", "beta") for x in hir.subterms(a.get(k_, ()))):
            return [c]
        try:
            cases = hir.lift_ifs(("tup", a["alpha"], a["beta"]), limit=8)
        except ValueError:
            return [c]
        out = []
        for conds, v in cases:
            extra = []
            for cond, pol in conds:
                if isinstance(cond, tuple) and cond[:1] == ("matches",):
                    extra = None
                    break
                extra.append((hir.fmt(hir.canon(hir.resolve_consts(cond, self.F)), 240), pol))
            if extra is None or v[:1] != ("tup",):
                return [c]
            c2 = dict(c, args=dict(a, alpha=v[1], beta=v[2]), guards=list(c["guards"]) + extra, split=True)
            out.append(c2)
        return out or [c]

    def _loops(self):
        out = []
        for n, anc in hir.walk(self.body):
            if n.get("k") == "Match" and n.get("src") == "ForLoopDesugar" and not any(a.get("k") == "Loop" for a in anc):
                it = self.sym(n["e"])
                loop = None
                for c, _ in hir.walk(n):
                    if c.get("k") == "Loop":
                        loop = c
                        break
                out.append({"match": n, "iter": hir.fmt(it, 160), "loop": loop,
                            "searches": [c for c in self.calls if any(x is c["node"] for x, _ in hir.walk(n))]})
        return out

    def let_def(self, name, _depth=0):
        """the searcher call a local is bound to (let name = -call(..)?), or None"""
        for c in self.calls:
            if c["let"] == name:
                return c
        # an alias: `let mut score = r;` / `score = r;` with r bound to a searcher call (the value an expanded helper hands back)
        if _depth < 4:
            for n, _ in hir.walk(self.body):
                src = None
                if n.get("k") == "SLet" and n["pat"].get("k") == "PBind" and n["pat"].get("name") == name and n.get("init") is not None:
                    src = hir.strip(n["init"])
                elif n.get("k") == "Assign" and hir.strip(n["l"]).get("to", {}).get("name") == name:
                    src = hir.strip(n["r"])
                while src is not None and src.get("k") == "Block" and src.get("expr") is not None:
                    src = hir.strip(src["expr"])
                if src is not None and src.get("k") == "Path" and src["to"].get("res") == "local" and src["to"]["name"] != name:
                    d = self.let_def(src["to"]["name"], _depth + 1)
                    if d is not None:
                        return d
        return None


def run(ctx):
    F = ctx.facts
    nodes = {p: Node(F, p) for p in NODES}
    b1(ctx, F, nodes)
    b2(ctx, F, nodes)
    b3(ctx, F, nodes)
    b4(ctx, F, nodes)
    b5(ctx, F, nodes)
    b6(ctx, F, nodes)
    b8(ctx, F, nodes)
    ctx.floor("C09.B1", "searcher-calls", sum(len(n.calls) for n in nodes.values()), 6)       # 10 on the reference tree
    ctx.note("not decided: equality of the returned value with an unpruned reference search (numerical; needs a reference run); "
             "transposition-table interaction (the property disables the table); what the leaf rule calls a tactical move")


# ---------------------------------------------------------------------------

def b1(ctx, F, nodes):
    # every caller of a searcher in the crate is one of the four nodes
    g = mir.callgraph(F)
    for s in SEARCHERS:
        callers = sorted(mir.callers_of(g, s))
        ctx.check("C09.B1", "searchers-called-only-by-search-nodes:%s" % SHORT[s], set(callers) <= set(NODES), fn=s, file="src/search.rs",
                  what="a searcher is entered from outside the four search nodes: its window/sign discipline is not analysed there",
                  expected=list(NODES), found=callers, nontrivial=False)
    for p, nd in nodes.items():
        for i, c in enumerate(nd.calls):
            key = "%s:%s#%d" % (SHORT[p], SHORT[c["callee"]], i)
            if c["pending"] is None:
                ctx.check("C09.B1", "pending-moves-known:" + key, False, fn=p, file=nd.fn["file"], line=c["line"],
                          what="the number of moves played and not taken back at this searcher call could not be determined "
                               "(call not found on the MIR CFG, or paths disagree)", found=nd.pending)
                continue
            if c["pending"] >= 1:
                ok = c["negs"] == 1 and c["pending"] == 1 and c["let"] is not None
                ctx.check("C09.B1", "child-result-negated-once:" + key, ok, fn=p, file=nd.fn["file"], line=c["line"],
                          what="the value of a child position is the opponent's: it must be negated exactly once, with exactly one move "
                               "played, before it is compared with the node's bounds",
                          expected="let r = -<searcher>(child ..) with one pending push",
                          found={"negations": c["negs"], "pending pushes": c["pending"], "bound to": c["let"] or c["user"]})
            else:
                a = c["args"]
                same = a.get("alpha") == ("var", LOWER[p]) and a.get("beta") == ("var", "beta") and a.get("real_depth") == ("var", "real_depth")
                ok = c["negs"] == 0 and same and p == S
                ctx.check("C09.B1", "same-node-dispatch-unchanged:" + key, ok, fn=p, file=nd.fn["file"], line=c["line"],
                          what="a searcher called with no move played continues the *same* node: result not negated, window and distance "
                               "from the root passed on unchanged",
                          expected="<searcher>(game, alpha, beta, real_depth), not negated",
                          found={"negations": c["negs"], "args": {k: hir.fmt(v, 40) for k, v in a.items() if k != "game"}})


def _window_ok(nd, c):
    """(ok, description) for a child call's (alpha, beta) arguments"""
    p = nd.path
    low = LOWER[p]
    a = c["args"]
    lo, hi = _norm(hir.resolve_consts(a["alpha"], nd.F)), _norm(hir.resolve_consts(a["beta"], nd.F))
    desc = {"child alpha": hir.fmt(lo, 60), "child beta": hir.fmt(hi, 60)}
    gtrue = [t for t, pol in c["guards"] if pol is True]

    def exceeds_lower(v):
        # v is a local bound to a negated child result and the call is guarded by  lower < v  (or best_score < v in the interior node)
        if v[0] != "var" or nd.let_def(v[1]) is None:
            return False
        names = {low, "best_score", "alpha"}
        return any(t in ("(%s < %s)" % (x, v[1]) for x in names) for t in gtrue)

    # hi = -A
    if hi[0] != "neg":
        return False, desc, None
    A = hi[1]
    if not (A == ("var", low) or exceeds_lower(A)):
        return False, desc, None
    # lo = -B: B = beta | +inf (root) | A + 1
    if lo == ("neg", ("var", "beta")) and p != E:
        kind = "full" if A == ("var", low) else "re-search"
    elif p == E and lo[0] == "bin" and lo[1] == "+" and hir.fmt(lo[2], 40).endswith("MIN") and lo[3] == ("lit", 1):
        kind = "full" if A == ("var", low) else "re-search"
    elif lo == ("bin", "-", ("neg", A), ("lit", 1)):
        kind = "null"
    else:
        return False, desc, None
    return True, desc, kind


def b2(ctx, F, nodes):
    kinds = {}
    for p, nd in nodes.items():
        for i, c in enumerate(nd.calls):
            if not c["pending"]:
                continue
            key = "%s:%s#%d" % (SHORT[p], SHORT[c["callee"]], i)
            a = c["args"]
            if not a:
                ctx.check("C09.B2", "arguments:" + key, False, fn=p, file=nd.fn["file"], line=c["line"],
                          what="searcher called with an unexpected number of arguments", found=c["nargs"])
                continue
            ok, desc, kind = _window_ok(nd, c)
            kinds.setdefault(p, []).append(kind)
            ctx.check("C09.B2", "child-window-is-a-negated-sub-window:" + key, ok, fn=p, file=nd.fn["file"], line=c["line"],
                      what="the child must be searched with (-B, -A) for a sub-window [A, B] of this node's window: A = the running lower "
                           "bound (or a child result known to exceed it), B = beta or A+1. Swapped, un-negated, shifted or foreign bounds "
                           "make the child cut off on the wrong side",
                      expected="(-beta, -alpha) | (-alpha-1, -alpha) | (-beta, -r) under r > lower bound", found=desc)
            # depth: one ply shallower, one ply further
            if c["callee"] == S:
                rd = a["remaining_depth"]
                dist = a["real_depth"]
                if p == E:
                    okd = rd == ("bin", "-", ("var", "depth"), ("lit", 1)) and dist == ("lit", 1)
                else:
                    okd = rd == ("bin", "-", ("var", "remaining_depth"), ("lit", 1)) and dist == ("bin", "+", ("var", "real_depth"), ("lit", 1))
                found = {"remaining": hir.fmt(rd, 60), "distance": hir.fmt(dist, 60)}
            else:
                dist = a["real_depth"]
                okd = dist == ("bin", "+", ("var", "real_depth"), ("lit", 1))
                found = {"distance": hir.fmt(dist, 60)}
            ctx.check("C09.B2", "child-one-ply-deeper-no-reduction:" + key, okd, fn=p, file=nd.fn["file"], line=c["line"],
                      what="every child is searched exactly one ply shallower and one ply further from the root; a reduced depth for some "
                           "moves (late-move reduction) searches a different tree than the exhaustive reference",
                      expected="(remaining_depth - 1, real_depth + 1)", found=found)
    for p in NODES:
        ks = kinds.get(p, [])
        ctx.check("C09.B2", "first-level-search-present:%s" % SHORT[p], "full" in ks, fn=p, file="src/search.rs", nontrivial=False,
                  what="the node has no full-window child search", found=ks)


def b3(ctx, F, nodes):
    for p, nd in nodes.items():
        short = SHORT[p]
        main = [l for l in nd.loops if l["searches"]]
        ok = len(main) == 1 and "moves" in main[0]["iter"] and not any(w in main[0]["iter"] for w in ("take(", "skip(", "filter(", "step_by(", "take_while("))
        ctx.check("C09.B3", "one-loop-over-the-whole-list:" + short, ok, fn=p, file=nd.fn["file"],
                  line=hir.line(main[0]["match"]) if main else nd.fn["span"][0],
                  what="the node must try its moves in one loop over the whole generated list",
                  expected="for .. in moves / moves.iter().enumerate()", found=[l["iter"] for l in main])
        if len(main) != 1:
            continue
        loop = main[0]
        # mutators of the list between generation and the loop
        bad = []
        gens = 0
        retained_q = []
        for n, anc in hir.walk(nd.body):
            if n.get("k") == "MethodCall":
                r = hir.strip(n["recv"])
                while r.get("k") in ("AddrOf", "Unary") and r.get("e"):
                    r = hir.strip(r["e"])
                if r.get("to", {}).get("name") == "moves":
                    name = n["name"]
                    if name in PERMUTERS or name in READERS:
                        continue
                    if p == Q and name == "retain" and n.get("args"):
                        # the quiescence search looks at tactical moves only: keeping exactly those is the `continue` of the loop done
                        # ahead of it (what counts as tactical is B5's concern)
                        clo = hir.strip(n["args"][0])
                        if clo.get("k") == "Closure" and clo.get("params"):
                            pn_ = hir.pat_names(clo["params"][0])
                            cb = nd.sym(clo["body"])
                            while isinstance(cb, tuple) and cb[:1] in (("deref",), ("ref",)) and len(cb) == 2:
                                cb = cb[1]
                            if pn_ and cb[:2] == ("call", "chess::move_struct::Move::is_tactical_move") and len(cb[2]) == 1 and \
                                    hir.fmt(cb[2][0], 40).lstrip("*&") == pn_[0]:
                                retained_q.append(hir.line(n))
                                continue
                    if p == E and name in ("swap_remove", "remove"):
                        # the root's repetition filter: one removal, control-dependent on a comparison with the game's move history
                        from .common import enclosing_conditions, dependence_nodes
                        dep = [x for c_ in enclosing_conditions(n, nd.fn["hir"]) for x in dependence_nodes(c_, nd.fn["hir"])]
                        hist = any(x.get("k") == "MethodCall" and hir.callee_of(x) == "chess::Game::move_stack" for x in dep)
                        eqs = any(x.get("k") == "Binary" and x.get("op") == "==" for x in dep)
                        n_rm = sum(1 for y, _ in hir.walk(nd.body) if y.get("k") == "MethodCall" and y["name"] in ("swap_remove", "remove")
                                   and hir.strip(y["recv"]).get("to", {}).get("name") == "moves")
                        if hist and eqs and n_rm == 1:
                            continue
                    bad.append((hir.line(n), name))
            if n.get("k") == "AddrOf" and "Mut" in str(n.get("mut")) or (n.get("k") == "AddrOf" and n.get("mut") is True):
                r = hir.strip(n["e"])
                if r.get("to", {}).get("name") == "moves":
                    par = anc[-1] if anc else {}
                    if par.get("k") == "MethodCall" and hir.callee_of(par) == "chess::Game::get_moves":
                        gens += 1
                    else:
                        bad.append((hir.line(n), "&mut moves passed to " + str(hir.callee_of(par) or par.get("k"))))
            if n.get("k") == "MethodCall" and hir.callee_of(n) == "chess::Game::get_moves" and n.get("args"):
                a0 = n["args"][0]
                while a0.get("k") in ("Use", "Type"):
                    a0 = a0["e"]
                if a0.get("k") == "Path" and a0.get("to", {}).get("name") == "moves":
                    gens += 1          # the list handed on by reference (the generation call of an expanded helper)
        ctx.check("C09.B3", "list-only-permuted-before-the-loop:" + short, not bad and gens == 1, fn=p, file=nd.fn["file"],
                  line=bad[0][0] if bad else nd.fn["span"][0],
                  what="between generation and the move loop the list may only be reordered; removing, truncating or filtering moves "
                       "(pruning by list surgery) drops candidates the reference search examines",
                  expected="one get_moves(&mut moves, ..); sort*/reverse only", found={"mutators": bad, "generations": gens})
        # exits of the loop
        exits = []
        for n, anc in hir.walk(loop["loop"]):
            k = n.get("k")
            if k == "Break" and "ForLoop" in str(n.get("mac", "")):
                continue
            if k in ("Break", "Continue", "Ret"):
                # Ret produced by `?` (abort) is inside a TryDesugar match
                if k == "Ret" and any(str(a.get("src", "")).startswith("TryDesugar") for a in anc):
                    continue
                g = nd.guards(n, in_loop=True)
                exits.append((k, hir.line(n), g))
        unknown = []
        for k, line, g in exits:
            gt = [t for t, pol in g if pol is True]
            gf = [t for t, pol in g if pol is False]
            cut = ("(beta <= %s)" % LOWER[p]) in gt and p != E
            if k in ("Break", "Ret") and cut:
                continue
            if k == "Continue" and p == Q and gf == ["Move::is_tactical_move(_move)"] and not gt:
                continue
            unknown.append((k, line, gt, gf))
        if p == Q:
            # the capture-only rule itself: the extension searches tactical moves only (the reference's leaf rule; with every move
            # extended the recursion has no end either) - a `continue` / `if` on the move in the loop, or a retain ahead of it
            tg = ("Move::is_tactical_move(_move)", True)
            unfiltered = [c["line"] for c in loop["searches"] if tg not in c["guards"]]
            ctx.check("C09.B5", "extension-searches-tactical-moves-only", bool(loop["searches"]) and (not unfiltered or bool(retained_q)), fn=p,
                      file=nd.fn["file"], line=unfiltered[0] if unfiltered else hir.line(loop["match"]),
                      what="the capture-only extension searches moves that are not tactical: the value is no longer that of the leaf rule "
                           "(and the extension no longer ends by running out of captures)",
                      expected="the recursive call only under is_tactical_move(move)", found={"unfiltered searches at lines": unfiltered})
        ctx.check("C09.B3", "loop-left-only-at-a-cut-off:" + short, not unknown, fn=p, file=nd.fn["file"],
                  line=unknown[0][1] if unknown else hir.line(loop["match"]),
                  what="the move loop is left, or a move is skipped, on a condition that is neither the beta cut-off nor (quiescence only) "
                       "the capture-only rule: forward pruning (late-move, futility, history pruning) changes the value",
                  expected="break/return only under alpha >= beta; continue only under !is_tactical_move in quiescence", found=unknown)
        # coverage: the first-level searches are made on every iteration that is not skipped
        first = []
        for c in loop["searches"]:
            okw, _, kind = _window_ok(nd, c) if c["args"] and c["pending"] else (False, None, None)
            if kind in ("full", "null"):
                g = [x for x in c["guards"] if not (p == Q and x == ("Move::is_tactical_move(_move)", True))]
                first.append((kind, g, c["line"]))
        cover = False
        if len(first) == 1 and first[0][1] == []:
            cover = True
        elif len(first) == 2:
            (k1, g1, _), (k2, g2, _) = first
            cover = len(g1) == 1 and len(g2) == 1 and g1[0][0] == g2[0][0] and g1[0][1] != g2[0][1] and "full" in (k1, k2)
        ctx.check("C09.B3", "every-move-gets-a-first-level-search:" + short, cover, fn=p, file=nd.fn["file"],
                  line=first[0][2] if first else hir.line(loop["match"]),
                  what="on every iteration a child search with the node's full or null window must be made (one unconditional call, or two "
                       "under complementary conditions); a search made only under some condition leaves moves unexamined",
                  expected="unconditional, or `if c {full} else {null}`", found=[(k, g) for k, g, _ in first])
        # the order-dependent split (first moves full window, the rest null window) may depend on the position in the list only
        for k_, g, line in first:
            for t, pol in g:
                ok = t.startswith("(index <") or t.startswith("(index ==") or t.startswith("(index !=")
                ctx.check("C09.B3", "full/null-split-by-list-position-only:%s@%s" % (short, t), ok, fn=p, file=nd.fn["file"], line=line,
                          what="which moves get the full window may depend only on their position in the ordered list",
                          found=t, nontrivial=False)


ORDER_STATE = ("history", "killer_moves", "pv_move")


def b4(ctx, F, nodes):
    g = mir.callgraph(F)
    key = F.fn(KEY)
    reach = mir.reachable_fns(g, KEY)
    impure = []
    for r in sorted(reach):
        if r in F.fns:
            f = F.fn(r)
            if any(str(t).startswith("&mut") for t in f.get("inputs") or ()):
                impure.append(r)
    ctx.check("C09.B4", "sort-key-is-pure", not impure and key["output"] == "u32" and not any(str(t).startswith("&mut") for t in key["inputs"]),
              fn=KEY, file=key["file"], what="the ordering key must be a pure function of the move and the ordering state",
              found={"takes &mut": impure, "returns": key["output"]})
    for p in (Q, D1):
        nd = nodes[p]
        has = [x for x in nd.params if x in ORDER_STATE]
        ctx.check("C09.B4", "leaf-searchers-see-no-ordering-state:" + SHORT[p], not has, fn=p, file=nd.fn["file"],
                  what="the depth-1 and quiescence searchers take no ordering state", found=nd.params, nontrivial=False)
    for p in (S, E):
        nd = nodes[p]
        bad = []
        uses = 0
        for n, anc in hir.walk(nd.body):
            if n.get("k") != "Path" or n.get("to", {}).get("name") not in ORDER_STATE or n.get("to", {}).get("res") not in (None, "local"):
                continue
            name = n["to"]["name"]
            uses += 1
            up = list(reversed(anc))
            where = None
            for a in up:
                k = a.get("k")
                if k == "Closure":
                    # the sort-key closure: argument of a permuter on `moves`
                    idx = up.index(a)
                    par = up[idx + 1] if idx + 1 < len(up) else {}
                    if par.get("k") == "MethodCall" and par["name"] in PERMUTERS:
                        # inside the closure the state must go to move_score
                        inner = up[:idx]
                        if any(x.get("k") == "Call" and hir.callee_of(x) == KEY for x in inner):
                            where = "sort-key"
                    break
                if k == "Call" and hir.callee_of(a) in SEARCHERS:
                    # passed on as the same parameter
                    where = "passed-to-child"
                    break
                if k in ("Assign", "AssignOp"):
                    l = hir.strip(a["l"])
                    base = l
                    while base.get("k") in ("Index", "Field", "Unary") and base.get("e"):
                        base = hir.strip(base["e"])
                    tgt = base.get("to", {}).get("name")
                    if tgt in ORDER_STATE:
                        gt = [t for t, pol in nd.guards(a, in_loop=True) if pol is True]
                        if tgt == "pv_move" or any(t == "(beta <= alpha)" for t in gt):
                            where = "own-update"
                    break
                if k == "SLet":
                    # a local computed from the state: allowed only inside the cut-off block and flowing to the state's own update
                    nm = a["pat"].get("name")
                    gt = [t for t, pol in nd.guards(a, in_loop=True) if pol is True]
                    if name == "pv_move" or any(t == "(beta <= alpha)" for t in gt):
                        where = "cut-off-local:%s" % nm
                    elif nm in ORDER_STATE:
                        where = "definition"
                    break
            if where is None:
                bad.append((hir.line(n), name, [a.get("k") for a in up[:4]]))
            elif where.startswith("cut-off-local:"):
                # that local may be used only by other cut-off locals / the state's own update
                nm = where.split(":", 1)[1]
                for m, anc2 in hir.walk(nd.body):
                    if m.get("k") == "Path" and m.get("to", {}).get("name") == nm:
                        gt = [t for t, pol in nd.guards(m, in_loop=True) if pol is True]
                        if not any(t == "(beta <= alpha)" for t in gt):
                            bad.append((hir.line(m), nm, "escapes the cut-off block"))
        ctx.check("C09.B4", "ordering-state-reaches-only-the-sort-key:" + SHORT[p], not bad and uses >= 4, fn=p, file=nd.fn["file"],
                  line=bad[0][0] if bad else nd.fn["span"][0],
                  what="killer moves, history counters and the table move may be read only to build the sort key, handed on to the child "
                       "unchanged, or updated at a cut-off; anything else (pruning, reductions, extensions, bounds derived from them) makes "
                       "the value depend on the order in which moves were tried earlier",
                  expected="sort key | passed to child | own update under alpha >= beta", found={"other uses": bad, "uses": uses})
    # pv_move in S is assigned only from the table entry
    nd = nodes[S]
    src = []
    for n, anc in hir.walk(nd.body):
        if n.get("k") == "Assign" and hir.strip(n["l"]).get("to", {}).get("name") == "pv_move":
            src.append(hir.fmt(nd.sym(n["r"]), 40))
    ctx.check("C09.B4", "table-move-only-orders", src == ["entry.pv"], fn=S, file=nd.fn["file"], nontrivial=False,
              what="the table move is the entry's pv and nothing else", found=src)


def tactical_table(ctx, F):
    """The capture-only rule of the quiescence search is part of the reference: `is_tactical_move` decided by cases - a capture of a
    piece worth at least the capturing one, every promotion, every en-passant capture; nothing else.  A move kind dropped from
    it (or added to it) changes what the leaves of every search return."""
    from .common import sym_fn, discr_map
    fn = F.fn("chess::move_struct::Move::is_tactical_move")
    nf = sym_fn(fn, F)
    D = discr_map(F)
    MV_, PT_, PL_ = "chess::move_struct::Move::", "chess::piece::PieceType::", "chess::Player::"
    SOME, NONE = "std::prelude::v1::Some", ("variant", "std::prelude::v1::None")
    VAL = {"Pawn": 1, "Knight": 3, "Bishop": 3, "Rook": 5, "Queen": 9, "King": 100}
    got_vals = {}
    try:
        mvf = sym_fn(F.fn("chess::piece::PieceType::material_value"), F)
        for k_ in VAL:
            got_vals[k_] = hir.sym_int(hir.fold(mvf, {("var", "self"): ("variant", PT_ + k_)}, D))
    except core.AnchorMissing:
        pass

    def pc(kind, owner):
        return ("struct", "chess::piece::Piece", (("owner", ("variant", PL_ + owner)), ("piece_type", ("variant", PT_ + kind))))
    cases = []
    for a_, b_ in (("Pawn", "Queen"), ("Queen", "Pawn"), ("Knight", "Bishop"), ("Rook", "Rook"), ("Bishop", "Pawn"), ("Pawn", "Pawn"), ("King", "Rook"),
                   ("Rook", "Queen")):
        mv = ("struct", MV_ + "Normal", (("captured_piece", ("ctor", SOME, (pc(b_, "Black"),))), ("end", ("pos", 4, 4)), ("piece", pc(a_, "White")),
                                          ("start", ("pos", 3, 3))))
        cases.append(("%s takes %s" % (a_, b_), mv, VAL[a_] <= VAL[b_]))
    cases.append(("quiet move", ("struct", MV_ + "Normal", (("captured_piece", NONE), ("end", ("pos", 4, 4)), ("piece", pc("Queen", "White")),
                                                            ("start", ("pos", 3, 3)))), False))
    cases.append(("promotion", ("struct", MV_ + "Promotion", (("captured_piece", NONE), ("end", ("pos", 7, 0)), ("new_piece", ("variant", PT_ + "Knight")),
                                                              ("owner", ("variant", PL_ + "White")), ("start", ("pos", 6, 0)))), True))
    cases.append(("capturing promotion", ("struct", MV_ + "Promotion", (("captured_piece", ("ctor", SOME, (pc("Rook", "White"),))), ("end", ("pos", 0, 1)),
                                                                        ("new_piece", ("variant", PT_ + "Queen")), ("owner", ("variant", PL_ + "Black")),
                                                                        ("start", ("pos", 1, 0)))), True))
    for o_ in ("White", "Black"):
        cases.append(("en passant %s" % o_, ("struct", MV_ + "EnPassant", (("end_col", ("lit", 3)), ("owner", ("variant", PL_ + o_)), ("start_col", ("lit", 4)))), True))
        cases.append(("castling short %s" % o_, ("struct", MV_ + "CastlingShort", (("owner", ("variant", PL_ + o_)),)), False))
        cases.append(("castling long %s" % o_, ("struct", MV_ + "CastlingLong", (("owner", ("variant", PL_ + o_)),)), False))
    def piece_value(args):
        # Piece::material_value(piece) = the crate's own PieceType table applied to the piece's kind (evaluated above)
        a0 = args[0] if args else ()
        if a0 and a0[0] == "struct":
            kind = dict(a0[2]).get("piece_type")
            if kind and kind[0] == "variant" and got_vals.get(kind[1].rsplit("::", 1)[-1]) is not None:
                return ("lit", got_vals[kind[1].rsplit("::", 1)[-1]])
        return None

    def kind_value(args):
        a0 = args[0] if args else ()
        if a0 and a0[0] == "variant" and got_vals.get(a0[1].rsplit("::", 1)[-1]) is not None:
            return ("lit", got_vals[a0[1].rsplit("::", 1)[-1]])
        return None
    ev = {"chess::piece::Piece::material_value": piece_value, "chess::piece::PieceType::material_value": kind_value}
    bad = []
    for name, mv, want in cases:
        v = hir.fold(nf, {("var", "self"): mv}, D, None, ev)
        if v != ("lit", want):
            bad.append((name, hir.fmt(v, 80), want))
    ctx.check("C09.B5", "capture-only-rule-of-the-leaf-search", not bad and got_vals == VAL, fn=fn["path"], file=fn["file"], line=fn["span"][0],
              what="the moves the quiescence search tries are no longer: captures of a piece worth at least the capturing one, all promotions, "
                   "all en-passant captures (a kind dropped here is never searched at the leaves, a kind added changes every leaf value)",
              expected="Normal: captured.is_some_and(value(piece) <= value(captured)); Promotion, EnPassant: true; castling: false; values 1/3/3/5/9/100",
              found={"cases": bad[:4], "values": got_vals} if (bad or got_vals != VAL) else "%d cases" % len(cases))


def b5(ctx, F, nodes):
    tactical_table(ctx, F)
    nd = nodes[Q]
    stmts = [hir.strip(s) for s in hir.strip(nd.body).get("stmts") or ()]
    cur = None
    for s in stmts:
        if s.get("k") == "SLet" and s["pat"].get("k") == "PBind" and s.get("init") is not None:
            # a local that captured game.player() before anything is played reads as game.player() here
            plays = [(x.get("sp") or [0, 0])[:2] for x, _ in hir.walk(nd.body) if x.get("k") == "MethodCall"
                     and hir.callee_of(x) in ("chess::Game::push", "chess::Game::pop")]
            before = not plays or list((s.get("sp") or [0, 0])[:2]) < min(plays)
            v = hir.canon(hir.Sym(hir.Env(nd.fn["hir"], F), F, through=before)(s["init"]))
            t = hir.fmt(v, 120)
            if "Game::score(game)" in t:
                cur = (s["pat"]["name"], t)
                break
    ok = cur is not None and cur[1] in ("(Game::score(game) * (Game::player(game) as i16))", "((Game::player(game) as i16) * Game::score(game))")
    ctx.check("C09.B5", "stand-pat-is-the-evaluation-from-the-mover's-side", ok, fn=Q, file=nd.fn["file"],
              what="the stand-pat value must be the static score seen from the side to move: score * (+1 White / -1 Black)",
              expected="game.score() * (game.player() as Score)", found=cur)
    raised = None
    cut = None
    first_loop_line = min([hir.line(l["match"]) for l in nd.loops] or [10 ** 9])
    for n, anc in hir.walk(nd.body):
        if (hir.line(n) or 10 ** 9) >= first_loop_line:
            continue
        if n.get("k") == "Assign" and hir.strip(n["l"]).get("to", {}).get("name") == "alpha" and cur:
            v = hir.canon(nd.sym(n["r"]))
            if v in (("call", "std::cmp::Ord::max", (("var", "alpha"), ("var", cur[0]))), ("call", "std::cmp::Ord::max", (("var", cur[0]), ("var", "alpha")))) \
                    and not nd.guards(n):
                raised = hir.line(n)
            elif v == ("var", cur[0]) and [t for t, pol in nd.guards(n) if pol] == ["(alpha < %s)" % cur[0]]:
                raised = hir.line(n)
        if n.get("k") == "Ret" and n.get("e") is not None and raised and hir.line(n) > raised:
            gt = [t for t, pol in nd.guards(n) if pol is True]
            if gt == ["(beta <= alpha)"] and hir.fmt(nd.sym(n["e"]), 20) in ("beta", "alpha"):
                cut = hir.line(n)
    ctx.check("C09.B5", "stand-pat-raises-alpha-then-cuts-off", raised is not None and cut is not None, fn=Q, file=nd.fn["file"],
              line=raised or nd.fn["span"][0],
              what="before any capture is tried alpha is raised to the stand-pat value and the node fails high if that reaches beta",
              expected="alpha = max(alpha, stand_pat); if alpha >= beta { return beta }", found={"raised at": raised, "cut-off at": cut})
    sc = F.fn("chess::Game::score")
    t = hir.fmt(hir.Sym(hir.Env(sc["hir"], F), F)(hir.strip(sc["hir"]["body"]).get("expr") or sc["hir"]["body"]), 40)
    ctx.check("C09.B5", "score-accessor-returns-the-running-sum", t == "self.score", fn=sc["path"], file=sc["file"], nontrivial=False,
              what="Game::score returns the incrementally maintained sum (C16)", found=t)


def _bound_cases(nd, name, depth=0):
    """the (case-split) searcher calls whose result the local `name` can hold: bound directly, or through `name = other`"""
    out = [c for c in nd.calls if c["let"] == name]
    if depth < 4:
        for n, _ in hir.walk(nd.body):
            src = None
            if n.get("k") == "SLet" and n["pat"].get("k") == "PBind" and n["pat"].get("name") == name and n.get("init") is not None:
                src = hir.strip(n["init"])
            elif n.get("k") == "Assign" and hir.strip(n["l"]).get("to", {}).get("name") == name:
                src = hir.strip(n["r"])
            while src is not None and src.get("k") == "Block" and src.get("expr") is not None:
                src = hir.strip(src["expr"])        # `x = { ..statements of an expanded helper..; value }`
            if src is not None and src.get("k") == "Path" and src["to"].get("res") == "local" and src["to"]["name"] != name:
                out += _bound_cases(nd, src["to"]["name"], depth + 1)
    return out


def _probe_overwritten_when_better(nd, name):
    """A null-window probe only says whether the move beats the bound.  If `name` can hold a probe result, every such case must be
    followed by a re-search into the same variable under `probe > best_score` (or `> lower bound`): then the probe value survives
    only where it did not beat the best score (and raising the bound with it changes nothing)."""
    low = LOWER[nd.path]
    cases = _bound_cases(nd, name)
    kinds = [(c, _window_ok(nd, c)[2] if c["args"] and c["pending"] else None) for c in cases]
    nulls = [c for c, k in kinds if k == "null"]
    if not nulls:
        return True
    later = [c for c, k in kinds if k in ("re-search", "full") and c["line"] >= min(x["line"] for x in nulls) and c not in nulls]
    better = {("(best_score < %s)" % name, True), ("(%s < %s)" % (low, name), True)}
    return any(better & set(c["guards"]) for c in later)


def b8(ctx, F, nodes, parts=("bound", "best"), rule="C09.B8"):
    """B8 every child value is used: the result of each full-window search and of each re-search (i) raises the node's lower bound
    (`low = max(low, r)` / `low = r` - the form is B6's concern, here that it exists for this r), and (ii) in the nodes that keep a
    best score and a best move apart from the bound, becomes the best score together with its move.  A result that is compared
    and then dropped makes the node return a value (and store a move) that ignores that child."""
    for p, nd in nodes.items():
        low = LOWER[p]
        short = SHORT[p]
        assigns = []
        for n, anc in hir.walk(nd.body):
            if n.get("k") == "Assign" and hir.strip(n["l"]).get("k") == "Path" and hir.strip(n["l"])["to"].get("res") == "local":
                assigns.append((hir.strip(n["l"])["to"]["name"], nd.sym(n["r"]), n, anc))
        tracks_best = any(t == "best_score" for t, _, _, _ in assigns) and low != "best_score"
        for i, c in enumerate(nd.calls):
            if not c["pending"] or not c["args"] or not c["in_loop"] or c["let"] is None:
                continue
            ok_w, _desc, kind = _window_ok(nd, c)
            if kind not in ("full", "re-search"):
                continue
            r = c["let"]
            # the scope of r: the block its `let` stands in (two branches may each have a `score` of their own)
            scope = None
            for n_, anc_ in hir.walk(nd.body):
                if n_ is c["node"]:
                    lets_ = [j for j, a_ in enumerate(anc_) if a_.get("k") == "SLet"]
                    if lets_ and lets_[-1] > 0:
                        scope = anc_[lets_[-1] - 1]
                    break
            if scope is None:
                continue
            # names the value travels under: `let mut score = { ..; let score'1 = -search(..)?; Some(score'1) }?` (an expanded helper)
            names_r = {r}
            grew = True
            while grew:
                grew = False
                for n_, anc_ in hir.walk(nd.body):
                    tgt_ = None
                    if n_.get("k") == "SLet" and n_["pat"].get("k") == "PBind" and n_.get("init") is not None:
                        tgt_, src_ = n_["pat"]["name"], n_["init"]
                    elif n_.get("k") == "Assign" and hir.strip(n_["l"]).get("k") == "Path" and hir.strip(n_["l"])["to"].get("res") == "local":
                        tgt_, src_ = hir.strip(n_["l"])["to"]["name"], n_["r"]
                    if tgt_ is None or tgt_ in names_r or tgt_ in (low, "best_score", "best_move", "beta"):
                        continue
                    if any(x_.get("k") == "Path" and (x_.get("to") or {}).get("name") in names_r for x_, _ in hir.walk(src_)) and \
                            not any(x_.get("k") == "Call" and hir.callee_of(x_) in SEARCHERS and x_ is not c["node"] for x_, _ in hir.walk(src_)):
                        names_r.add(tgt_)
                        grew = True
                        # the value now lives in the scope of that name
                        blocks_ = [a_ for a_ in anc_ if a_.get("k") in ("Block", "Loop")]
                        outer = blocks_[-1] if blocks_ else None
                        if n_.get("k") == "Assign":
                            # an assigned variable lives where it was declared
                            for b_ in blocks_:
                                if any(st_.get("k") == "SLet" and st_["pat"].get("k") == "PBind" and st_["pat"].get("name") == tgt_
                                       for st_ in (b_.get("stmts") or [])):
                                    outer = b_
                        if outer is not None and any(x is scope for x, _ in hir.walk(outer)):
                            scope = outer
            in_scope = {id(x) for x, _ in hir.walk(scope)}
            # (an assignment under a condition that is literally false does not count)
            def live(n_):
                t_ = hir.fold(hir.guards_term([g_ for g_ in (hir.guards_of(n_, nd.body, nd.sym) or []) if g_[0] == "if"]), {})
                return not (t_ == ("lit", False) or hir.all_leaves_false(t_))
            assigns_r = [(t, v, n, anc) for t, v, n, anc in assigns if id(n) in in_scope and live(n)]
            uses = lambda v: any(hir.contains(v, ("var", nm_)) for nm_ in names_r)
            raised = any(t == low and uses(v) for t, v, _, _ in assigns_r)
            key = "%s:%s#%d" % (short, SHORT[c["callee"]], i)
            if "bound" in parts:
              ctx.check(rule, "child-value-raises-the-bound:" + key, raised, fn=p, file=nd.fn["file"], line=c["line"],
                      what="the value of a fully searched child never reaches the node's lower bound (%s): later children are searched "
                           "with a stale window and the node returns a value that ignores this child" % low,
                      expected="%s = max(%s, %s) | if %s > %s { %s = %s }" % (low, low, r, r, low, low, r), found=[hir.fmt(v, 60) for t, v, _, _ in assigns if t == low])
            if (tracks_best or p == E) and "best" in parts:
                bs = [(n, anc) for t, v, n, anc in assigns_r if t == "best_score" and uses(v)]
                okb = False
                for n, anc in bs:
                    blk = [a_ for a_ in anc if a_.get("k") == "Block"][-1]
                    same_block = [x for x, _ in hir.walk(blk)]
                    okb = okb or any(t == "best_move" and v[:1] == ("ctor",) and str(v[1]).endswith("::Some") and any(x is n2 for x in same_block)
                                     for t, v, n2, _ in assigns)
                ctx.check(rule, "child-value-becomes-best-score-with-its-move:" + key, okb, fn=p, file=nd.fn["file"], line=c["line"],
                          what="the value of a fully searched child that beats the best score is not recorded as the best score together "
                               "with its move: the node stores / returns a score or a move that ignores this child (a table entry without "
                               "its move makes the root answer `none`)",
                          expected="best_score = %s; best_move = Some(<move>) in one block" % r, found=[hir.line(n) for n, _ in bs])


def b6(ctx, F, nodes):
    # where a best score is kept next to the bound it is only ever raised as well: `best_score = r` under `r > best_score`, or
    # r the re-search of a probe that beat it
    for p, nd in nodes.items():
        if LOWER[p] == "best_score":
            continue
        bad_bs, n_bs = [], 0
        for n, anc in hir.walk(nd.body):
            if n.get("k") != "Assign" or hir.strip(n["l"]).get("to", {}).get("name") != "best_score" or not any(a.get("k") == "Loop" for a in anc):
                continue
            n_bs += 1
            v = hir.canon(nd.sym(n["r"]))
            gt = [t for t, pol in nd.guards(n, in_loop=True) if pol is True]
            ok = False
            if v[0] == "var":
                r = v[1]
                if ("(best_score < %s)" % r) in gt:
                    ok = True
                else:
                    # (several branches may each have a local of that name: any of the searcher calls bound to it)
                    cands = [c_ for c_ in nd.calls if c_["let"] == r and c_["args"]] or ([nd.let_def(r)] if nd.let_def(r) is not None and nd.let_def(r)["args"] else [])
                    for d in cands:
                        hi = _norm(d["args"].get("beta", ("?",)))
                        if hi[0] == "neg" and hi[1][0] == "var" and ("(best_score < %s)" % hi[1][1]) in gt:
                            ok = True       # the re-search of a probe that beat the best score
            elif v[0] == "call" and v[1] == "std::cmp::Ord::max" and ("var", "best_score") in v[2]:
                ok = True
            if not ok:
                bad_bs.append((hir.line(n), "best_score = %s under %s" % (hir.fmt(v, 40), gt[-2:])))
        if n_bs:
            ctx.check("C09.B6", "best-score-only-raised:" + SHORT[p], not bad_bs, fn=p, file=nd.fn["file"], line=bad_bs[0][0] if bad_bs else nd.fn["span"][0],
                      what="the best score of the node is overwritten without having been beaten: a later, worse child lowers the value the "
                           "node returns and stores", expected="best_score = r only under r > best_score (or r = re-search of such a probe)",
                      found=bad_bs)
    for p, nd in nodes.items():
        low = LOWER[p]
        short = SHORT[p]
        if p != E:
            ctx.check("C09.B6", "beta-is-immutable:" + short, nd.pmut.get("beta") is False, fn=p, file=nd.fn["file"], nontrivial=False,
                      what="beta is a by-value, non-`mut` parameter (the compiler then rejects any assignment)", found=nd.pmut.get("beta"))
        bad = []
        n_assign = 0
        for n, anc in hir.walk(nd.body):
            if n.get("k") not in ("Assign", "AssignOp"):
                continue
            tgt = hir.strip(n["l"]).get("to", {}).get("name")
            if tgt not in (low, "beta"):
                continue
            n_assign += 1
            if n.get("k") == "AssignOp" or tgt == "beta":
                bad.append((hir.line(n), "%s %s" % (tgt, n.get("op", "="))))
                continue
            v = hir.canon(nd.sym(n["r"]))
            gt = [t for t, pol in nd.guards(n, in_loop=any(a.get("k") == "Loop" for a in anc)) if pol is True]
            ok = False
            if v[0] == "call" and v[1] == "std::cmp::Ord::max" and ("var", low) in v[2]:
                other = [x for x in v[2] if x != ("var", low)]
                ok = len(other) == 1 and other[0][0] == "var" and (nd.let_def(other[0][1]) is not None or p == Q)
                if ok and p != Q and not _probe_overwritten_when_better(nd, other[0][1]):
                    ok = False
                    bad.append((hir.line(n), "%s is the result of a null-window probe that can reach this assignment although it exceeded the "
                                             "best score (it is a bound, not a value: only its re-search may raise %s)" % (other[0][1], low)))
                    continue
            elif v[0] == "var":
                r = v[1]
                d = nd.let_def(r)
                if d is not None:
                    if ("(%s < %s)" % (low, r)) in gt:
                        ok = True
                    else:
                        # result of a re-search whose window starts at a value known to exceed the lower bound
                        hi = _norm(d["args"].get("beta", ("?",))) if d["args"] else ("?",)
                        if hi[0] == "neg" and hi[1][0] == "var" and ("(%s < %s)" % (low, hi[1][1])) in gt:
                            ok = True
                        if hi[0] == "neg" and hi[1][0] == "var" and ("(best_score < %s)" % hi[1][1]) in gt:
                            ok = True
            if not ok:
                bad.append((hir.line(n), "%s = %s under %s" % (tgt, hir.fmt(v, 60), gt[-2:])))
        ctx.check("C09.B6", "lower-bound-only-raised:" + short, not bad and n_assign >= 1, fn=p, file=nd.fn["file"],
                  line=bad[0][0] if bad else nd.fn["span"][0],
                  what="the node's lower bound (%s) may only be raised to a (negated) child result: `max(%s, r)`, or `r` under `r > %s` "
                       "(or the re-search of such an r). An unconditional or lowering assignment loses the best value found so far" % (low, low, low),
                  expected="%s = max(%s, r) | if r > %s { %s = r }" % (low, low, low, low), found={"other assignments": bad, "assignments": n_assign})
    # returns of the three searchers: reuse the census of C10.N4 (abort | table hit | dispatch | no-move leaf | cut-off | tail alpha)
    from . import p10
    before, nv = len(ctx.instances), len(ctx.violations)
    p10.n4(ctx, F)
    relabel(ctx, before, nv, "C09.B6")
    # ... and what a node without moves is worth (stalemate 0 / mate by distance, decided on the checked list where the plain search
    # decides it): a node that misjudges "no legal move" returns a value no plain search would (C10.N1)
    before, nv = len(ctx.instances), len(ctx.violations)
    p10.n1(ctx, F)
    relabel(ctx, before, nv, "C09.B7")
    # the root returns its best score
    nd = nodes[E]
    tail = hir.strip(nd.body).get("expr")
    t = hir.fmt(nd.sym(tail), 80) if tail is not None else None
    ctx.check("C09.B6", "root-returns-its-best-score", t is not None and t.startswith("v1::Some((best_move, best_score,"), fn=E, file=nd.fn["file"],
              what="the root's tail returns (best_move, best_score, ..)", found=t, nontrivial=False)
