"""C12 - move text round-trips; `position ... moves` accepts exactly legal moves.

Decides: (U1) the position command plays a move only under a condition that compares the *input text* with
`uci_notation()` of an element of the checked move list of the current game, and plays exactly the parsed value
that was matched; (U2) promotion letters of writer and reader are inverse; (U3) castling strings of writer and
reader agree and are the king's two-square move; (U4) every arm of the writer prints file 'a'+col, rank '1'+row
in the order origin, destination, and the en-passant ranks agree with the board surgery; the reader decodes the
four characters with the inverse arithmetic in the same order; (U5) every failing path reports an error without
playing anything.
Does not decide: that distinct legal moves always have distinct texts as a chess fact (C01's territory).
"""
from . import core, hir
from .common import (discr_map, sym_fn, dependence_nodes, enclosing_conditions, fmt_writes)

LEVEL = "other"
EXPLANATION = ("Data-dependence of the acceptance condition in uci::command_position on a comparison of the input token with "
               "Move::uci_notation of an element of the buffer filled by get_moves(.., true); string-building summary of "
               "Move::uci_notation folded per move kind/owner/promotion piece; the reader's literal tables and decoding "
               "arithmetic extracted from typed HIR and compared with the writer's.")

PT = "chess::piece::PieceType::"
PL = "chess::Player::"
MV = "chess::move_struct::Move::"
WR = "chess::move_struct::Move::uci_notation"
RD = "chess::move_struct::Move::from_uci_notation"
POS = "uci::command_position"


def SELF(f):
    return ("field", ("var", "self"), f)


def run(ctx):
    F = ctx.facts
    D = discr_map(F)
    u1_u5(ctx, F)
    u2(ctx, F, D)
    u3(ctx, F, D)
    u4(ctx, F, D)
    u6(ctx, F)
    from . import p20
    p20.history_plays_and_records(ctx, F, "C12.U8")       # "plays precisely that move": what the position command calls to play it


def _pat_words(pk):
    """string literals a pattern key mentions (also inside Some(..) / tuple sub-patterns)"""
    out = []
    if isinstance(pk, tuple):
        if pk[:1] == ("lit",) and len(pk) == 2 and isinstance(pk[1], str):
            out.append(pk[1])
        for x in pk[1:] if pk[:1] in (("or",), ("tup",)) else ():
            out += _pat_words(x)
        for x in (getattr(pk, "sub", None) or {}).values():
            out += _pat_words(x)
    return out


def u6(ctx, F, rule="C12.U6"):
    """the move list of a `position` command is played on the position the command states: the `startpos` branch installs a fresh
    start position unconditionally, the `fen` branch the game the importer built from the given text - never a game left over
    from an earlier command"""
    fn = F.fn(POS)
    body = fn["hir"]["body"]
    sym = hir.Sym(hir.Env(fn["hir"], F), F)
    arms = {}
    for n, anc in hir.walk(body):
        if n.get("k") == "Match" and n.get("src") == "Normal":
            t = {}
            for a in n["arms"]:
                # "startpos" / Some("startpos") / ("startpos", ..): the word anywhere in the arm's pattern
                words = [w_ for w_ in _pat_words(hir.pat_key(a["pat"])) if w_ in ("startpos", "fen")]
                if len(words) == 1:
                    t[words[0]] = a["body"]
            if "startpos" in t:
                arms = t
                break
    if not arms:
        ctx.anchor_missing(rule, "the `startpos` / `fen` branches of uci::command_position")
        return
    u7(ctx, F, arms, fn, sym, rule.replace("U6", "U7"))
    for word, arm in sorted(arms.items()):
        installs = []
        for n, anc in hir.walk(arm):
            if n.get("k") == "Assign" and hir.fmt(sym(n["l"]), 60).endswith("current_game"):
                v = sym(n["r"])
                g = [x for x in (hir.guards_of(n, arm, sym) or []) if x[0] in ("if", "arm") and x[3:4] != ("exit",)]
                installs.append((n, v, g))
        if word == "startpos":
            fresh = [i for i in installs if i[1][:1] == ("ctor",) and str(i[1][1]).endswith("::Some") and
                     any(isinstance(t_, tuple) and t_[:1] == ("call",) and str(t_[1]).endswith(("Game as std::default::Default>::default", "chess::Game::new"))
                         for t_ in hir.subterms(i[1]))]
            ok = any(not g for _, _, g in fresh)
            ctx.check(rule, "startpos-installs-a-fresh-start-position", ok, fn=POS, file=fn["file"], line=hir.line(arm),
                      what="`position startpos ...` does not always begin from a freshly built start position: the moves can be played on a "
                           "game left over from an earlier command",
                      expected="data.current_game = Some(Game::default()) on every path of the branch",
                      found=[(hir.fmt(v, 60), [hir.fmt(x[1], 60) for x in g]) for _, v, g in installs])
        else:
            # the game installed on the accepting path is what Game::new returned for the text of this command
            news = [c for c, _ in hir.walk(arm) if c.get("k") in ("Call", "MethodCall") and (hir.callee_of(c) or "") == "chess::Game::new"]
            some = [i for i in installs if i[1][:1] == ("ctor",) and str(i[1][1]).endswith("::Some")]
            ok = len(news) >= 1 and len(some) >= 1 and all(
                all(x[0] == "arm" and "Game::new" in hir.fmt(x[1], 200) for x in g) for _, _, g in some)
            ctx.check(rule, "fen-installs-the-imported-game", ok, fn=POS, file=fn["file"], line=hir.line(arm),
                      what="`position fen ...` must install exactly the game the importer returned for the given text (whenever it "
                           "returned one)", expected="match Game::new(&fen) { Ok(g) => data.current_game = Some(g), .. }",
                      found=[(hir.fmt(v, 60), [hir.fmt(x[1], 60) for x in g]) for _, v, g in installs])


def u7(ctx, F, arms, fn, sym, rule="C12.U7"):
    """the moves given after the keyword `moves` are played: whatever condition guards the play loop is made true, in the
    `startpos` branch and in the `fen` branch, under a comparison of a token with the word "moves" (a branch that never sets it
    silently ignores the move list)"""
    body = fn["hir"]["body"]
    host = _play_host(F)
    plays = [c for c, _ in hir.walk(host["hir"]["body"]) if c.get("k") == "MethodCall" and hir.callee_of(c) == "chess::Game::push_history"] \
        if host is not None else []
    flags = set()
    for c in plays:
        for g in hir.guards_of(c, host["hir"]["body"], hir.Sym(hir.Env(host["hir"], F), F)) or []:
            if g[0] == "if" and g[2] is True and isinstance(g[1], tuple) and g[1][:1] == ("var",):
                flags.add(g[1][1])
    # the place that plays a move can be reached at all (a guard that is literally false switches the move list off)
    if host is not None:
        hsym = hir.Sym(hir.Env(host["hir"], F), F)
        dead = [hir.line(c) for c in plays
                if (lambda t_: t_ == ("lit", False) or hir.all_leaves_false(t_))(hir.fold(hir.guards_term(hir.guards_of(c, host["hir"]["body"], hsym) or []), {}))]
        ctx.check(rule, "the-play-site-can-be-reached", bool(plays) and not dead, fn=host["path"], file=host["file"], line=dead[0] if dead else None,
                  what="the statement that plays the moves of a `position` command stands under a condition that is never true", found=dead)
    if host is None or host["path"] != fn["path"] or len(flags) != 1:
        return          # the list is not played under one boolean local of command_position: nothing this rule can say
    flag = next(iter(flags))

    def mentions_moves(t):
        return any(isinstance(x, tuple) and x == ("lit", "moves") for x in hir.subterms(t))

    def word_test(t, word, outer=(), arm_word=None):
        """the condition with every token variable it mentions standing for `word` (names bound outside the branch stand for the
        branch's own keyword)"""
        a = {x: ("lit", arm_word if (x[1] in outer and arm_word) else word) for x in hir.subterms(t) if isinstance(x, tuple) and x[:1] == ("var",)}
        for x in hir.subterms(t):
            if isinstance(x, tuple) and x[:1] == ("call",) and str(x[1]).endswith("::next"):
                a[x] = ("ctor", "std::prelude::v1::Some", (("lit", word),))
        return hir.fold(t, a)

    def closure_value(clo, sym_):
        """value of a closure body `{ if c { side effects; v1 } else { v2 } }` as a term (side-effect statements dropped)"""
        def val(e):
            e = hir.strip(e)
            if e.get("k") == "Block":
                return val(e["expr"]) if e.get("expr") is not None else None
            if e.get("k") == "If" and e.get("else") is not None:
                a_, b_ = val(e["then"]), val(e["else"])
                return ("if", sym_(e["cond"]), a_, b_) if a_ is not None and b_ is not None else None
            return sym_(e)
        return val(clo["body"])
    for word, arm in sorted(arms.items()):
        ok = False
        for n, anc in hir.walk(arm):
            if n.get("k") == "Assign" and hir.strip(n["l"]).get("k") == "Path" and hir.strip(n["l"])["to"].get("name") == flag:
                v = sym(n["r"])
                if v == ("lit", True):
                    conds = [a_ for a_ in anc if a_.get("k") == "If"]
                    # a name the test reads that is bound outside this branch is the branch's own word (`startpos` / `fen`), not a token
                    inner_ids = set()
                    stack_ = [arm]
                    while stack_:
                        y_ = stack_.pop()
                        if isinstance(y_, list):
                            stack_.extend(y_)
                        elif isinstance(y_, dict):
                            if y_.get("k") == "PBind" and "id" in y_:
                                inner_ids.add(y_["id"])
                            stack_.extend(v_ for k_, v_ in y_.items() if isinstance(v_, (dict, list)) and k_ not in ("sp", "osp", "to"))

                    def outer_names(cnode):
                        return {p_["to"]["name"] for p_, _ in hir.walk(cnode) if p_.get("k") == "Path" and (p_.get("to") or {}).get("res") == "local"
                                and p_["to"].get("id") not in inner_ids}
                    ok = ok or any(mentions_moves(sym(a_["cond"])) and any(x is n for x, _ in hir.walk(a_["then"])) and
                                   word_test(sym(a_["cond"]), "moves", outer_names(a_["cond"]), word) == ("lit", True) and
                                   word_test(sym(a_["cond"]), "8/8", outer_names(a_["cond"]), word) == ("lit", False)
                                   for a_ in conds)
                elif mentions_moves(v):
                    ok = word_test(v, "moves") == ("lit", True) and word_test(v, "x") == ("lit", False)      # flag = (next token == "moves")
                elif v[:1] != ("lit",):
                    ok = True       # the flag is computed elsewhere (a helper's result): nothing to decide here
        # a `take_while` that collects the words of the FEN stops at the keyword (and only there): otherwise the move list is
        # swallowed into the FEN text
        for n, anc in hir.walk(arm):
            if n.get("k") == "MethodCall" and n["name"] == "take_while" and n.get("args"):
                clo = hir.strip(n["args"][0])
                if clo.get("k") == "Closure" and clo.get("params"):
                    pn_ = hir.pat_names(clo["params"][0])
                    cv = closure_value(clo, sym)
                    if pn_ and cv is not None:
                        at_kw = hir.fold(cv, {("var", pn_[0]): ("lit", "moves")})
                        at_other = hir.fold(cv, {("var", pn_[0]): ("lit", "8/8")})
                        ok = ok and at_kw == ("lit", False) and at_other == ("lit", True)
        ctx.check(rule, "move-list-played-after-the-keyword:%s" % word, ok, fn=fn["path"], file=fn["file"], line=hir.line(arm),
                  what="in this branch of the position command nothing turns on the playing of the move list when the keyword `moves` "
                       "is met: the moves are silently ignored", expected="%s = true under token == \"moves\"" % flag, found=ok)


def file_char(part, src):
    if part[0] != "ch":
        return False
    x = part[1]
    return x[0] == "cast" and x[2] == "char" and x[1] in (("bin", "+", ("cast", src, "u8"), ("lit", 97)),
                                                          ("bin", "+", ("lit", 97), ("cast", src, "u8")))


def rank_char(part, src):
    if part[0] != "ch":
        return False
    x = part[1]
    return x[0] == "cast" and x[2] == "char" and x[1] in (("bin", "+", ("cast", src, "u8"), ("lit", 49)),
                                                          ("bin", "+", ("lit", 49), ("cast", src, "u8")))


def col_of(src):
    return ("call", "chess::position::Position::col", (src,))


def row_of(src):
    return ("call", "chess::position::Position::row", (src,))


def arm_of(nf, variant):
    if nf[0] != "match" or nf[1] != ("var", "self"):
        return None
    for pk, g, body in nf[2]:
        if pk == ("variant", MV + variant):
            return body
    return None


def text_of(parts):
    out = ""
    for p in parts[1:]:
        if p[0] == "ch" and p[1][0] == "lit" and isinstance(p[1][1], str):
            out += p[1][1]
        else:
            return None
    return out


# ---------------------------------------------------------------------------

def _play_host(F):
    """command_position, or - when the move list is played by a helper that could not be expanded in place (it returns from inside
    its loop with its own error type) - that helper, read with its own bindings"""
    fn = F.fn(POS)

    def plays_in(h):
        return any(n.get("k") == "MethodCall" and hir.callee_of(n) in ("chess::Game::push_history", "chess::Game::push") for n, _ in hir.walk(h["body"]))
    if plays_in(fn["hir"]):
        return fn
    seen, todo = set(), [fn["hir"]]
    while todo:
        h = todo.pop()
        for n, _ in hir.walk(h["body"]):
            if n.get("k") in ("Call", "MethodCall"):
                c = hir.callee_of(n)
                if c in hir.HELPER_HIR and c not in seen:
                    seen.add(c)
                    hh = hir.HELPER_HIR[c]
                    if plays_in(hh):
                        return dict(fn, hir=hh, helper=c)
                    todo.append(hh)
    return fn


def u1_u5(ctx, F):
    fn = _play_host(F)
    body = fn["hir"]["body"]
    env = hir.Env(fn["hir"], F)
    sym = hir.Sym(env, F)
    plays = hir.calls(body, "Game::push_history") + [c for c in hir.calls(body, "Game::push")
                                                     if not (hir.callee_of(c[0]) or "").endswith("push_history")]
    ctx.floor("C12.U1", "sites that play a move in command_position", len(plays), 1)
    # the checked buffer: get_moves(&mut X, true)
    bufs = []
    for c, anc in hir.calls(body, "Game::get_moves"):
        a = c["args"]
        flag = hir.strip(a[1]).get("v") if len(a) > 1 else None
        b = hir.strip(a[0])
        bufs.append((b.get("to", {}).get("name"), flag, c))
    checked = [b for b in bufs if b[1] is True]
    for (name, flag, c) in bufs:
        ctx.check("C12.U1", "membership-list-is-the-checked-list", flag is True, fn=POS, file=fn["file"], line=hir.line(c),
                  what="the list a move string is validated against must be generated in checked mode (king safety verified)",
                  expected="get_moves(&mut moves, true)", found="get_moves(.., %s)" % flag)
    for call, anc in plays:
        played = sym(call["args"][0])
        conds = enclosing_conditions(call, fn["hir"])
        text_cmp = False
        same_value = False
        details = []
        for c in conds:
            for n in dependence_nodes(c, fn["hir"]):
                if n.get("k") == "Binary" and n["op"] == "==":
                    l, r = sym(n["l"]), sym(n["r"])
                    for a, b in ((l, r), (r, l)):
                        if a[0] == "call" and str(a[1]) == WR and _is_input_token(b, fn, sym):
                            # receiver must be an element of the checked buffer (closure parameter of an iterator over it)
                            text_cmp = _element_of(n, c, checked, fn, sym)
                            details.append("%s == %s" % (hir.fmt(a, 60), hir.fmt(b, 40)))
                        if a == played and b[0] == "var":
                            same_value = True
        ctx.check("C12.U1", "acceptance-compares-input-text-with-text-of-a-legal-move", text_cmp, fn=POS, file=fn["file"],
                  line=hir.line(call),
                  what="a move is played although no condition compares the input string with uci_notation() of a member of the "
                       "checked move list: the parser infers the move kind from the board (EnPassant stores no rows), so a "
                       "different string can alias a legal move (c2d3 played as c5xd6)",
                  expected="push_history(m) control-dependent on allowed.uci_notation() == <input token> for allowed in moves",
                  found={"conditions": [hir.fmt(sym(c), 200) for c in conds], "text comparisons": details})
        # the membership test is NECESSARY for the play: with it assumed false the guard of the play site must be false on every path
        # (a disjunct such as `already_checked || legal.any(..)` lets a move through that was never compared with the legal list)
        sym2 = hir.Sym(env, F, through=True)
        members = []
        for n, a2 in hir.walk(fn["hir"]["body"]):
            if n.get("k") == "MethodCall" and n["name"] in ("any", "find", "position", "contains") and \
                    any(x.get("k") == "MethodCall" and x["name"] == "uci_notation" for x, _ in hir.walk(n)):
                members.append(sym2(n))
        term = hir.guards_term(hir.guards_of(call, fn["hir"]["body"], sym2) or [])
        folded = hir.fold(term, {m_: ("lit", False) for m_ in members}) if members else term
        nec = bool(members) and hir.all_leaves_false(folded)
        ctx.check("C12.U1", "membership-test-is-necessary-for-playing", nec, fn=POS, file=fn["file"], line=hir.line(call),
                  what="a move can be played on a path where the comparison with the legal moves of the current position failed or was "
                       "skipped (the acceptance condition has an alternative that does not look at the position reached)",
                  expected="no play when `legal.any(|m| m == parsed && m.uci_notation() == text)` is false", found=hir.fmt(folded, 200))
        # ... and it is a conjunction: the parsed move must BE the legal move and its text must BE the input (either alone lets through a
        # string that aliases another move, or plays a parsed value that is not the legal move it was matched with)
        for n, a2 in hir.walk(fn["hir"]["body"]):
            if n.get("k") == "MethodCall" and n["name"] in ("any", "find", "position") and n.get("args") and \
                    any(x.get("k") == "MethodCall" and x["name"] == "uci_notation" for x, _ in hir.walk(n)):
                clo = hir.strip(n["args"][0])
                if clo.get("k") != "Closure":
                    continue
                cb = sym2(clo["body"])
                atoms_t, atoms_e = [], []
                for t_ in hir.subterms(cb):
                    if isinstance(t_, tuple) and t_[:1] == ("bin",) and t_[1] in ("==", "!=") and len(t_) == 4:
                        if any(isinstance(x_, tuple) and x_[:1] == ("call",) and str(x_[1]) == WR for x_ in t_[2:4]):
                            atoms_t.append(t_)
                        elif not any(isinstance(x_, tuple) and x_[:1] == ("lit",) for x_ in t_[2:4]):
                            atoms_e.append(t_)
                if len(atoms_t) == 1 and len(atoms_e) == 1:
                    tt = {}
                    for e_ in (True, False):
                        for x_ in (True, False):
                            # (e_, x_) say whether the two things are *equal*: an atom written with `!=` takes the opposite value
                            tt[(e_, x_)] = hir.fold(cb, {atoms_e[0]: ("lit", e_ == (atoms_e[0][1] == "==")), atoms_t[0]: ("lit", x_ == (atoms_t[0][1] == "=="))})
                    okc = tt[(True, True)] == ("lit", True) and all(tt[k_] == ("lit", False) for k_ in ((True, False), (False, True), (False, False)))
                    ctx.check("C12.U1", "acceptance-needs-both-the-same-move-and-the-same-text", okc, fn=POS, file=fn["file"], line=hir.line(n),
                              what="a legal move matches the input only if it equals the parsed move AND its text equals the input string",
                              expected="m == parsed && m.uci_notation() == text", found={str(k_): hir.fmt(v_, 40) for k_, v_ in tt.items()})
        ctx.check("C12.U1", "plays-the-matched-value", same_value or text_cmp and _plays_parsed(played), fn=POS, file=fn["file"],
                  line=hir.line(call), what="the move played must be the parsed value that was matched against the legal list",
                  found=hir.fmt(played, 80))
    # U5: failing paths
    acc = None
    rej = None
    from .common import enclosing_conditions_ex
    for call, _ in plays:
        for cnode, ifn, form in enclosing_conditions_ex(call, fn["hir"]):
            if ifn.get("k") != "If":
                continue
            # the branch taken when the acceptance condition fails
            other = {"then": ifn.get("else"), "else": ifn.get("then"), "exit": ifn.get("then")}.get(form)
            if any(x.get("k") == "Binary" and x.get("op") == "==" for d in dependence_nodes(cnode, fn["hir"]) for x in [d]):
                acc, rej = ifn, other
    ok = False
    found = None
    if acc is not None and rej is not None:
        els = rej
        has_ret = any(x.get("k") == "Ret" for x, _ in hir.walk(els))
        has_play = any(x.get("k") == "MethodCall" and x["name"] in ("push", "push_history") for x, _ in hir.walk(els))
        ok = has_ret and not has_play
        found = {"else_returns_error": has_ret, "else_plays": has_play}
    ctx.check("C12.U5", "rejected-move-returns-error-without-playing", ok, fn=POS, file=fn["file"],
              line=hir.line(acc) if acc else None,
              what="when the string is not the text of a legal move the command must report an error and play nothing", found=found)
    # parse failure: let-else on from_uci_notation diverges with an error (type system guarantees divergence; check it is a return)
    parse = [n for n, _ in hir.walk(body) if n.get("k") == "SLet" and n.get("els") is not None and
             RD in hir.fmt(sym(n["init"]), 300).replace("Move::from_uci_notation", RD)]
    okp = bool(parse) and all(any(x.get("k") == "Ret" for x, _ in hir.walk(p["els"])) and
                              not any(x.get("k") == "MethodCall" and x["name"] in ("push", "push_history") for x, _ in hir.walk(p["els"]))
                              for p in parse)
    ctx.check("C12.U5", "unparsable-move-returns-error-without-playing", okp, fn=POS, file=fn["file"],
              what="an unparsable move string must make the command return an error", found=len(parse))
    # uci_talk prints `error:` for Err and does not propagate it with `?`
    ut = F.fn("uci::uci_talk")
    ws, usym = fmt_writes(ut, F)
    callsite = hir.calls(ut["hir"]["body"], "uci::command_position")
    ok = False
    if callsite:
        c, anc = callsite[0]
        # enclosing `if let Err(err) = command_position(..)` whose then-branch prints "error:"
        for a in reversed(anc):
            if a.get("k") == "If":
                txt = [w[1] for w in ws if any(x is w[0] for x, _ in hir.walk(a["then"]))]
                if any(t and t.startswith("error:") for t in txt):
                    ok = True
                break
            if a.get("k") == "Match" and a.get("src") == "TryDesugar":
                break
    ctx.check("C12.U5", "uci_talk-reports-error-and-continues", ok, fn="uci::uci_talk", file=ut["file"],
              what="the main loop must print `error: ...` for a failed position command instead of unwinding/propagating",
              found=len(callsite))


def _is_input_token(t, fn, sym):
    """The loop variable of `for move_str in terms.by_ref()` (a parameter-derived token)."""
    if t[0] != "var":
        return False
    for n, anc in hir.walk(fn["hir"]["body"]):
        if n.get("k") == "Match" and n.get("src") == "ForLoopDesugar":
            s = hir.fmt(sym(n["e"]), 200)
            if "Iterator::next" in s:
                for a in n["arms"]:
                    if t[1] in hir.pat_names(a["pat"]):
                        return True
    return False


def _element_of(cmp_node, cond, checked, fn, sym):
    """The uci_notation receiver is the parameter of a closure passed to an iterator adaptor over a checked buffer."""
    names = {b[0] for b in checked}
    # the adaptor call may sit in the condition itself or in the initialiser of a local the condition reads (`let ok = ..any(..)`)
    for n, anc in hir.walk(fn["hir"]["body"]):
        if n.get("k") == "MethodCall" and n["name"] in ("any", "find", "position", "filter", "all"):
            recv = hir.fmt(sym(n["recv"]), 200)
            over_checked = any(("iter(%s)" % nm) in recv.replace("<[T]>::iter", "iter").replace("<impl [T]>::iter", "iter") or
                               ("(%s)" % nm) in recv for nm in names)
            clo = hir.strip(n["args"][0]) if n["args"] else {}
            if clo.get("k") == "Closure" and any(x is cmp_node for x, _ in hir.walk(clo["body"])) and over_checked:
                params = [nm for p in clo["params"] for nm in hir.pat_names(p)]
                for side in (cmp_node["l"], cmp_node["r"]):
                    s = hir.strip(side)
                    if s.get("k") == "MethodCall" and s["name"] == "uci_notation":
                        r = hir.strip(s["recv"])
                        if r.get("k") == "Path" and r["to"].get("name") in params:
                            return True
    # also accepted: a `for allowed in &moves` loop
    return False


def _plays_parsed(played):
    return played[0] in ("var", "match", "call")


# ---------------------------------------------------------------------------

def eval_text(nf, variant, env, D):
    """Text the writer produces for a move of this kind under concrete field values (case folding), or None."""
    from .common import eval_move_text
    return eval_move_text(nf, variant, env, D)


def coords_env(r1, c1, r2, c2):
    S, E = ("field", ("var", "self"), "start"), ("field", ("var", "self"), "end")
    return {("call", "chess::position::Position::row", (S,)): ("lit", r1), ("call", "chess::position::Position::col", (S,)): ("lit", c1),
            ("call", "chess::position::Position::row", (E,)): ("lit", r2), ("call", "chess::position::Position::col", (E,)): ("lit", c2)}


def sq(r, c):
    return chr(97 + c) + chr(49 + r)


SAMPLE = [(r, c, (r + 3) % 8, (c + 5) % 8) for r in range(8) for c in range(8)]


def u2(ctx, F, D):
    w = F.fn(WR)
    nf = sym_fn(w, F)
    wtab = {}
    for t, L in (("Queen", "q"), ("Rook", "r"), ("Bishop", "b"), ("Knight", "n")):
        bad = []
        for (r1, c1, r2, c2) in SAMPLE[::7]:
            env = coords_env(r1, c1, r2, c2)
            env[SELF("new_piece")] = ("variant", PT + t)
            got = eval_text(nf, "Promotion", env, D)
            if got != sq(r1, c1) + sq(r2, c2) + L:
                bad.append(((r1, c1, r2, c2), got))
        env = coords_env(6, 0, 7, 0)
        env[SELF("new_piece")] = ("variant", PT + t)
        g = eval_text(nf, "Promotion", env, D)
        wtab[t] = g[4:] if g and len(g) >= 5 else None
        ctx.check("C12.U2", "writer:promotion-text:%s" % t, not bad, fn=WR, file=w["file"], line=w["span"][0],
                  what="a promotion must be written as origin, destination and the lower-case letter of the piece promoted to",
                  expected="e.g. a7a8%s" % L, found=bad[:3])
    r = F.fn(RD)
    rtab = {}
    node = None
    for n, anc in hir.walk(r["hir"]["body"]):
        if n.get("k") == "Match" and n.get("src") == "Normal":
            t = {}
            for a in n["arms"]:
                pk = hir.pat_key(a["pat"])
                b = hir.strip(a["body"])
                kind = b.get("to", {}).get("path", "") if b.get("k") == "Path" else ""
                if kind.startswith(PT):
                    lits = [pk[1]] if pk[0] == "lit" else [x[1] for x in pk[1:] if isinstance(x, tuple) and x[0] == "lit"] if pk[0] == "or" else []
                    for L in lits:
                        t[L] = kind[len(PT):]
            if t and set(t.values()) <= {"Queen", "Rook", "Bishop", "Knight"}:
                rtab, node = t, n
    # letters matched as bytes (b'q') are the same letters
    rtab = {(chr(k) if isinstance(k, int) and 0 < k < 128 else k): v for k, v in rtab.items()}
    bv = reader_by_value(F, D)
    if bv == [] and all(L in ("q", "r", "b", "n") for L in wtab.values()):
        # decided on the values: `e7e8q|r|n|b` are read as promotions to exactly that piece (see reader_by_value)
        for t, L in wtab.items():
            ctx.check("C12.U2", "reader-inverts-writer:%s" % t, True, fn=RD, file=r["file"], line=hir.line(node) if node else None,
                      what="the promotion letter the writer produces is read back as a different piece", expected=t, found=t)
        return
    ctx.floor("C12.U2", "reader promotion letters", len(rtab), 4)
    for t, L in wtab.items():
        ctx.check("C12.U2", "reader-inverts-writer:%s" % t, rtab.get(L) == t, fn=RD, file=r["file"],
                  line=hir.line(node) if node else None,
                  what="the promotion letter the writer produces is read back as a different piece", expected=t, found=rtab.get(L))


def u3(ctx, F, D):
    w = F.fn(WR)
    nf = sym_fn(w, F)
    wtab = {}
    std = {("CastlingShort", "White"): "e1g1", ("CastlingShort", "Black"): "e8g8",
           ("CastlingLong", "White"): "e1c1", ("CastlingLong", "Black"): "e8c8"}
    for (variant, owner), text in std.items():
        got = eval_text(nf, variant, {SELF("owner"): ("variant", PL + owner)}, D)
        wtab[(variant, owner)] = got
        ctx.check("C12.U3", "writer:%s %s" % (variant, owner), got == text, fn=WR, file=w["file"], line=w["span"][0],
                  what="castling must be written as the king's two-square move", expected=text, found=got)
    # reader: evaluate from_uci_notation on each castling text, with the mover's king on / off its home square
    from .common import summarize_with_returns, position_values
    from . import inline
    r = F.fn(RD)
    try:
        rnf = hir.unsuffix(position_values(summarize_with_returns(r, F), F))
    except (hir.Unsupported, inline.Cannot) as e:
        ctx.check("C12.U3", "reader-summarisable", False, fn=RD, file=r["file"], nontrivial=False,
                  what="Move::from_uci_notation can no longer be summarised (loop / unsupported shape): %s" % e)
        return
    params = [p_["pat"].get("name") for p_ in r["hir"]["params"]]
    sname, gname = params[0], params[1]
    n_ok = 0
    for (variant, owner), text in std.items():
        row = 0 if owner == "White" else 7
        king = ("call", "chess::Game::get_king_position", (("var", gname), ("variant", PL + owner)))
        kfield = None
        base = {("var", sname): ("lit", text)}
        home = dict(base)
        home[king] = ("pos", row, 4)
        from .common import chess_evalcalls
        ev = chess_evalcalls(None, {})
        got = hir.fold(hir.fold(rnf, home, D, None, ev), home, D, None, ev)
        want = ("ctor", "std::prelude::v1::Some", (("struct", MV + variant, (("owner", ("variant", PL + owner)),)),))
        ok = got == want
        n_ok += ok
        ctx.check("C12.U3", "reader:%s" % text, ok, fn=RD, file=r["file"],
                  what="the reader maps a castling string to a different move than the writer prints it for",
                  expected=(variant, owner), found=hir.fmt(got, 160))
        away = dict(base)
        away[king] = ("pos", 3, 3)
        got2 = hir.fold(hir.fold(rnf, away, D, None, ev), away, D, None, ev)
        castle = got2[0] == "ctor" and got2[2] and got2[2][0][0] == "struct" and str(got2[2][0][1]).startswith(MV + "Castling")
        undecided = hir.contains(got2, ("struct", MV + variant, (("owner", ("variant", PL + owner)),)))
        ctx.check("C12.U3", "reader:%s-only-with-king-on-e%d" % (text, row + 1), not castle and not undecided, fn=RD, file=r["file"],
                  what="the castling reading of the string must require the mover's king on its home square "
                       "(otherwise e1g1 by a rook or queen is misread)", expected="no castling move when the king is elsewhere",
                  found=hir.fmt(got2, 160))
    ctx.floor("C12.U3", "reader castling literals", n_ok, 4)


def u4(ctx, F, D):
    w = F.fn(WR)
    nf = sym_fn(w, F)
    for variant in ("Normal",):
        bad = []
        for (r1, c1, r2, c2) in SAMPLE:
            got = eval_text(nf, variant, coords_env(r1, c1, r2, c2), D)
            if got != sq(r1, c1) + sq(r2, c2):
                bad.append(((r1, c1, r2, c2), got))
        ctx.check("C12.U4", "writer:%s-coordinates" % variant, not bad, fn=WR, file=w["file"], line=w["span"][0],
                  what="move text must be file('a'+col) rank('1'+row) of the origin, then of the destination (64 sampled coordinate pairs "
                       "covering every row and column)", expected="e.g. (1,4)->(3,4) = e2e4", found=bad[:3])
    # en passant: squares from the board surgery of Game::push
    rows = en_passant_rows(F)
    ctx.check("C12.U4", "push:en-passant-rows-extracted", rows is not None, fn="chess::Game::push", file="src/chess/mod.rs",
              what="could not extract the en-passant squares from Game::push", nontrivial=False)
    for owner in ("White", "Black"):
        bad = []
        if rows:
            o, nw = rows[owner]["old"], rows[owner]["new"]
            for c1 in range(8):
                for c2 in (c1 - 1, c1 + 1):
                    if 0 <= c2 <= 7:
                        env = {SELF("owner"): ("variant", PL + owner), SELF("start_col"): ("lit", c1), SELF("end_col"): ("lit", c2)}
                        got = eval_text(nf, "EnPassant", env, D)
                        if got != sq(o, c1) + sq(nw, c2):
                            bad.append(((c1, c2), got, sq(o, c1) + sq(nw, c2)))
        ctx.check("C12.U4", "writer:EnPassant-%s-text-matches-board-surgery" % owner, bool(rows) and not bad, fn=WR, file=w["file"], line=w["span"][0],
                  what="the en-passant text must name the squares Game::push actually moves the pawn between (a wrong rank makes the legal "
                       "capture unplayable by its standard text and accepts a non-standard one)",
                  expected="file(start_col)+rank(old row) file(end_col)+rank(new row)", found=bad[:3])
    # reader decoding order and arithmetic
    r = F.fn(RD)
    env = hir.Env(r["hir"], F)
    sym = hir.Sym(env, F)
    seq = []
    for n, anc in hir.walk(r["hir"]["body"]):
        if n.get("k") == "SLet" and n["pat"].get("k") == "PBind":
            s = sym(n["init"])
            direct = any(c.get("k") == "MethodCall" and c["name"] == "next" for c, _ in hir.walk(n["init"]))
            if direct:
                off = None
                for x in hir.subterms(s):
                    if x and x[0] == "call" and str(x[1]).endswith(("wrapping_sub", "checked_sub")) and len(x[2]) == 2:
                        off = hir.sym_int(x[2][1])
                    if x and x[0] == "bin" and x[1] == "-":
                        off = hir.sym_int(x[3]) if hir.sym_int(x[3]) is not None else off
                seq.append((n["pat"]["name"], off))
    ok = [o for _, o in seq] == [97, 49, 97, 49]
    bv = reader_by_value(F, D)
    if bv is not None:
        # decided on the values: sampled coordinate texts give exactly their two squares, undecodable texts give nothing
        ctx.check("C12.U4", "reader:decodes-file,rank,file,rank", not bv, fn=RD, file=r["file"],
                  what="the reader must decode the four characters as file-'a', rank-'1', file-'a', rank-'1' in that order and read the "
                       "kind of move off the board (evaluated on 64 coordinate texts, promotion suffixes, undecodable texts and five "
                       "board situations: en passant / capture / push / piece move / empty origin)",
                  expected="`e2e4` -> start e2, end e4; `i2e4`, `e2e9`, `e2` -> no move; pawn onto an empty diagonal -> en passant", found=bv[:4])
        return
    if not ok:
        # the byte may be read in one `let` and decoded in another (a helper taking the two bytes of a square): pair every decoding
        # with the read it depends on; the reads in source order must be decoded with 'a', '1', 'a', '1'
        from .common import dependence_nodes
        reads = [n for n, _ in hir.walk(r["hir"]["body"]) if n.get("k") == "SLet" and n["pat"].get("k") == "PBind" and n.get("init") is not None
                 and any(c.get("k") == "MethodCall" and c["name"] == "next" for c, _ in hir.walk(n["init"]))]
        by_id = {n["pat"]["id"]: i for i, n in enumerate(reads)}
        paired = {}
        for n, anc in hir.walk(r["hir"]["body"]):
            if n.get("k") == "SLet" and n["pat"].get("k") == "PBind" and n.get("init") is not None:
                off = None
                for x, _ in hir.walk(n["init"]):
                    if x.get("k") == "MethodCall" and x["name"] in ("wrapping_sub", "checked_sub") and x.get("args"):
                        off = hir.sym_int(sym(x["args"][0]))
                    if x.get("k") == "Binary" and x.get("op") == "-" and hir.sym_int(sym(x["r"])) is not None:
                        off = hir.sym_int(sym(x["r"]))
                if off is None:
                    continue
                deps = {by_id[d["to"]["id"]] for d in dependence_nodes(n["init"], r["hir"]) if d.get("k") == "Path" and d["to"].get("res") == "local"
                        and d["to"].get("id") in by_id}
                if n["pat"]["id"] in by_id:
                    deps.add(by_id[n["pat"]["id"]])
                if len(deps) == 1:
                    paired.setdefault(next(iter(deps)), []).append(off)
        seq = [("read#%d" % i, paired.get(i)) for i in range(len(reads))]
        ok = len(reads) == 4 and [paired.get(i) for i in range(4)] == [[97], [49], [97], [49]]
    ctx.check("C12.U4", "reader:decodes-file,rank,file,rank", ok, fn=RD, file=r["file"],
              what="the reader must decode the four characters as file-'a', rank-'1', file-'a', rank-'1' in that order",
              expected=[97, 49, 97, 49], found=seq)
    if ok:
        names = [n for n, _ in seq]
        want = {"start": (names[1], names[0]), "end": (names[3], names[2])}
        for n, anc in hir.walk(r["hir"]["body"]):
            if n.get("k") == "SLet" and n["pat"].get("k") == "PBind" and n["pat"]["name"] in want:
                pn = n["pat"]["name"]
                cs = [c for c, _ in hir.walk(n["init"]) if c.get("k") in ("Call", "MethodCall") and
                      (hir.callee_of(c) or "").endswith(("Position::new", "Position::new_assert"))]
                got = None
                if cs:
                    a = cs[0]["args"]
                    got = (hir.strip(a[0]).get("to", {}).get("name"), hir.strip(a[1]).get("to", {}).get("name"))
                ctx.check("C12.U4", "reader:%s=(row,col)" % pn, got == want[pn], fn=RD, file=r["file"], line=hir.line(n),
                          what="the reader builds the %s square from the wrong characters" % pn, expected=want[pn], found=got)


def reader_by_value(F, D):
    """The reader's summary folded on literal texts.  [] = every sampled text is read as its two squares (all move kinds the board
    may select agree on them), promotion letters give their piece, undecodable texts give no move; a list of failing cases
    otherwise; None when the summary cannot be decided on literal text (the caller falls back to the structural reading)."""
    from .common import summarize_with_returns, position_values, chess_evalcalls
    from . import inline
    if hasattr(F, "_reader_by_value"):
        return F._reader_by_value
    F._reader_by_value = None
    F._reader_by_value = _reader_by_value(F, D)
    return F._reader_by_value


def _reader_by_value(F, D):
    from .common import summarize_with_returns, position_values, chess_evalcalls
    from . import inline
    r = F.fn(RD)
    try:
        rnf = hir.unsuffix(position_values(summarize_with_returns(r, F), F))
    except (hir.Unsupported, inline.Cannot):
        return None
    params = [p_["pat"].get("name") for p_ in r["hir"]["params"]]
    sname = params[0]
    ev = chess_evalcalls(None, {})

    def run(text):
        a = {("var", sname): ("lit", text)}
        v = hir.fold(rnf, a, D, None, ev)
        return hir.fold(v, a, D, None, ev)

    def moves(v):
        return [t for t in hir.subterms(v) if isinstance(t, tuple) and t[:1] == ("struct",) and str(t[1]).startswith(MV)]

    def undecided_text(v):
        # the text itself must be gone from the result: whatever is left undecided is about the board
        return any(isinstance(t, tuple) and t[:1] == ("lit",) and isinstance(t[1], str) and len(t[1]) > 1 for t in hir.subterms(v)) or \
            any(isinstance(t, tuple) and t[:1] == ("call",) and ("Iterator::n" in str(t[1]) or "<impl str>" in str(t[1])) for t in hir.subterms(v))
    bad = []
    castles = ("e1g1", "e8g8", "e1c1", "e8c8")
    n = 0
    for (r1, c1, r2, c2) in SAMPLE:
        text = sq(r1, c1) + sq(r2, c2)
        if text in castles:
            continue
        v = run(text)
        if undecided_text(v):
            return None
        ms = moves(v)
        n += 1
        if not ms:
            bad.append((text, "no move"))
            continue
        for m in ms:
            f = dict(m[2])
            if "start" in f and "end" in f:
                if f["start"] != ("pos", r1, c1) or f["end"] != ("pos", r2, c2):
                    bad.append((text, hir.fmt(m, 120)))
            elif "start_col" in f and "end_col" in f:
                if f["start_col"] != ("lit", c1) or f["end_col"] != ("lit", c2):
                    bad.append((text, hir.fmt(m, 120)))
            else:
                bad.append((text, hir.fmt(m, 120)))
    for text in ("i2e4", "e2i4", "e9e4", "e2e9", "e0e4", "e2e0", "`2e4", "e2", "", "e2e", "E2E4", "2e4e"):
        v = run(text)
        if undecided_text(v):
            return None
        if moves(v):
            bad.append((text, "read as %s" % hir.fmt(moves(v)[0], 100)))
    for L, T in (("q", "Queen"), ("r", "Rook"), ("n", "Knight"), ("b", "Bishop"), ("Q", "Queen"), ("N", "Knight")):
        v = run("e7e8" + L)
        if undecided_text(v):
            return None
        ms = moves(v)
        if L.isupper() and not ms:
            continue        # upper-case letters are not UCI: refusing them is fine, reading them as another piece is not
        if not ms or any(str(m[1]) != MV + "Promotion" or dict(m[2]).get("new_piece") != ("variant", "chess::piece::PieceType::" + T)
                         or dict(m[2]).get("start") != ("pos", 6, 4) or dict(m[2]).get("end") != ("pos", 7, 4) for m in ms):
            bad.append(("e7e8" + L, hir.fmt(v, 120)))
        # what a promotion captures is what stands on its destination
        for m in ms:
            cp = dict(m[2]).get("captured_piece")
            if cp is not None and cp[:1] == ("call",) and str(cp[1]).endswith("Game::get_position") and cp[2][-1] != ("pos", 7, 4):
                bad.append(("e7e8" + L, "captured piece read from %s" % hir.fmt(cp[2][-1], 40)))
    for text in ("e7e8x", "e7e8k", "e7e8p"):
        v = run(text)
        if undecided_text(v):
            return None
        if moves(v):
            bad.append((text, "read as %s" % hir.fmt(moves(v)[0], 100)))
    # which kind of move the text is read as depends on the board: decided on concrete squares
    gname = params[1] if len(params) > 1 else "game"
    SOME_, NONE_ = "std::prelude::v1::Some", ("variant", "std::prelude::v1::None")

    def pc(kind, owner):
        return ("ctor", SOME_, (("struct", "chess::piece::Piece", (("owner", ("variant", PL + owner)), ("piece_type", ("variant", PT + kind)))),))

    def on_board(text, board, owner="White"):
        full = {(r_, c_): NONE_ for r_ in range(8) for c_ in range(8)}
        full.update(board)
        a = {("var", sname): ("lit", text), ("field", ("var", gname), "current_player"): ("variant", PL + owner),
             ("call", "chess::Game::player", (("var", gname),)): ("variant", PL + owner)}
        evb = chess_evalcalls(full)
        v = hir.fold(rnf, a, D, None, evb)
        return hir.fold(v, a, D, None, evb)

    def is_move(v, kind, **flds):
        if not (v[:1] == ("ctor",) and str(v[1]).endswith("::Some") and len(v[2]) == 1 and v[2][0][:1] == ("struct",)):
            return False
        st = v[2][0]
        f = dict(st[2])
        return st[1] == MV + kind and all(f.get(k_) == val for k_, val in flds.items())
    wp, bn, wn = pc("Pawn", "White"), pc("Knight", "Black"), pc("Knight", "White")
    kinds = [
        ("e5d6 pawn takes onto an empty square", "e5d6", {(4, 4): wp}, "EnPassant", dict(start_col=("lit", 4), end_col=("lit", 3))),
        ("e5d6 pawn takes a piece", "e5d6", {(4, 4): wp, (5, 3): bn}, "Normal", dict(start=("pos", 4, 4), end=("pos", 5, 3), captured_piece=bn)),
        # (files and ranks that differ, so that a row read for a column does not pass by coincidence)
        ("b5a6 pawn takes onto an empty square", "b5a6", {(4, 1): wp}, "EnPassant", dict(start_col=("lit", 1), end_col=("lit", 0))),
        ("g5h6 pawn takes onto an empty square", "g5h6", {(4, 6): wp}, "EnPassant", dict(start_col=("lit", 6), end_col=("lit", 7))),
        ("e5e6 pawn push", "e5e6", {(4, 4): wp}, "Normal", dict(start=("pos", 4, 4), end=("pos", 5, 4), captured_piece=NONE_)),
        ("b2b4 pawn double push", "b2b4", {(1, 1): wp}, "Normal", dict(start=("pos", 1, 1), end=("pos", 3, 1), captured_piece=NONE_)),
        ("c3d5 knight move", "c3d5", {(2, 2): wn}, "Normal", dict(start=("pos", 2, 2), end=("pos", 4, 3), captured_piece=NONE_)),
        ("c3b4 queen-like step of a knight-less square", "c3b4", {(2, 2): wn}, "Normal", dict(start=("pos", 2, 2), end=("pos", 3, 1))),
    ]
    for label, text, board, kind, flds in kinds:
        v = on_board(text, board)
        if not (v[:1] in (("ctor",), ("variant",))):
            return None         # not decided on a concrete board: leave it to the structural reading
        if not is_move(v, kind, **flds):
            bad.append((label, "read as %s" % hir.fmt(v, 140)))
    v = on_board("e2e4", {})
    if v[:1] in (("ctor",), ("variant",)) and v != NONE_:
        bad.append(("e2e4 from an empty square", "read as %s" % hir.fmt(v, 100)))
    return bad


def en_passant_rows(F):
    """{owner: {old: row, new: row, taken: row}} from the evaluated board updates of Game::push for an en-passant capture."""
    from . import playmodel
    return playmodel.en_passant_rows(F)
