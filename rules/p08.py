"""C08 - depth-limited and unlimited searches end cleanly whatever the table holds.

Decides:
 L1 the depth-limit test cannot be stepped over: the iteration counter may start above the requested limit (it starts at
    the depth of a cached exact root entry), so the comparison with the limit must be an inequality in the right direction;
 L2 the depth counter stays in a bounded range: the driver loop has a constant upper bound U <= 255 (no open u8 range),
    so it terminates after at most U iterations even if no iteration polls the stop flag, and falls out of the loop
    by returning the move it has (no `unreachable!`);
 L3 every per-ply table is large enough: real_depth + remaining_depth = depth <= U at every call (entry passes (depth-1, 1),
    recursion passes (remaining-1, real+1)), the killer table is indexed only where remaining_depth >= 2, hence with
    real_depth <= U-2 < len; the history table index is as_index*64 + as_usize < 12*64;
 L4 other depth-dependent panic edges in the search call graph are listed; wrapping-only arithmetic is not reported.
"""
import re
from . import core, hir, mir
from .common import sym_fn, discr_map

LEVEL = "other"
EXPLANATION = ("Shape of the driver loop and of its exit condition (typed HIR), constant evaluation of the loop bound, the "
               "arguments of every recursive call, the guards of every depth-indexed access, array lengths from the compiler's "
               "types; panic edges enumerated from the MIR of the functions reachable from the search.")
DRIVER = "search::get_best_move_until_stop"
ENTRY = "search::get_best_move_entry"
SCORE = "search::get_best_move_score"


def run(ctx):
    F = ctx.facts
    U = l1_l2(ctx, F)
    l3(ctx, F, U)
    l4(ctx, F, U)
    l5(ctx, F)
    l6(ctx, F)
    # the per-ply *state stack* as well: the longest game the front ends accept plus the deepest line the search can be on fits its
    # capacity (the length accounting of C15.CAP; an overrun is silent memory corruption in release builds)
    # L8 the limit is given where `go` reads its words: the `depth` word has an arm of its own that stores the number
    from . import p13
    p13.depth_word(ctx, F)
    # L9 = C10.N9: the iteration asked for is searched unless a stop was asked for (an abort value returned for any other reason
    # makes the driver answer from a shallower iteration than the limit)
    from . import p10
    p10.n9(ctx, F, rule="C08.L9")
    from . import p15
    try:
        _rule, ok_cap, found_cap = p15.stack_capacity(ctx, F.fn("chess::Game::push"), None, F)
    except Exception as e:      # the accounting could not be made (shape changed)
        ok_cap, found_cap = False, str(e)
    ctx.check("C08.L7", "state-stack-holds-game-plus-search-depth", ok_cap, fn="chess::Game::push", file="src/chess/mod.rs",
              what="the longest accepted game plus the maximum search depth (plus the capture extension) no longer fits the per-ply state "
                   "stack: a long unlimited search on a long game overruns it", found=found_cap)


def const_of(t, F):
    v = hir.sym_int(t)
    if v is not None:
        return v
    if t and t[0] == "const" and t[1] in F.consts:
        try:
            return F.const_int(t[1])
        except Exception:
            return None
    return None


def l1_l2(ctx, F):
    fn = F.fn(DRIVER)
    body = fn["hir"]["body"]
    env = hir.Env(fn["hir"], F)
    sym = hir.Sym(env, F)
    # the iteration loop: the for loop whose body calls get_best_move_entry
    loop = None
    for n, anc in hir.walk(body):
        if n.get("k") == "Match" and n.get("src") == "ForLoopDesugar":
            s = sym(n["e"])
            if s[0] == "call" and str(s[1]).endswith("IntoIterator::into_iter") and hir.calls(n, "search::get_best_move_entry"):
                loop = (n, s[2][0])
                break
    if loop is None:
        ctx.anchor_missing("C08.L2", "iteration loop (a `for` over depths calling get_best_move_entry) in the driver")
        return None
    node, it = loop
    names = []
    for m, _ in hir.walk(node):
        if m.get("k") == "Match" and m.get("src") == "ForLoopDesugar" and m is not node:
            for a in m["arms"]:
                names += hir.pat_names(a["pat"])
            break
    counter = names[0] if names else "?"
    U = None
    kind = hir.fmt(it, 120)
    if it[0] == "call" and str(it[1]).endswith("RangeInclusive::<Idx>::new") and len(it[2]) == 2:
        U = const_of(it[2][1], F)
    elif it[0] == "struct" and str(it[1]).endswith("ops::Range"):
        e = const_of(dict(it[2]).get("end"), F)
        U = e - 1 if e is not None else None
    ty_max = 255
    ok = U is not None and 1 <= U <= ty_max
    ctx.check("C08.L2", "iteration-counter-has-a-constant-upper-bound", ok, fn=DRIVER, file=fn["file"], line=hir.line(node),
              what="the driver iterates over an open range of u8 depths: on tiny positions an unlimited search passes depth 255 within "
                   "seconds, the counter wraps (panics in debug builds) and, because a root table hit never polls the stop flag, the loop "
                   "then spins forever ignoring `stop`",
              expected="for depth in start..=CONST (CONST <= 255)", found=kind)
    # after the loop: no unreachable!(), returns the running move
    tail = hir.strip(body).get("expr")
    t = hir.fmt(sym(tail), 120) if tail is not None else None
    ctx.check("C08.L2", "loop-exhaustion-returns-the-move-found", tail is not None and "panic" not in (t or "") and hir.strip(tail).get("k") == "Path",
              fn=DRIVER, file=fn["file"], line=hir.line(tail) if tail is not None else None,
              what="when the depth range is exhausted the driver must return the move it has (not panic)", found=t)
    # L1: exit condition
    conds = []
    for n, anc in hir.walk(node):
        if n.get("k") == "MethodCall" and n["name"] in ("is_some_and", "map_or", "is_some_and") and sym(n["recv"]) == ("var", "max_depth"):
            clo = hir.strip(n["args"][-1])
            if clo.get("k") == "Closure":
                p = hir.pat_names(clo["params"][0])[0]
                b = hir.canon(sym(clo["body"]))
                conds.append((p, b, n))
        if n.get("k") == "Binary" and n["op"] in ("==", "<=", ">=", "<", ">") and "max_depth" in hir.fmt(sym(n), 100) and "is_some_and" not in hir.fmt(sym(n), 200):
            conds.append((None, hir.canon(sym(n)), n))
    ctx.floor("C08.L1", "depth-limit tests in the driver loop", len(conds), 1)
    start_is_table_derived = "HashMap" in hir.fmt(sym_start(it), 400) or "get(table" in hir.fmt(sym_start(it), 400) or True
    for p, b, n in conds:
        ok = False
        if p is not None and b[0] == "bin":
            # canon: a > b rewritten as b < a ; accepted: d <= depth, d < depth+1 ... i.e. limit on the small side, counter on the large side
            op, l, r = b[1], b[2], b[3]
            if op in ("<=", "<") and l == ("var", p) and r == ("var", counter):
                ok = op == "<="
        ctx.check("C08.L1", "limit-test-is-an-inequality", ok, fn=DRIVER, file=fn["file"], line=hir.line(n),
                  what="the requested depth limit is tested with `==` (or a wrong-way inequality): the counter starts at the depth of a cached "
                       "exact root entry, which can already be above the limit (`go depth 5` then `go depth 3` on the same position), so the "
                       "test never fires and the search runs on until stopped",
                  expected="limit <= depth", found=hir.fmt(b, 80))
    # L1e: the limit test decides by itself: with the limit reached the exit condition holds whatever the other reasons to stop say
    # (several moves, an ordinary score), and with the limit not reached and no other reason it does not
    for n_if, anc_if in hir.walk(node):
        if n_if.get("k") != "If":
            continue
        inside = [c_ for c_ in conds if any(x is c_[2] for x, _ in hir.walk(n_if["cond"]))]
        if not inside:
            continue
        c0 = hir.resolve_std_ints(hir.resolve_consts(sym(n_if["cond"]), F))
        rows = []
        for reached in (True, False):
            a_ = {("var", "is_only_move"): ("lit", False), ("var", "best_score"): ("lit", 0)}
            for _, _, cn in inside:
                a_[sym(cn)] = ("lit", reached)
            v_ = hir.fold(hir.fold(c0, a_), a_)
            if v_[:1] == ("lit",) and v_[1] is not reached:
                rows.append(("limit reached" if reached else "limit not reached", "exit condition is %s" % v_[1]))
        leaves_ = [x for x, _ in hir.walk(n_if["then"]) if x.get("k") in ("Ret", "Break")]
        ctx.check("C08.L1", "limit-test-decides-by-itself", not rows and bool(leaves_), fn=DRIVER, file=fn["file"], line=hir.line(n_if),
                  what="reaching the requested depth does not end the iteration loop by itself (it is and-ed with another reason to stop), "
                       "or the loop ends although neither the limit nor another reason holds", expected="limit reached => exit", found=rows)
    # L1d: the limit test is reached by every completed iteration: no `continue` of the driver loop (an unlabelled one outside any
    # inner loop, or one labelled with the driver loop's label) lies before the test - it would start the next, deeper iteration
    # without asking whether the requested depth has been reached
    def _label_of(loop_match):
        for n_, anc_ in hir.walk(body):
            if n_ is loop_match:
                for a_ in reversed(anc_):
                    if a_.get("k") == "Loop":
                        return a_.get("label")
        return None
    lab = _label_of(node)
    first_test = min((hir.order_key(n) for _, _, n in conds), default=None)
    skips = []
    if first_test is not None:
        for n_, anc_ in hir.walk(node):
            if n_.get("k") == "Continue" and not n_.get("mac"):
                loops_ = [a_ for a_ in anc_ if a_.get("k") == "Loop"]       # the first one is the `for` loop itself (desugared)
                inner = loops_[1:]
                lab = loops_[0].get("label") if loops_ else lab
                mine = (n_.get("label") is None and not inner) or (n_.get("label") is not None and n_.get("label") == lab)
                if mine and hir.order_key(n_) < first_test:
                    skips.append(hir.line(n_))
    ctx.check("C08.L1", "limit-test-reached-by-every-iteration", not skips, fn=DRIVER, file=fn["file"], line=skips[0] if skips else hir.line(node),
              what="an iteration can `continue` to the next depth before the depth-limit test: a search resumed at a cached depth above the "
                   "limit then runs a full deeper iteration (`go depth 5`, then `go depth 2` searches depth 6)",
              expected="no `continue` of the iteration loop before the limit test", found=skips)
    # L1c: the counter starts at 1 or exactly at the depth of the cached *exact* root entry - an iteration the table answers at no
    # cost, after which the limit test fires.  Starting any higher searches deeper than the limit before the test is reached.
    start = sym_start(it)
    if start[0] == "var":
        for n2, anc2 in hir.walk(body):
            if n2.get("k") == "SLet" and n2["pat"].get("k") == "PBind" and n2["pat"]["name"] == start[1] and n2.get("init") is not None \
                    and "Mut" not in n2["pat"].get("mode", "").replace("Not)", ""):
                start = sym(n2["init"])
    st_txt = hir.fmt(start, 400)
    # every value the expression can take, with the conditions on the way (if / match guards / Option combinators)
    leaves = hir.nf_leaves(start)
    lookup = ("call", "std::collections::HashMap::<K, V, S, A>::get", (("var", "table"), ("call", "chess::Game::hash", (("var", "game"),))))
    bad_leaves = []
    n_depth = 0
    for lf, conds in leaves:
        if lf == ("lit", 1) or lf == lookup or (lf[0] == "variant" and str(lf[1]).endswith("::None")):
            continue
        if lf[0] == "field" and lf[2] == "depth" and lf[1][0] == "var":
            x = lf[1]
            exact = hir.canon(("bin", "==", ("field", x, "flag"), ("variant", "search::NodeType::Exact")))
            if any(pol is True and isinstance(c, tuple) and hir.canon(c) == exact for c, pol in conds):
                n_depth += 1
                continue
            if any(pol is True and isinstance(c, tuple) and any(hir.canon(y) == exact for y in hir.conj(c)) for c, pol in conds):
                n_depth += 1
                continue
        bad_leaves.append(hir.fmt(lf, 60))
    alt_ok = not bad_leaves and hir.contains(start, lookup) and any(lf == ("lit", 1) for lf, _ in leaves)
    ctx.check("C08.L1", "iteration-starts-at-1-or-at-the-cached-exact-depth", alt_ok, fn=DRIVER, file=fn["file"], line=hir.line(node),
              what="the first iteration must be depth 1 or the depth of the cached exact root entry (answered from the table for free, then "
                   "the limit test fires); starting above it makes `go depth N` with N below the cached depth run a real search deeper than N",
              expected="1 | entry.depth of the exact root entry", found={"expression": st_txt, "other values": bad_leaves})
    return U


def sym_start(it):
    if it[0] == "call" and len(it[2]) == 2:
        return it[2][0]
    if it[0] == "struct":
        return dict(it[2]).get("start", ("none",))
    return ("none",)


def array_len(ty):
    m = re.search(r";\s*(\d+)\]$", ty.strip())
    return int(m.group(1)) if m else None


def l3(ctx, F, U):
    entry = F.fn(ENTRY)
    score = F.fn(SCORE)
    # (a) depth accounting at call sites
    n = 0
    for path, want in ((ENTRY, ("(depth - 1)", "1")), (SCORE, ("(remaining_depth - 1)", "(real_depth + 1)"))):
        fn = F.fn(path)
        env = hir.Env(fn["hir"], F)
        sym = hir.Sym(env, F)
        for c, anc in hir.calls(fn["hir"]["body"], SCORE):
            n += 1
            got = (hir.fmt(sym(c["args"][3]), 40), hir.fmt(sym(c["args"][4]), 40))
            ctx.check("C08.L3", "depth-accounting:%s#%d" % (path.split("::")[-1], n), got == want, fn=path, file=fn["file"], line=hir.line(c),
                      what="remaining depth and distance from the root must add up to the iteration depth at every call "
                           "(the per-ply tables are sized by that sum)", expected=want, found=got)
    ctx.floor("C08.L3", "recursive call sites", n, 3)       # 6 on the reference tree
    # (b) killer table length and index guards
    klen = None
    for l in entry["mir"]["locals"]:
        if l.get("name") == "killer_moves":
            klen = array_len(l["ty"])
    ctx.check("C08.L3", "killer-table-length-known", klen is not None, fn=ENTRY, file=entry["file"], nontrivial=False,
              what="could not read the length of killer_moves from its type", found=klen)
    env = hir.Env(score["hir"], F)
    sym = hir.Sym(env, F)
    body = score["hir"]["body"]
    sites = 0
    for nd, anc in hir.walk(body):
        if nd.get("k") == "Index" and sym(nd["e"]) == ("var", "killer_moves"):
            sites += 1
            idx = hir.fmt(sym(nd["i"]), 60)
            g = [(hir.fmt(hir.canon(x[1]), 80), x[2]) for x in (hir.guards_of(nd, body, sym) or []) if x[0] == "if"]
            guarded = ("(remaining_depth == 1)", False) in g and ("(remaining_depth == 0)", False) in g
            ok = idx == "(real_depth as usize)" and guarded and klen is not None and U is not None and klen >= U - 1
            ctx.check("C08.L3", "killer-index-in-range:%d" % sites, ok, fn=SCORE, file=score["file"], line=hir.line(nd),
                      what="killer_moves[real_depth] is reached with real_depth up to (max iteration depth - 2): the table must have at least "
                           "that many slots, otherwise a deep search panics with an out-of-bounds index (search thread dies, no bestmove)",
                      expected="index = real_depth, reached only with remaining_depth >= 2, len >= U - 1 = %s" % (U - 1 if U else "?"),
                      found={"index": idx, "guards": g, "len": klen, "max iteration depth U": U})
    ctx.floor("C08.L3", "killer table index sites", sites, 2)
    # entry passes the whole table
    env2 = hir.Env(entry["hir"], F)
    sym2 = hir.Sym(env2, F)
    passed = {hir.fmt(sym2(c["args"][7]), 40) for c, _ in hir.calls(entry["hir"]["body"], SCORE)}
    ctx.check("C08.L3", "whole-killer-table-passed-down", passed == {"killer_moves"}, fn=ENTRY, file=entry["file"],
              what="the recursion must receive the whole per-ply table", found=sorted(passed))
    # (c) history index
    D = discr_map(F)
    hl = None
    for l in F.fn(DRIVER)["mir"]["locals"]:
        if l.get("name") == "history":
            hl = array_len(l["ty"])
    ih = sym_fn(F.fn("chess::move_struct::Move::index_history"), F)
    want = "v1::Some(((Piece::as_index(self.piece) * 64) + Position::as_usize(self.end)))"
    ok = hl is not None and hl >= 12 * 64 and want in hir.fmt(ih, 600)
    ctx.check("C08.L3", "history-index-in-range", ok, fn="chess::move_struct::Move::index_history", file="src/chess/move_struct.rs",
              what="history is indexed by as_index*64 + as_usize (<= 11*64+63): the table must have 768 slots",
              expected="len >= 768, index = as_index*64 + as_usize", found={"len": hl, "index": hir.fmt(ih, 200)})


def l5(ctx, F):
    """Every loop of the driver (helpers expanded) is a `for` over a bounded numeric range: the iteration loop and the PV walk.
    A `while`/`loop` - waiting for a flag after the depth range is exhausted, following table links until they end - has no bound
    the driver controls, so a search with a depth limit may never answer or walk without end."""
    fn = F.fn(DRIVER)
    sym = hir.Sym(hir.Env(fn["hir"], F), F)
    bad = []
    n = 0
    for lp, anc in hir.walk(fn["hir"]["body"]):
        if lp.get("k") != "Loop" or any(a.get("k") == "Closure" for a in anc):
            continue
        n += 1
        src = str(lp.get("src"))
        it = None
        if "ForLoop" in src:
            m_ = [a for a in anc if a.get("k") == "Match" and a.get("src") == "ForLoopDesugar"]
            if m_:
                it = hir.resolve_consts(sym(m_[-1]["e"]), F)
                if it[0] == "call" and str(it[1]).endswith("into_iter"):
                    it = it[2][0]
        t = hir.fmt(it, 100) if it is not None else src
        bounded = it is not None and ((it[0] == "struct" and str(it[1]).endswith("ops::Range")) or
                                      (it[0] == "call" and str(it[1]).endswith("RangeInclusive::<Idx>::new")))
        if not bounded:
            bad.append((hir.line(lp), t))
    ctx.check("C08.L5", "every-driver-loop-has-a-bounded-trip-count", not bad and n >= 1, fn=DRIVER, file=fn["file"],
              line=bad[0][0] if bad else fn["span"][0],
              what="the search driver contains a loop without a bounded trip count (a wait on the stop flag, an open-ended walk through the "
                   "table): a search that should end by itself may never answer", expected="for .. in a..b / a..=b only", found=bad or "%d loops" % n)


def l6(ctx, F):
    """L6 the game's move record is indexed from its end only as far back as a preceding length test allows: `record[len - k]` with a
    literal k, 1 <= k <= K, under `len >= K` (an index computed as len + k, or len - 6 under len >= 5, panics on the search thread for
    every game long enough to reach the test - the `go` then gets no bestmove)."""
    g = mir.callgraph(F)
    reach = [p for p in mir.reachable_fns(g, DRIVER) | {DRIVER} if p in F.fns and p.startswith("search::")]
    n = 0
    for p in sorted(reach):
        fn = F.fn(p)
        if not fn.get("hir"):
            continue
        body = fn["hir"]["body"]
        sym = hir.Sym(hir.Env(fn["hir"], F), F)
        for x, anc in hir.walk(body):
            if x.get("k") != "Index":
                continue
            base = sym(x["e"])
            if not any(isinstance(t_, tuple) and t_[:1] == ("call",) and str(t_[1]).endswith("Game::move_stack") for t_ in hir.subterms(base)):
                continue
            n += 1
            idx = hir.canon(sym(x["i"]))
            ln = None
            k = None
            if idx[:2] == ("bin", "-") and hir.sym_int(idx[3]) is not None and idx[2][:1] == ("call",) and str(idx[2][1]).endswith("::len"):
                ln, k = idx[2], hir.sym_int(idx[3])
            need = None
            if ln is not None:
                for gd in hir.guards_of(x, body, sym) or []:
                    if gd[0] == "if" and gd[2] is True:
                        for c_ in hir.conj(gd[1]):
                            c_ = hir.canon(c_)
                            # canon: a >= K is written K <= a ; a > K as K < a
                            if c_[:1] == ("bin",) and c_[1] in ("<=", "<") and c_[3] == ln and hir.sym_int(c_[2]) is not None:
                                lo = hir.sym_int(c_[2]) + (1 if c_[1] == "<" else 0)
                                need = lo if need is None else max(need, lo)
            ok = ln is not None and k is not None and need is not None and 1 <= k <= need
            ctx.check("C08.L6", "move-record-indexed-within-its-length", ok, fn=p, file=fn["file"], line=hir.line(x),
                      what="the game's move record is indexed with something other than `len - k` (1 <= k <= K) under a test `len >= K`: "
                           "the index is out of range for some game lengths and the search thread panics",
                      expected="record[len - k], 1 <= k <= K, guarded by len >= K", found={"index": hir.fmt(idx, 80), "length known to be at least": need})
    ctx.floor("C08.L6", "indexings of the move record in the search", n, 1)


def l4(ctx, F, U):
    """Panic edges (release configuration) in functions reachable from the driver, for the record."""
    g = mir.callgraph(F)
    reach = [p for p in mir.reachable_fns(g, DRIVER) if p in F.fns and p.startswith("search::")]
    edges = []
    for p in sorted(reach):
        fn = F.fn(p)
        if not fn.get("mir"):
            continue
        for b in fn["mir"]["blocks"]:
            t = b["term"]
            if t["k"] == "Assert":
                edges.append((p, t["msg"], mir.span_line(t)))
            if t["k"] == "Call" and mir.callee(t).startswith(("core::panicking", "std::rt::begin_panic")):
                edges.append((p, "panic:" + mir.callee(t).split("::")[-1], mir.span_line(t)))
    bounds = [e for e in edges if e[1] == "BoundsCheck"]
    overflow = [e for e in edges if e[1].startswith("Overflow")]
    explicit = [e for e in edges if e[1].startswith("panic:")]
    ctx.extra["search_panic_edges"] = {"bounds_checks": len(bounds), "overflow_asserts(debug-only)": len(overflow),
                                       "explicit_panics": [(e[0], e[2]) for e in explicit]}
    # explicit panics in the search must be limited to the `unwrap` in move_score (index_history of a quiet Normal move is Some)
    exp_ok = all(e[0] in ("search::move_score",) for e in explicit)
    ctx.check("C08.L4", "no-reachable-explicit-panic-in-the-search-driver", not [e for e in explicit if e[0] == DRIVER], fn=DRIVER,
              file="src/search.rs", what="the driver contains a reachable panic (`unreachable!()` after the loop)",
              found=[(e[0], e[2]) for e in explicit if e[0] == DRIVER])
    ctx.note("debug-only overflow asserts in the search (%d) are listed, not reported: in release builds they wrap and reach no index, "
             "capacity or loop bound (history bonus, real_depth + 1 in quiescence under the sane-material bound)" % len(overflow))
    ctx.assume("quiescence depth <= 48 (captures <= 30 + promotions <= 16 + king capture): real_depth + q-depth < 255")
