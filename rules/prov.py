"""S7: provenance of Move values in the search (syntactic reaching definitions on typed HIR).

Sources   : elements of a buffer filled by Game::get_moves(buf, true) ("checked"), its first();
Anti-src  : buffers filled with `false`, moves built by struct literals / parsers, anything unclassified;
Cached    : `entry.pv` of an entry fetched from the table with some key expression (legal by induction, rule P2).
"""
from . import hir

MOVE_TY = ("chess::move_struct::Move", "&chess::move_struct::Move")
BUF_MUTATORS_OK = {"sort_by_cached_key", "sort_by_key", "sort_by", "sort_unstable_by_key", "swap_remove", "truncate", "clear",
                   "retain", "swap", "reverse", "remove", "pop"}
BUF_MUTATORS_BAD = {"push", "insert", "try_push", "push_unchecked", "extend", "append", "extend_from_slice", "try_insert"}


def pat_bindings(p):
    out = []
    if not isinstance(p, dict):
        return out
    if p.get("k") == "PBind":
        out.append((p["name"], p.get("ty"), p["id"]))
        if p.get("sub"):
            out += pat_bindings(p["sub"])
    for key in ("pats", "before", "after"):
        for s in p.get(key) or ():
            out += pat_bindings(s)
    for f in p.get("fields") or ():
        out += pat_bindings(f["pat"])
    if isinstance(p.get("pat"), dict):
        out += pat_bindings(p["pat"])
    return out


class Prov:
    def __init__(self, fn, F):
        self.fn = fn
        self.F = F
        self.body = fn["hir"]["body"]
        self.env = hir.Env(fn["hir"], F)
        self.sym = hir.Sym(self.env, F)
        self.buffers = {}     # name -> {"flag": bool, "recv": text, "node": call}
        self.elems = {}       # binding name -> buffer name
        self.cached = {}      # binding name (entry) -> key text
        self.defs = {}        # var name -> [rhs nodes]
        self.bad_mutations = []
        self._scan()

    def _scan(self):
        for n, anc in hir.walk(self.body):
            k = n.get("k")
            if k == "MethodCall" and hir.callee_of(n) == "chess::Game::get_moves":
                b = hir.strip(n["args"][0])
                name = b.get("to", {}).get("name")
                flag = hir.strip(n["args"][1]).get("v")
                self.buffers[name] = {"flag": flag, "recv": hir.fmt(self.sym(n["recv"]), 80), "node": n}
            if k == "SLet" and n["pat"].get("k") == "PBind" and n.get("init") is not None:
                self.defs.setdefault(n["pat"]["name"], []).append(n["init"])
            if k == "Assign":
                t = hir.strip(n["l"])
                if t.get("k") == "Path" and t["to"].get("res") == "local":
                    self.defs.setdefault(t["to"]["name"], []).append(n["r"])
        # loop elements over buffers
        for n, anc in hir.walk(self.body):
            if n.get("k") == "Match" and n.get("src") == "ForLoopDesugar":
                s = self.sym(n["e"])
                if s[0] == "call" and str(s[1]).endswith("IntoIterator::into_iter"):
                    src = self._iter_source(s[2][0])
                    if src in self.buffers:
                        for m, _ in hir.walk(n):
                            if m.get("k") == "Match" and m.get("src") == "ForLoopDesugar" and m is not n:
                                for a in m["arms"]:
                                    for name, ty, _id in pat_bindings(a["pat"]):
                                        if ty in MOVE_TY:
                                            self.elems[name] = src
                                break
            # closure parameters of iterator adaptors over a buffer
            if n.get("k") == "MethodCall" and n["name"] in ("any", "all", "find", "position", "filter", "for_each", "map"):
                src = self._iter_source(self.sym(n["recv"]))
                if src in self.buffers and n["args"]:
                    clo = hir.strip(n["args"][0])
                    if clo.get("k") == "Closure":
                        for p in clo["params"]:
                            for name, ty, _id in pat_bindings(p):
                                if ty in MOVE_TY:
                                    self.elems[name] = src
            # entries fetched from the table
            if n.get("k") in ("Let", "SLet") and n.get("init") is not None:
                key = self._table_key(self.sym(n["init"]))
                if key is not None:
                    for name, ty, _id in pat_bindings(n["pat"]):
                        self.cached[name] = key
            # ... or taken out of a fetched Option by a match (`match table.get(k) { Some(entry) if .. => .. }`, also via a local)
            if n.get("k") == "Match" and n.get("src") in (None, "Normal"):
                key = self._table_key(self.sym(n["e"]))
                if key is not None:
                    for a in n["arms"]:
                        for name, ty, _id in pat_bindings(a["pat"]):
                            self.cached[name] = key
            # mutations of buffers
            if n.get("k") == "MethodCall":
                r = hir.strip(n["recv"])
                if r.get("k") == "Path" and r["to"].get("name") in self.buffers and n["name"] in BUF_MUTATORS_BAD:
                    self.bad_mutations.append((r["to"]["name"], n["name"], hir.line(n)))

    def _table_key(self, s):
        """key text when normal form s is `table.get(key)` or a local holding such a lookup result, else None"""
        if s[0] == "call" and (str(s[1]).endswith("HashMap::<K, V, S, A>::get") or str(s[1]).endswith("<K, V, S, A>::get")) and len(s[2]) >= 2:
            return hir.fmt(s[2][1], 80)
        if s[0] == "var" and s[1] in self.cached:
            return self.cached[s[1]]
        return None

    def _iter_source(self, t):
        """Buffer name an iterator expression ranges over (through iter/enumerate/deref/ref)."""
        for _ in range(8):
            if t[0] == "var":
                return t[1]
            if t[0] == "call" and t[2]:
                t = t[2][0]
                continue
            break
        return None

    def classify(self, e, depth=0):
        """(class, detail) of a Move-valued or Option<Move>-valued expression node."""
        e0 = hir.strip(e)
        s = self.sym(e0)
        if s[0] == "variant" and s[1].endswith("::None"):
            return ("none", None)
        if s[0] == "ctor" and str(s[1]).endswith("::Some") and len(s[2]) == 1:
            inner = s[2][0]
            if inner[0] == "var" and inner[1] in self.elems:
                b = self.elems[inner[1]]
                return ("elem-of-%s" % ("checked" if self.buffers[b]["flag"] is True else "UNCHECKED"), b)
            return ("some-of-unknown", hir.fmt(inner, 80))
        if s[0] == "var" and s[1] in self.elems:
            b = self.elems[s[1]]
            return ("elem-of-%s" % ("checked" if self.buffers[b]["flag"] is True else "UNCHECKED"), b)
        txt = hir.fmt(s, 200)
        if s[0] == "call" and str(s[1]).endswith("::copied") and s[2] and s[2][0][0] == "call" and str(s[2][0][1]).endswith("::first"):
            b = self._iter_source(s[2][0][2][0])
            if b in self.buffers:
                return ("first-of-%s" % ("checked" if self.buffers[b]["flag"] is True else "UNCHECKED"), b)
        if s[0] == "field" and s[2] == "pv" and s[1][0] == "var" and s[1][1] in self.cached:
            return ("cached", self.cached[s[1][1]])
        if s[0] == "var" and depth < 4:
            ds = self.defs.get(s[1])
            if ds:
                classes = [self.classify(d, depth + 1) for d in ds]
                kinds = sorted({c[0] for c in classes})
                return ("var:" + "|".join(kinds), classes)
        if s[0] == "call" and str(s[1]).endswith("and_then") and len(s[2]) == 2 and self._table_key(s[2][0]) is not None and \
                s[2][1][0] == "closure" and len(s[2][1][1]) == 1 and s[2][1][2] == ("field", ("var", s[2][1][1][0]), "pv"):
            return ("cached", txt)
        if s[0] == "call" and str(s[1]).endswith("and_then") and "entry.pv" in txt and "HashMap" in txt or \
                (s[0] == "call" and str(s[1]).endswith("and_then") and ".pv" in txt and "::get(table" in txt):
            return ("cached", txt)
        return ("other", txt)


def allowed(cls):
    """Is this provenance class a legal-move source (or None)?"""
    c = cls[0]
    if c in ("none", "elem-of-checked", "first-of-checked", "cached"):
        return True
    if c.startswith("var:"):
        return all(allowed(x) for x in cls[1])
    return False
