"""Helpers shared by several property modules."""
import os
from . import core, hir, mir

MASK64 = (1 << 64) - 1

POSITION_FOLD_CASES = [(r, c) for r in range(8) for c in range(8)]


def discr_map(F):
    """variant path -> discriminant for the field-less enums of the crate."""
    d = {}
    for path, a in F.adts.items():
        if a["kind"] == "enum":
            for v in a["variants"]:
                if v["discr"] is not None and not v["fields"]:
                    d[path + "::" + v["name"]] = v["discr"]
    return d


def sym_fn(fn, F):
    """Return-value normal form of a loop-free function (fails closed as an Unsupported marker)."""
    try:
        return hir.summarize(fn, F)
    except hir.Unsupported as e:
        return ("unsupported", str(e))


# ---------------------------------------------------------------------------
# the published key file, read independently of the crate's own extraction code

def zobrist_expected(repo=None):
    p = os.path.join(repo or core.REPO, "zobrist_bytes.bin")
    raw = open(p, "rb").read()

    def u64(off):
        return int.from_bytes(raw[off:off + 8], "little")
    return {
        "BLACK_TO_MOVE": [u64(0)],
        "EMPTY_PLACE": [u64(1)],
        "STATE": [u64(2 + 8 * i) for i in range(256)],
        "PIECE": [u64(259 + 8 * k) for k in range(768)],
        "layout": {"BLACK_TO_MOVE": "0", "EMPTY_PLACE": "1", "STATE": "2+8i", "PIECE": "259+8(12*sq+piece)"},
        "file_len": len(raw),
    }


START_PLACEMENT = {
    # (row, col) -> (type name, owner) ; row 0 = rank 1
}
_back = ["Rook", "Knight", "Bishop", "Queen", "King", "Bishop", "Knight", "Rook"]
for _c in range(8):
    START_PLACEMENT[(0, _c)] = (_back[_c], "White")
    START_PLACEMENT[(1, _c)] = ("Pawn", "White")
    START_PLACEMENT[(6, _c)] = ("Pawn", "Black")
    START_PLACEMENT[(7, _c)] = (_back[_c], "Black")


def start_hash_from_tables(F):
    """Start-position hash from the *const-evaluated* tables and the *summarised* index maps."""
    D = discr_map(F)
    piece = F.const_ints("chess::zobrist::PIECE", 8)
    state = F.const_ints("chess::zobrist::STATE", 8)
    empty = F.const_int("chess::zobrist::EMPTY_PLACE")
    as_usize = sym_fn(F.fn("chess::position::Position::as_usize"), F)
    as_index = sym_fn(F.fn("chess::piece::Piece::as_index"), F)
    h = 0
    for r in range(8):
        for c in range(8):
            sq = hir.fold(as_usize, {("field", ("var", "self"), "0"): ("lit", r), ("field", ("var", "self"), "1"): ("lit", c)}, D)
            if sq[0] != "lit":
                return -1
            if (r, c) in START_PLACEMENT:
                t, o = START_PLACEMENT[(r, c)]
                ix = hir.fold(as_index, {("field", ("var", "self"), "owner"): ("variant", "chess::Player::" + o),
                                         ("field", ("var", "self"), "piece_type"): ("variant", "chess::piece::PieceType::" + t)}, D)
                if ix[0] != "lit":
                    return -1
                h ^= piece[sq[1] * 12 + ix[1]]
            else:
                h ^= empty
    # state byte of the start position: all four rights + "no en passant" (8), using the accessors' bit layout
    bits = gamestate_layout(F)
    if bits is None:
        return -1
    b = 8
    for k in ("white_king", "white_queen", "black_king", "black_queen"):
        b |= 1 << bits[k]
    h ^= state[b]
    return h & MASK64


def gamestate_layout(F):
    """Bit index of each castling right from the getter summaries, or None."""
    out = {}
    for k in ("white_king", "white_queen", "black_king", "black_queen"):
        fn = F.fn("chess::gamestate::GameState::%s_castling" % k)
        nf = hir.resolve_consts(sym_fn(fn, F), F)
        bit = None
        for b in range(8):
            v1 = hir.fold(nf, {("field", ("var", "self"), "bitfield"): ("lit", 1 << b)})
            v0 = hir.fold(nf, {("field", ("var", "self"), "bitfield"): ("lit", 0xFF ^ (1 << b))})
            if v1 == ("lit", True) and v0 == ("lit", False):
                if bit is not None:
                    return None
                bit = b
        if bit is None:
            return None
        out[k] = bit
    return out


# ---------------------------------------------------------------------------
# who-may-write (S1), on MIR

def field_writes(F, adt_path, field, include_init=False):
    """All MIR sites that assign, mutably borrow, or Cell::set a place rooted at <adt>.<field>.
    Returns [(fn path, pseudo-node with span, kind)]."""
    out = []
    for path, fn in F.fns.items():
        m = fn.get("mir")
        if not m:
            continue
        locs = m["locals"]

        def rooted(place):
            if mir.base_ty(locs[place["l"]]["ty"]) != adt_path:
                return False
            fs = mir.place_fields(place)
            return bool(fs) and fs[0] == field
        for bi, b in enumerate(m["blocks"]):
            for s in b["stmts"]:
                if s["k"] != "Assign":
                    continue
                if rooted(s["place"]):
                    out.append((path, {"sp": s.get("span")}, "assign"))
                rv = s["rv"]
                if rv["k"] in ("Ref", "RawPtr") and rv.get("mut") and rooted(rv["place"]):
                    out.append((path, {"sp": s.get("span")}, "mut-borrow"))
                if include_init and rv["k"] == "Aggregate" and rv.get("ak") == "Adt" and rv.get("adt") == adt_path:
                    out.append((path, {"sp": s.get("span")}, "init"))
            t = b["term"]
            if t["k"] == "Call" and rooted_dest(t, rooted):
                out.append((path, {"sp": t.get("span")}, "call-dest"))
    # Cell::set on a field element: receiver is a shared ref to a place in the field
    for path, fn in F.fns.items():
        m = fn.get("mir")
        if not m:
            continue
        refs = {}
        locs = m["locals"]
        for bi, b in enumerate(m["blocks"]):
            for s in b["stmts"]:
                if s["k"] == "Assign" and s["rv"]["k"] == "Ref":
                    refs[s["place"]["l"]] = s["rv"]["place"]
        for bi, b in enumerate(m["blocks"]):
            t = b["term"]
            if t["k"] == "Call" and "Cell" in mir.callee(t) and mir.callee(t).endswith("::set"):
                a0 = t["args"][0]
                if a0.get("k") in ("copy", "move"):
                    pl = refs.get(a0["place"]["l"])
                    if pl is not None and mir.base_ty(locs[pl["l"]]["ty"]) == adt_path and \
                            (mir.place_fields(pl) or [None])[0] == field:
                        out.append((path, {"sp": t.get("span")}, "cell-set"))
    return out


def rooted_dest(t, rooted):
    d = t.get("dest")
    return d is not None and rooted(d)


# ---------------------------------------------------------------------------
# data-dependence closure on HIR (S7, syntactic over-approximation)

def dependence_nodes(cond, fn_hir):
    """All expression nodes the value of `cond` may depend on: the condition itself plus, transitively,
    every initialiser / assigned right-hand side of each local it mentions."""
    body = fn_hir["body"]
    defs = {}
    for n, anc in hir.walk(body):
        k = n.get("k")
        if k in ("SLet", "Let") and n.get("init") is not None:
            for pid in _pat_ids(n["pat"]):
                defs.setdefault(pid, []).append(n["init"])
        elif k in ("Assign", "AssignOp"):
            t = hir.strip(n["l"])
            while t.get("k") in ("Field", "Index"):
                t = hir.strip(t["e"])
            if t.get("k") == "Path" and t["to"].get("res") == "local":
                defs.setdefault(t["to"]["id"], []).append(n["r"])
        elif k == "MethodCall" and n.get("args") and n.get("name") in ("push", "push_str", "extend", "extend_from_slice", "insert", "insert_str", "append"):
            # a container filled through `&mut self` methods depends on what is put into it
            t = hir.strip(n["recv"])
            while t.get("k") in ("Field", "Index", "AddrOf") or (t.get("k") == "Unary" and t.get("op") == "Deref"):
                t = hir.strip(t["e"])
            if t.get("k") == "Path" and t["to"].get("res") == "local":
                for a_ in n["args"]:
                    defs.setdefault(t["to"]["id"], []).append(a_)
        elif k == "Match":
            # pattern bindings depend on the scrutinee
            for a in n["arms"]:
                for pid in _pat_ids(a["pat"]):
                    defs.setdefault(pid, []).append(n["e"])
        elif k == "Loop" and n.get("src") == "ForLoop":
            pass
    seen_ids, nodes, todo = set(), [], [cond]
    seen_helpers = set()
    while todo:
        e = todo.pop()
        for n, _ in hir.walk(e):
            nodes.append(n)
            if n.get("k") == "Path" and n["to"].get("res") == "local":
                lid = n["to"]["id"]
                if lid not in seen_ids:
                    seen_ids.add(lid)
                    todo.extend(defs.get(lid, []))
            if n.get("k") in ("Call", "MethodCall"):
                c = hir.callee_of(n)
                if c in hir.HELPER_HIR and c not in seen_helpers:
                    # a helper that could not be expanded in place: its result depends on everything its body computes
                    seen_helpers.add(c)
                    todo.append(hir.HELPER_HIR[c]["body"])
    return nodes


def _pat_ids(p):
    out = []
    if not isinstance(p, dict):
        return out
    if p.get("k") == "PBind":
        out.append(p["id"])
        if p.get("sub"):
            out += _pat_ids(p["sub"])
    for key in ("pats", "before", "after"):
        for s in p.get(key) or ():
            out += _pat_ids(s)
    for f in p.get("fields") or ():
        out += _pat_ids(f["pat"])
    if p.get("pat"):
        out += _pat_ids(p["pat"])
    return out


def enclosing_conditions_ex(target, fn_hir):
    """[(condition node that HOLDS when target runs, the `if` node, form)] for the conditions target is control-dependent on:
    form "then"  : target inside the then-branch of `if C`
    form "else"  : target inside the else-branch of `if !C`
    form "exit"  : an earlier statement `if !C { return/break/continue/bail }` in an enclosing block
    form "guard" : a match-arm guard.  Only syntactic negation (`!C`) is understood for the last two forms."""
    def inner_of_not(c):
        c0 = c
        while c0.get("k") in ("Use", "Type") or (c0.get("k") == "Block" and not c0.get("stmts") and c0.get("expr") is not None):
            c0 = c0["e"] if c0.get("k") != "Block" else c0["expr"]
        if c0.get("k") == "Unary" and c0.get("op") == "Not":
            return c0["e"]
        return None
    for n, anc in hir.walk(fn_hir["body"]):
        if n is target:
            chain = anc + (n,)
            conds = []
            for i in range(len(chain) - 1):
                p, c = chain[i], chain[i + 1]
                if p.get("k") in ("Block", "Loop"):
                    for st in p.get("stmts") or ():
                        if st is c:
                            break
                        s0 = hir.strip(st)
                        if s0.get("k") == "If" and s0.get("else") is None and hir.diverges(s0["then"]):
                            x = inner_of_not(s0["cond"])
                            if x is not None:
                                conds.append((x, s0, "exit"))
                if p.get("k") == "If" and c is p.get("then"):
                    conds.append((p["cond"], p, "then"))
                if p.get("k") == "If" and c is p.get("else"):
                    x = inner_of_not(p["cond"])
                    if x is not None:
                        conds.append((x, p, "else"))
                if p.get("k") == "Match":
                    for a in p["arms"]:
                        if c is a["body"] and a.get("guard"):
                            conds.append((a["guard"], p, "guard"))
            return conds
    return []


def enclosing_conditions(target, fn_hir):
    """Condition nodes that hold whenever target runs (see enclosing_conditions_ex)."""
    return [c for c, _, _ in enclosing_conditions_ex(target, fn_hir)]


def neighbour_pawn_guard(call, fn, F):
    """Is `call` control-dependent on a condition that data-depends on a board read compared with
    PieceType::Pawn and an owner comparison?  Returns (ok, description)."""
    conds = enclosing_conditions(call, fn["hir"])
    board_read = pawn_cmp = owner_cmp = False
    reads = []
    for c in conds:
        for n in dependence_nodes(c, fn["hir"]):
            k = n.get("k")
            if k == "MethodCall" and (hir.callee_of(n) or "").endswith("Game::get_position"):
                board_read = True
                reads.append("get_position@%s" % hir.line(n))
            if k == "Index":
                b = hir.strip(n["e"])
                if (b.get("k") == "Path" and b["to"].get("name") == "board") or (b.get("k") == "Field" and b["name"] == "board"):
                    board_read = True
                    reads.append("board[..]@%s" % hir.line(n))
            if k == "Binary" and n["op"] in ("==", "!="):
                for side in (n["l"], n["r"]):
                    s = hir.strip(side)
                    if s.get("k") == "Path" and s["to"].get("path", "").endswith("PieceType::Pawn"):
                        pawn_cmp = True
                    if s.get("k") == "Field" and s["name"] == "owner":
                        owner_cmp = True
    ok = board_read and pawn_cmp and owner_cmp
    return ok, {"enclosing_conditions": len(conds), "board_read": board_read, "compares_with_Pawn": pawn_cmp,
                "compares_owner": owner_cmp, "reads": reads[:4]}


# ---------------------------------------------------------------------------
# GameState bit layout (C02.R4, shared with C04/C05/C11)

RIGHTS = ("white_king", "white_queen", "black_king", "black_queen")


def array_dims(ty, F):
    """[outer, ..., inner] lengths of a (nested) array type string; lengths spelled as named consts are resolved through the
    const-evaluated facts (`[[u64; PIECE_KINDS]; SQUARES]` -> [64, 12]).  None when a length cannot be resolved."""
    import re
    dims = []
    t = ty.strip()
    while t.startswith("[") and t.endswith("]"):
        depth = 0
        cut = None
        for i, ch in enumerate(t):
            if ch == "[":
                depth += 1
            elif ch == "]":
                depth -= 1
            elif ch == ";" and depth == 1:
                cut = i
        if cut is None:
            break
        n = t[cut + 1:-1].strip()
        if re.fullmatch(r"\d+", n):
            dims.append(int(n))
        else:
            name = n.split("::")[-1]
            cands = [p for p in F.consts if p.split("::")[-1] == name]
            vals = set()
            for c in cands:
                try:
                    vals.add(F.const_int(c))
                except Exception:
                    pass
            if len(vals) != 1:
                return None
            dims.append(vals.pop())
        t = t[1:cut].strip()
    return dims


def gamestate_bit_facts(F):
    """Case-fold the 13 accessors over all 256 byte values.
    Returns list of (instance key, ok, fn path, found) records and the layout dict."""
    recs = []
    layout = gamestate_layout(F)
    recs.append(("rights-on-distinct-bits", layout is not None and len(set(layout.values())) == 4
                 and all(4 <= b <= 7 for b in layout.values()), "chess::gamestate::GameState", layout))
    if layout is None:
        return recs, None
    BF = ("field", ("var", "self"), "bitfield")
    for k in RIGHTS:
        bit = layout[k]
        for suffix, expect in (("true", lambda b: b | (1 << bit)), ("false", lambda b: b & ~(1 << bit) & 0xFF)):
            path = "chess::gamestate::GameState::set_%s_castling_%s" % (k, suffix)
            fn = F.fn(path)
            try:
                _, eff = hir.summarize_effects(fn, F)
            except hir.Unsupported as e:
                recs.append(("setter:%s_%s" % (k, suffix), False, path, "unsupported shape: %s" % e))
                continue
            nf = eff.get("bitfield")
            bad = []
            if nf is None:
                bad = ["no store to bitfield"]
            else:
                nf = hir.resolve_consts(nf, F)
                for b in range(256):
                    v = hir.fold(nf, {BF: ("lit", b)})
                    if v[0] != "lit" or (v[1] & 0xFF) != expect(b):
                        bad.append((b, hir.fmt(v, 60)))
                        break
            recs.append(("setter:%s_%s" % (k, suffix), not bad, path, bad or "bit %d %s for all 256 states" % (bit, "set" if suffix == "true" else "cleared")))
    # en-passant getter / setter
    fn = F.fn("chess::gamestate::GameState::en_passant")
    nf = hir.resolve_consts(sym_fn(fn, F), F)
    bad = [b for b in range(256) if hir.fold(nf, {BF: ("lit", b)}) != ("lit", b & 15)]
    recs.append(("en_passant=low-nibble", not bad, fn["path"], bad[:3] or "b & 15 for all 256 states"))
    fn = F.fn("chess::gamestate::GameState::set_en_passant")
    try:
        _, eff = hir.summarize_effects(fn, F)
        nf = eff.get("bitfield")
    except hir.Unsupported:
        nf = None
    bad = []
    if nf is None:
        bad = ["no store to bitfield / unsupported shape"]
    else:
        nf = hir.resolve_consts(nf, F)
        for b in range(256):
            for v in range(9):
                r = hir.fold(nf, {BF: ("lit", b), ("var", "value"): ("lit", v)})
                if r[0] != "lit" or (r[1] & 0xFF) != ((b & 0xF0) | v):
                    bad.append((b, v, hir.fmt(r, 60)))
                    break
            if bad:
                break
    recs.append(("set_en_passant-preserves-rights", not bad, fn["path"], bad or "(b & 0xF0) | v for all 256 states x v in 0..=8"))
    # default state
    fn = F.fn("<chess::gamestate::GameState as std::default::Default>::default")
    nf = hir.resolve_consts(sym_fn(fn, F), F)
    ok = nf[0] == "struct" and hir.sym_int(hir.fold(dict(nf[2]).get("bitfield", ("none",)), {})) == 8
    recs.append(("default=no-rights,no-en-passant", ok, fn["path"], hir.fmt(nf, 80)))
    return recs, layout


# ---------------------------------------------------------------------------
# emission lists: ordered string-building calls with the conditions they run under

def emissions(fn, F, methods=("push", "push_str"), recv=None):
    """[(node, method, arg normal form, guards)] for calls `<recv>.push(..)` in source order."""
    body = fn["hir"]["body"]
    env = hir.Env(fn["hir"], F)
    sym = hir.Sym(env, F)
    out = []
    for n, anc in hir.walk(body):
        if n.get("k") == "MethodCall" and n["name"] in methods:
            r = hir.strip(n["recv"])
            if recv is not None and not (r.get("k") == "Path" and r["to"].get("name") == recv):
                continue
            out.append((n, n["name"], sym(n["args"][0]), hir.guards_of(n, body, sym) or []))
    return out, sym


def loop_binders(guards):
    """For-loop context of an emission: [(iterator normal form, bound names)] outermost first."""
    out = []
    pending = None
    for g in guards:
        if g[0] == "arm" and isinstance(g[1], tuple) and g[1][0] == "call" and str(g[1][1]).endswith("IntoIterator::into_iter"):
            pending = g[1][2][0]
        elif g[0] == "arm" and pending is not None and isinstance(g[1], tuple) and g[1][0] == "call" \
                and str(g[1][1]).endswith("Iterator::next"):
            out.append((pending, g[3] if len(g) > 3 else ()))
            pending = None
    return out


def range_of(it):
    """(start, end, reversed?) for `a..b` / `(a..b).rev()` normal forms, else None."""
    rev = False
    if it[0] == "call" and str(it[1]).endswith("Iterator::rev"):
        rev = True
        it = it[2][0]
    if it[0] == "struct" and str(it[1]).endswith("ops::Range"):
        d = dict(it[2])
        return hir.sym_int(d.get("start")), hir.sym_int(d.get("end")), rev
    return None


def plain_guards(guards):
    """Guards without the for-loop plumbing."""
    out = []
    for g in guards:
        if g[0] == "arm" and isinstance(g[1], tuple) and g[1][0] == "call" and \
                str(g[1][1]).endswith(("IntoIterator::into_iter", "Iterator::next")):
            continue
        out.append(g)
    return out


def fmt_writes(fn, F):
    """`write!`/`writeln!`/`println!` sites: [(node, template text, [arg normal forms], guards)] in source order."""
    body = fn["hir"]["body"]
    env = hir.Env(fn["hir"], F)
    sym = hir.Sym(env, F, depth=20)
    out = []
    for n, anc in hir.walk(body):
        c = hir.callee_of(n) if n.get("k") in ("Call", "MethodCall") else None
        if not c or not (c.endswith("::write_fmt") or c.endswith("io::_print") or c.endswith("io::_eprint")):
            continue
        argsnode = n["args"][0] if n["k"] == "MethodCall" else n["args"][-1]
        a = hir.fold(sym(argsnode), {})
        text, args = None, []
        if a[0] == "call" and str(a[1]).endswith("::from_str"):
            text = a[2][0][1] if a[2][0][0] == "lit" else None
        elif a[0] == "call" and str(a[1]).endswith("::new"):
            tpl = a[2][0]
            if tpl[0] == "lit" and isinstance(tpl[1], str):
                try:
                    raw = bytes.fromhex(tpl[1])
                    text = decode_fmt_template(raw)
                except ValueError:
                    text = tpl[1]
            arr = a[2][1] if len(a[2]) > 1 else ("arr",)
            for x in arr[1:]:
                if x[0] == "call" and x[2]:
                    args.append((str(x[1]).split("::")[-1], x[2][0]))
        out.append((n, text, args, hir.guards_of(n, body, sym) or []))
    return out, sym


def decode_fmt_template(raw):
    """Literal text pieces of a compiled format template (length-prefixed pieces; 0xC0.. = argument)."""
    out, i = "", 0
    while i < len(raw):
        b = raw[i]
        if b == 0:
            break
        if b >= 0x80:
            out += "{}"
            i += 1
            continue
        out += raw[i + 1:i + 1 + b].decode("utf-8", "replace")
        i += 1 + b
    return out


# ---------------------------------------------------------------------------
# semantic summary of Game::set_position (who reads it: C03.S1, C04.K5, C16.E1)

SLOT_OF = {"board": "board", "past_scores": "past_scores", "past_hashes": "past_hashes"}


def _slot_array(t):
    """Which Game array a reference/place normal form points into, or None."""
    s = hir.fmt(t, 600)
    hits = [name for name in SLOT_OF if ("self.%s" % name) in s]
    return hits[0] if len(hits) == 1 else None


def set_position_summary(F):
    """Symbolic execution of set_position (loop-free), then case folding over the new content:
    returns {"None": {...}, "Some": {...}} with the final normal forms of hash, score and of the three slots,
    plus "old": {array: normal form of the slot before the call}, "index": set of index texts.  Raises hir.Unsupported."""
    fn = F.fn("chess::Game::set_position")
    params = [p["pat"].get("name") for p in fn["hir"]["params"]]
    if len(params) != 3:
        raise hir.Unsupported("set_position no longer takes (self, position, content)")
    pos_name, new_name = params[1], params[2]
    env = hir.Env(fn["hir"], F)
    sym = hir.Sym(env, F)
    ex = hir.Exec(fn["hir"], F)
    ex.run()
    # slot locals: locals whose *initial* definition is a reference into one of the arrays
    slot_final, slot_old = {}, {}
    for n, _ in hir.walk(fn["hir"]["body"]):
        if n.get("k") == "SLet":
            for pb in _pbinds(n["pat"]):
                # the Env definition (component of a tuple-let included)
                init = env.defs.get(pb["id"]) or env.opaque.get(pb["id"])
                if init is None:
                    continue
                t0 = sym(init)
                arr = _slot_array(t0)
                if arr and pb["id"] in ex.store and any(w in hir.fmt(t0, 400) for w in ("get_unchecked_mut", "get_mut", "index_mut", "IndexMut")):
                    slot_final[arr] = ex.store[pb["id"]]
                    slot_old[arr] = t0
    for arr in SLOT_OF:
        k = ("fieldstore", "self", arr + "[]")
        if k in ex.store and arr not in slot_final:
            slot_final[arr] = ex.store[k]
            slot_old[arr] = ("index", ("field", ("var", "self"), arr), ("var", "?"))
    out = {"old": slot_old, "params": (pos_name, new_name)}
    H = ex.store.get(("fieldstore", "self", "hash"))
    S = ex.store.get(("fieldstore", "self", "score"))
    P = ("var", "P")
    D = discr_map(F)
    helpers = hir.table_helpers(F)
    for case, val in (("None", ("variant", "std::prelude::v1::None")), ("Some", ("ctor", "std::prelude::v1::Some", (P,)))):
        a = {("var", new_name): val}
        f = lambda t: hir.fold(t, a, D, helpers) if t is not None else None
        out[case] = {"hash": f(H), "score": f(S), "board": f(slot_final.get("board")), "slot_s": f(slot_final.get("past_scores")),
                     "slot_h": f(slot_final.get("past_hashes"))}
    idxs = set()
    for n, anc in hir.walk(fn["hir"]["body"]):
        if n.get("k") == "MethodCall" and n["name"] in ("get_unchecked_mut", "get_mut", "index_mut", "get_unchecked"):
            idxs.add(hir.fmt(sym(n["args"][0]), 80))
        if n.get("k") == "Index":
            idxs.add(hir.fmt(sym(n["i"]), 80))
    out["index"] = idxs
    return out


def _pbinds(pat):
    out = []
    if not isinstance(pat, dict):
        return out
    if pat.get("k") == "PBind":
        out.append(pat)
    for key in ("pats",):
        for s_ in pat.get(key) or ():
            out += _pbinds(s_)
    if isinstance(pat.get("pat"), dict):
        out += _pbinds(pat["pat"])
    if isinstance(pat.get("sub"), dict):
        out += _pbinds(pat["sub"])
    return out


def position_values(t, F):
    """Canonical square values: Position::new_assert/new_unsafe/new_unchecked(lit, lit) and consts of type Position become
    ("pos", row, col), so that equal squares compare equal however they are spelled."""
    if not isinstance(t, tuple) or not t:
        return t
    if t[0] == "call" and isinstance(t[1], str) and t[1].startswith("chess::position::Position::new") and len(t[2]) == 2:
        r, c = hir.sym_int(t[2][0]), hir.sym_int(t[2][1])
        if r is not None and c is not None:
            return ("pos", r, c)
    if t[0] == "const" and t[1] in F.consts and F.consts[t[1]]["ty"] == "chess::position::Position":
        try:
            b = F.const_bytes(t[1])
            if len(b) == 2:
                return ("pos", int.from_bytes(b[0:1], "little", signed=True), int.from_bytes(b[1:2], "little", signed=True))
        except Exception:
            pass
    return tuple(position_values(x, F) if isinstance(x, tuple) and not isinstance(x, hir.PK) else x for x in t)


def summarize_with_returns(fn, F):
    """Normal form of a function's value with early returns / `?` turned into values first (rules/inline.py)."""
    from . import inline
    h = {"params": fn["hir"]["params"], "body": inline.body_as_value(fn["hir"], fn["hir"]["body"])}
    return hir.Exec(h, F).run()


def chess_evalcalls(board=None, extra=None):
    """Evaluators for the small pure chess helpers on literal squares, for hir.fold(evalcalls=..):
    Position::new/new_assert/new_unsafe, row, col, as_usize, add; Player::the_other; Game::get_position on a known square
    (`board`: {(row, col): content normal form}; squares not in the dict stay symbolic)."""
    SOME, NONE = "std::prelude::v1::Some", ("variant", "std::prelude::v1::None")
    P = "chess::position::Position::"

    def ints(args):
        v = [hir.sym_int(a) for a in args]
        return None if None in v else v

    def pnew(args):
        v = ints(args)
        if v is None:
            return None
        return ("ctor", SOME, (("pos", v[0], v[1]),)) if 0 <= v[0] < 8 and 0 <= v[1] < 8 else NONE

    def pmk(args):
        v = ints(args)
        return ("pos", v[0], v[1]) if v is not None else None

    def _made(a):
        # Position::new_assert(r, c) / new_unsafe(r, c) with a symbolic component: row and col are still its arguments
        return a[0] == "call" and str(a[1]).endswith(("Position::new_assert", "Position::new_unsafe")) and len(a[2]) == 2

    def prow(args):
        if args and _made(args[0]):
            return args[0][2][0]
        return ("lit", args[0][1]) if args and args[0][:1] == ("pos",) else None

    def pcol(args):
        if args and _made(args[0]):
            return args[0][2][1]
        return ("lit", args[0][2]) if args and args[0][:1] == ("pos",) else None

    def pidx(args):
        return ("lit", args[0][1] * 8 + args[0][2]) if args and args[0][:1] == ("pos",) else None

    def padd(args):
        if len(args) == 2 and args[0][:1] == ("pos",) and args[1][:1] == ("tup",) and len(args[1]) == 3:
            d = ints(args[1][1:])
            if d is not None:
                return pnew((("lit", args[0][1] + d[0]), ("lit", args[0][2] + d[1])))
        return None

    def padd_unsafe(args):
        if len(args) == 2 and args[0][:1] == ("pos",) and args[1][:1] == ("tup",) and len(args[1]) == 3:
            d = ints(args[1][1:])
            if d is not None:
                return ("pos", args[0][1] + d[0], args[0][2] + d[1])
        return None

    def other(args):
        if args and args[0][0] == "variant" and args[0][1].startswith("chess::Player::"):
            return ("variant", "chess::Player::" + ("Black" if args[0][1].endswith("White") else "White"))
        return None

    def getpos(args):
        if board is not None and len(args) == 2 and args[1][:1] == ("pos",):
            return board.get((args[1][1], args[1][2]))
        return None
    ev = {P + "new": pnew, P + "new_assert": pmk, P + "new_unsafe": pmk, P + "new_unchecked": pmk, P + "row": prow, P + "col": pcol,
          P + "as_usize": pidx, P + "add": padd, P + "add_unsafe": padd_unsafe, "chess::Player::the_other": other,
          "chess::Game::get_position": getpos}
    if extra:
        ev.update(extra)
    return ev


def position_constructor_cases(F, name):
    """Evaluate Position::<name> (anchored helpers it forwards to expanded) on a grid of concrete arguments.
    Returns [(args, result normal form)] ; result is ("pos", r, c) / Some(pos) / None / a panic call / something undecided."""
    from . import inline
    P = "chess::position::Position::"
    fn = inline.expand_known(F, P + name, [P + "new", P + "new_unsafe", P + "new_assert", P + "new_unchecked"])
    h = {"params": fn["hir"]["params"], "body": inline.body_as_value(fn["hir"], fn["hir"]["body"])}
    nf = hir.Exec(h, F).run()
    params = [p["pat"].get("name") for p in fn["hir"]["params"]]
    out = []
    grid = [-128, -9, -2, -1, 0, 1, 2, 3, 4, 5, 6, 7, 8, 9, 15, 16, 127]

    def ctor(t):
        # Self(r, c) -> ("pos", r, c)
        if isinstance(t, tuple) and t and t[0] == "ctor" and str(t[1]).endswith("position::Position") and len(t[2]) == 2:
            a, b = hir.sym_int(t[2][0]), hir.sym_int(t[2][1])
            if a is not None and b is not None:
                return ("pos", a, b)
        if isinstance(t, tuple):
            return tuple(ctor(x) if isinstance(x, tuple) and not isinstance(x, hir.PK) else x for x in t)
        return t
    if name in ("add", "add_unsafe"):
        for r, c in ((0, 0), (3, 4), (7, 7), (0, 7), (7, 0), (1, 1), (6, 6), (1, 6), (6, 1), (0, 3), (7, 4), (4, 0), (3, 7)):
            for dr, dc in ((-1, 0), (1, 0), (0, -1), (0, 1), (2, 1), (-2, -1), (1, 2), (-1, -2), (7, 7), (-7, -7), (1, -1), (-1, 1), (7, 0), (0, 7), (-7, 0), (0, -7)):
                a = {("field", ("var", params[0]), "0"): ("lit", r), ("field", ("var", params[0]), "1"): ("lit", c),
                     ("field", ("var", params[1]), "0"): ("lit", dr), ("field", ("var", params[1]), "1"): ("lit", dc)}
                out.append(((r, c, dr, dc), ctor(hir.fold(nf, a))))
    else:
        for r in grid:
            for c in grid:
                a = {("var", params[0]): ("lit", r), ("var", params[1]): ("lit", c)}
                out.append(((r, c), ctor(hir.fold(nf, a))))
    return out


# ---------------------------------------------------------------------------
# intervals of normal forms (a small evaluator for arguments that the MIR interval analysis cannot follow through calls)

def pattern_ranges(fn_hir):
    """{binding name: (lo, hi)} for names bound with a range sub-pattern (`file @ b'a'..=b'h'`)"""
    out = {}
    for n, _ in hir.walk(fn_hir["body"]):
        pass
    stack = [fn_hir["body"]]
    while stack:
        x = stack.pop()
        if isinstance(x, list):
            stack.extend(x)
            continue
        if not isinstance(x, dict):
            continue
        if x.get("k") == "PBind" and isinstance(x.get("sub"), dict) and x["sub"].get("k") == "PRange":
            lo, hi = (x["sub"].get("lo") or {}).get("v"), (x["sub"].get("hi") or {}).get("v")
            if isinstance(lo, str) and len(lo) == 1:
                lo = ord(lo)
            if isinstance(hi, str) and len(hi) == 1:
                hi = ord(hi)
            if isinstance(lo, int) and isinstance(hi, int):
                out[x["name"]] = (lo, hi if "Included" in str(x["sub"].get("end")) else hi - 1)
        stack.extend(v for k_, v in x.items() if isinstance(v, (dict, list)) and k_ not in ("sp", "osp"))
    return out


def term_interval(t, ranges):
    """(lo, hi) of an integer normal form over variables with known ranges, or None.  Understands literals, + - *, unary minus,
    integer casts (value-preserving when the range fits; otherwise None), row/col of a constructed Position, if/match (hull)."""
    if not isinstance(t, tuple) or not t:
        return None
    h = t[0]
    if h == "lit" and isinstance(t[1], int) and not isinstance(t[1], bool):
        return (t[1], t[1])
    if h == "lit" and isinstance(t[1], str) and len(t[1]) == 1:
        return (ord(t[1]), ord(t[1]))
    if h == "var":
        return ranges.get(t[1])
    if h in ("un", "deref") and isinstance(t[-1], tuple):
        return term_interval(t[-1], ranges)
    if h == "neg":
        a = term_interval(t[1], ranges)
        return (-a[1], -a[0]) if a else None
    if h == "bin" and t[1] in ("+", "-", "*"):
        a, b = term_interval(t[2], ranges), term_interval(t[3], ranges)
        if a is None or b is None:
            return None
        if t[1] == "+":
            return (a[0] + b[0], a[1] + b[1])
        if t[1] == "-":
            return (a[0] - b[1], a[1] - b[0])
        c = [a[0] * b[0], a[0] * b[1], a[1] * b[0], a[1] * b[1]]
        return (min(c), max(c))
    if h == "cast":
        a = term_interval(t[1], ranges)
        lim = {"i8": (-128, 127), "u8": (0, 255), "i16": (-32768, 32767), "u16": (0, 65535), "i32": (-2 ** 31, 2 ** 31 - 1), "u32": (0, 2 ** 32 - 1),
               "usize": (0, 2 ** 64 - 1), "isize": (-2 ** 63, 2 ** 63 - 1), "u64": (0, 2 ** 64 - 1), "i64": (-2 ** 63, 2 ** 63 - 1)}.get(t[2])
        if a is None or lim is None or a[0] < lim[0] or a[1] > lim[1]:
            return None
        return a
    if h == "call" and isinstance(t[1], str) and t[1].endswith(("Position::row", "Position::col")) and len(t[2]) == 1:
        p0 = t[2][0]
        if p0[:1] == ("pos",):
            v = p0[1] if t[1].endswith("row") else p0[2]
            return (v, v)
        if p0[0] == "call" and str(p0[1]).endswith(("Position::new_assert", "Position::new_unsafe")) and len(p0[2]) == 2:
            return term_interval(p0[2][0] if t[1].endswith("row") else p0[2][1], ranges)
        return None
    if h == "if" and len(t) == 4:
        a, b = term_interval(t[2], ranges), term_interval(t[3], ranges)
        return (min(a[0], b[0]), max(a[1], b[1])) if a and b else None
    if h == "match":
        parts = [term_interval(b, ranges) for _, _, b in t[2] if b[:1] not in (("ret",), ("panic",))]
        if parts and all(parts):
            return (min(p_[0] for p_ in parts), max(p_[1] for p_ in parts))
        return None
    return None


# ---------------------------------------------------------------------------
# text a Move writer produces for a move of a given kind (shared by C12 / C18 / C20)

MOVE_FIELDS = {"Normal": ("piece", "start", "end", "captured_piece"), "Promotion": ("owner", "start", "end", "new_piece", "captured_piece"),
               "EnPassant": ("owner", "start_col", "end_col"), "CastlingShort": ("owner",), "CastlingLong": ("owner",)}


def eval_move_text(nf, variant, env, D):
    """Text of a string-building summary `nf` of a `&self` method of Move for a move of kind `variant`, or None.  `self` is a value
    of that variant whose fields are free variables; `env` states assumptions on `self.<field>` terms (a field itself, or calls on
    it such as Position::col(self.start), Option::is_some(self.captured_piece)).  Works whatever way the writer takes the move
    apart: `match self`, `if let`, nested patterns (`captured_piece: Some(v)`), helpers returning parts of it."""
    MV = "chess::move_struct::Move::"
    SELF_ = ("var", "self")
    fv = {f: ("var", "@" + f) for f in MOVE_FIELDS[variant]}

    def tr(t):
        if not isinstance(t, tuple) or isinstance(t, hir.PK):
            return t
        if len(t) == 3 and t[0] == "field" and t[1] == SELF_ and t[2] in fv:
            return fv[t[2]]
        return tuple(tr(x) if isinstance(x, tuple) else x for x in t)
    env2 = {tr(k): tr(v) for k, v in env.items()}
    # Position::row(p) / col(p) are p.0 / p.1: an assumption on one spelling holds for the other
    for k, v in list(env2.items()):
        if k[:1] == ("call",) and isinstance(k[1], str) and k[1].endswith(("Position::row", "Position::col")) and len(k[2]) == 1:
            env2.setdefault(("field", k[2][0], "0" if k[1].endswith("row") else "1"), v)
    vals = dict(fv)
    for f in list(fv):
        if fv[f] in env2:
            vals[f] = env2.pop(fv[f])
    if "captured_piece" in fv:
        k = ("call", "std::option::Option::<T>::is_some", (fv["captured_piece"],))
        if k in env2 and vals["captured_piece"] == fv["captured_piece"]:
            vals["captured_piece"] = ("ctor", "std::prelude::v1::Some", (("var", "@captured"),)) if env2[k] == ("lit", True) else \
                ("variant", "std::prelude::v1::None")
    a = dict(env2)
    a[SELF_] = ("struct", MV + variant, tuple(sorted(vals.items())))
    ev = chess_evalcalls(None, {})
    v = hir.fold(nf, a, D, None, ev)
    for _ in range(2):
        if isinstance(v, tuple) and v and v[0] == "str" and all(p_[0] in ("ch", "s") and p_[1][0] == "lit" for p_ in v[1:]):
            break
        v = hir.fold(v, a, D, None, ev)
    if isinstance(v, tuple) and v and v[0] == "lit" and isinstance(v[1], str):
        return v[1]         # a whole literal text (`String::from("O-O")`)
    if not (isinstance(v, tuple) and v and v[0] == "str"):
        return None
    out = ""
    for p_ in v[1:]:
        if p_[0] in ("ch", "s") and p_[1][0] == "lit" and isinstance(p_[1][1], str):
            out += p_[1][1]
        else:
            return None
    return out

