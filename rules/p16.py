"""C16 - the evaluation score is the piece-square sum of the board.

Decides: (E1) score / past_scores / piece_scores are written only by the primitives that keep
`score = sum(past_scores)` and `past_scores[s] = Piece::score(board[s], s, tables in force)` (who-may-write and the
set_position discipline); (E2) Piece::score is `tables[kind][(White ? 7-row : row)*8 + col] * sign(owner)` with the
table order of Game::new equal to the PieceType discriminant order - colour-mirror antisymmetry follows from this
normal form; (E3) the importer adds each piece's contribution exactly once; (E4) a swap of the king table
re-seats both kings, and is unreachable from push/pop/search, so one table values both kings.
Not decided (assumption): the intermediate i16 range under sane material.
"""
from . import core, hir, mir
from . import p03
from .common import discr_map, sym_fn, field_writes

LEVEL = "other"
EXPLANATION = ("Who-may-write over MIR for score/past_scores/piece_scores, the set_position update discipline, the case-folded "
               "summary of Piece::score per (owner, kind), the evaluation-table order in Game::new against the PieceType "
               "discriminants, and the importer's per-piece accumulation.")
PT = "chess::piece::PieceType::"
PL = "chess::Player::"
TABLE_ORDER = ["QUEEN_SCORES", "ROOK_SCORES", "BISHOP_SCORES", "KNIGHT_SCORES", "PAWN_SCORES", "KING_SCORES_MIDDLE"]
KINDS = ["Queen", "Rook", "Bishop", "Knight", "Pawn", "King"]


def run(ctx):
    F = ctx.facts
    e1(ctx, F)
    e2(ctx, F)
    e3(ctx, F)
    e4(ctx, F)
    ctx.assume("intermediate i16 values in set_position stay in range under sane material (<= 9Q+2R+2B+2N a side); in release "
               "builds +/- wrap and remain mutual inverses, so the invariant is unaffected")


def relabel(ctx, before, nv, rule):
    for i in ctx.instances[before:]:
        i["rule"] = "%s(%s)" % (rule, i["rule"])
    for v in ctx.violations[nv:]:
        v["rule"] = "%s(%s)" % (rule, v["rule"])
        v["key"] = rule + "|" + v["key"]


def e1(ctx, F):
    n = 0
    for f in ("score", "past_scores", "piece_scores"):
        allowed = p03.WRITERS[f]
        by_fn = {}
        for path, node, kind in field_writes(F, "chess::Game", f):
            by_fn.setdefault(path, []).append(kind)
        for path, kinds in sorted(by_fn.items()):
            n += 1
            ok = path in allowed or path == "<chess::Game as std::clone::Clone>::clone"
            ctx.check("C16.E1", "writer:%s<-%s" % (f, path), ok, fn=path, file=F.fn(path)["file"], line=F.fn(path)["span"][0],
                      what="Game.%s is written outside the primitives that keep score = sum of per-square contributions" % f,
                      expected=sorted(allowed), found="%s (%s)" % (path, ",".join(sorted(set(kinds)))))
    ctx.floor("C16.E1", "writer rows", n, 3)
    before, nv = len(ctx.instances), len(ctx.violations)
    p03.set_position_discipline(ctx, F)
    relabel(ctx, before, nv, "C16.E1")
    # what a square contributes: 0 when empty, the piece's score on that square with the game's current tables otherwise
    from .common import set_position_summary
    sp = F.fn("chess::Game::set_position")
    okc, foundc = False, None
    try:
        sm = set_position_summary(F)
        pos_name = sm["params"][0]
        yn, ys = sm["None"]["slot_s"], sm["Some"]["slot_s"]
        foundc = {"empty": hir.fmt(yn, 80) if yn else None, "piece P": hir.fmt(ys, 120) if ys else None}
        okc = yn == ("lit", 0) and ys == ("call", "chess::piece::Piece::score", (("var", "P"), ("var", pos_name), ("field", ("var", "self"), "piece_scores")))
    except hir.Unsupported as e:
        foundc = "not summarisable: %s" % e
    ctx.check("C16.E1", "square-contribution-is-the-piece-score", okc, fn=sp["path"], file=sp["file"],
              what="the cached contribution of a square must be 0 when it is empty and piece.score(square, current tables) otherwise",
              expected="empty -> 0, P -> P.score(position, &self.piece_scores)", found=foundc)
    # Game::score() returns the field
    fn = F.fn("chess::Game::score")
    nf = sym_fn(fn, F)
    ctx.check("C16.E1", "score()-returns-the-running-total", nf == ("field", ("var", "self"), "score"), fn=fn["path"], file=fn["file"],
              what="Game::score() is not the maintained total", found=hir.fmt(nf, 80))


def e2(ctx, F):
    D = discr_map(F)
    pl = F.enum_discr("chess::Player")
    ctx.check("C16.E2", "Player-discriminants-are-signs", pl == {"White": 1, "Black": -1}, fn="chess::Player", file="src/chess/mod.rs",
              what="`owner as Score` is used as the sign of a contribution", expected={"White": 1, "Black": -1}, found=pl)
    fn = F.fn("chess::piece::Piece::score")
    nf = sym_fn(fn, F)
    n = 0
    ROW, COL = ("call", "chess::position::Position::row", (("var", "pos"),)), ("call", "chess::position::Position::col", (("var", "pos"),))
    for owner, sign in (("White", 1), ("Black", -1)):
        for k, kind in enumerate(KINDS):
            v = hir.fold(nf, {("field", ("var", "self"), "owner"): ("variant", PL + owner),
                              ("field", ("var", "self"), "piece_type"): ("variant", PT + kind)}, D)
            ok = False
            found = hir.fmt(v, 300)
            # value = table entry * sign, in whatever spelling the folding leaves it: x * 1 = x, x * -1 = -x
            a = b = None
            if v[0] == "bin" and v[1] == "*":
                a, b = v[2], v[3]
                if a == ("lit", sign):
                    a, b = b, a
            elif v[0] == "neg":
                a, b = v[1], ("lit", -1)
            elif v[0] == "call":
                a, b = v, ("lit", 1)
            if a is not None:
                if b == ("lit", sign) and a[0] == "call" and str(a[1]).endswith(("get_unchecked", "index")) and len(a[2]) == 2:
                    tab, idx = a[2]
                    tab_ok = tab in (("call", "std::cell::Cell::<T>::get", (("index", ("var", "scores"), ("lit", k)),)),)
                    # the tables of every kind but the king never change: reading the constant of that kind is the same table
                    if not tab_ok and kind != "King":
                        tab_ok = tab == ("const", "chess::scores::" + TABLE_ORDER[k])
                    want_row = ("bin", "-", ("lit", 7), ROW) if owner == "White" else ROW
                    idx_ok = idx == ("call", "chess::position::Position::as_usize",
                                     (("call", "chess::position::Position::new_unsafe", (want_row, COL)),)) or \
                        idx == ("call", "chess::position::Position::as_usize",
                                (("call", "chess::position::Position::new_assert", (want_row, COL)),))
                    ok = tab_ok and idx_ok
            n += 1
            ctx.check("C16.E2", "Piece::score:%s %s" % (owner, kind), ok, fn=fn["path"], file=fn["file"], line=fn["span"][0],
                      what="Piece::score is not table[kind][(%s)*8+col] * (%+d): the colour-mirrored position would not have the negated score"
                           % ("7-row" if owner == "White" else "row", sign),
                      expected="scores[%d].get()[as_usize(Position(%s, col))] * %d" % (k, "7 - row" if owner == "White" else "row", sign),
                      found=found)
    ctx.floor("C16.E2", "Piece::score cases", n, 12)
    # table order in Game::new = discriminant order
    new = F.fn("chess::Game::new")
    env = hir.Env(new["hir"], F)
    sym = hir.Sym(env, F)
    order = None
    for nd, anc in hir.walk(new["hir"]["body"]):
        if nd.get("k") == "SLet" and nd["pat"].get("k") == "PBind" and nd["pat"]["name"] == "piece_scores":
            # the value of the initialiser as an array of per-kind tables, however it is spelled (literal, named table list, `.map(Cell::new)`)
            arr = hir.fold(sym(nd["init"]), {})
            if arr[0] == "arr":
                order = []
                for t in arr[1:]:
                    names = [x[1].split("::")[-1] for x in hir.subterms(t) if len(x) == 2 and x[0] == "const" and str(x[1]).startswith("chess::scores::")]
                    order.append(names[0] if len(names) == 1 else None)
    pt = F.enum_discr("chess::piece::PieceType")
    ctx.check("C16.E2", "table-order=PieceType-discriminant-order", order == TABLE_ORDER and [pt.get(k) for k in KINDS] == list(range(6)),
              fn=new["path"], file=new["file"],
              what="the evaluation tables in Game::new are not in the order of the PieceType discriminants used to index them "
                   "(the WARNING comment on Game.piece_scores)", expected=dict(zip(KINDS, TABLE_ORDER)), found=order)
    # orientation sanity from the table data itself: White's 7th rank is table row 1
    pawn = F.const_ints("chess::scores::PAWN_SCORES", 2, signed=True)
    ctx.check("C16.E2", "tables-written-from-rank-8-down", min(pawn[8:16]) > max(pawn[48:56]), fn="chess::scores::PAWN_SCORES",
              file="src/chess/scores.rs", what="pawn table orientation: row 1 of the table must be the rank before promotion",
              found={"row1": pawn[8:16], "row6": pawn[48:56]})
    # the king tables differ only positionally: same material term
    km = F.const_ints("chess::scores::KING_SCORES_MIDDLE", 2, signed=True)
    ke = F.const_ints("chess::scores::KING_SCORES_END", 2, signed=True)
    ctx.check("C16.E2", "king-tables-same-material", abs(sum(km) // 64 - sum(ke) // 64) < 100, fn="chess::scores", file="src/chess/scores.rs",
              what="the two king tables must carry the same material value", found=(sum(km) // 64, sum(ke) // 64), nontrivial=False)


def e3(ctx, F):
    fn = F.fn("chess::Game::new")
    body = fn["hir"]["body"]
    env = hir.Env(fn["hir"], F)
    sym = hir.Sym(env, F)
    slot_writes, adds, inits = [], [], {}
    for n, anc in hir.walk(body):
        if n.get("k") == "Assign":
            l = hir.strip(n["l"])
            if l.get("k") == "Index" and hir.strip(l["e"]).get("to", {}).get("name") == "past_scores":
                slot_writes.append((n, anc))
        if n.get("k") == "AssignOp" and n["op"] in ("+=", "-=") and hir.strip(n["l"]).get("to", {}).get("name") == "score":
            adds.append((n, anc))
        if n.get("k") == "SLet" and n["pat"].get("k") == "PBind" and n["pat"]["name"] in ("score", "past_scores") and not any(a.get("k") == "Loop" for a in anc):
            inits.setdefault(n["pat"]["name"], hir.fmt(sym(n["init"]), 60))
    ok = len(slot_writes) == 1 and len(adds) == 1
    found = {"past_scores writes": len(slot_writes), "score updates": len(adds)}
    if ok:
        w, a = slot_writes[0][0], adds[0][0]
        wl = hir.strip(w["l"])
        idx = sym(wl["i"])
        val = sym(w["r"])
        stored = [s_ for s_, _ in hir.walk(body) if s_.get("k") == "Assign" and hir.strip(s_["l"]).get("k") == "Index"
                  and hir.strip(hir.strip(s_["l"])["e"]).get("to", {}).get("name") == "board"]
        board_val = sym(stored[0]["r"]) if len(stored) == 1 else None
        val_ok = val[0] == "call" and val[1] == "chess::piece::Piece::score" and \
            board_val == ("ctor", "std::prelude::v1::Some", (val[2][0],)) and \
            idx == ("call", "chess::position::Position::as_usize", (val[2][1],)) and \
            (val[2][2] == ("var", "piece_scores") or hir.contains(val[2][2], ("const", "chess::scores::QUEEN_SCORES")))
        add_ok = a["op"] == "+=" and sym(a["r"]) == ("index", ("var", "past_scores"), idx)
        blocks = [x for x in slot_writes[0][1] if x.get("k") == "Block"]
        same_block = bool(blocks) and any(x is a for x, _ in hir.walk(blocks[-1]))
        # the slot is read after it was written (an add in front of the write adds the slot's old content: 0)
        after_write = hir.order_key(a) > hir.order_key(w)
        ok = val_ok and add_ok and same_block and after_write
        found.update({"slot = score of the piece stored on that square": val_ok, "score += that slot": add_ok, "same arm": same_block,
                      "added after the slot was written": after_write})
    ctx.check("C16.E3", "importer-adds-each-piece-once", ok, fn=fn["path"], file=fn["file"],
              line=hir.line(slot_writes[0][0]) if slot_writes else fn["span"][0],
              what="the importer must cache piece.score(square) in past_scores[square] and add exactly that to the total, once per piece",
              found=found)
    ctx.check("C16.E3", "importer-starts-from-zero", inits.get("score") == "0" and inits.get("past_scores", "").startswith("repeat(0"),
              fn=fn["path"], file=fn["file"], what="total and per-square cache must start at zero (empty squares contribute 0)", found=inits)
    # the struct literal takes these locals
    lit_ok = False
    for n, anc in hir.walk(body):
        if n.get("k") == "Struct" and (n["to"].get("path") or "").endswith("chess::Game") or (n.get("k") == "Struct" and n["to"].get("res") == "selfty"):
            d = {f["name"]: sym(f["e"]) for f in n["fields"]}
            lit_ok = d.get("score") == ("var", "score") and d.get("past_scores") == ("var", "past_scores") and \
                d.get("piece_scores") in (("var", "piece_scores"),) or (hir.fold(d.get("piece_scores", ("x",)), {})[0] == "arr")
    ctx.check("C16.E3", "game-built-from-the-accumulated-values", lit_ok, fn=fn["path"], file=fn["file"],
              what="the Game value must be built from the accumulated score / past_scores / tables", found=lit_ok)


def e4(ctx, F):
    before, nv = len(ctx.instances), len(ctx.violations)
    p03.s1b(ctx, F)
    relabel(ctx, before, nv, "C16.E4")
    g = mir.callgraph(F)
    sites = {w[0] for w in field_writes(F, "chess::Game", "piece_scores") if w[2] == "cell-set"}
    for start in ("search::get_best_move_until_stop", "search::get_best_move_entry", "search::quiescence_search"):
        r = mir.reachable_fns(g, start)
        ctx.check("C16.E4", "tables-constant-during-search:%s" % start, not (r & sites), fn=start, file="src/search.rs",
                  what="an evaluation-table swap is reachable from the search", found=sorted(r & sites))
