"""CFG utilities over the MIR emitted by the driver (-Zmir-opt-level=0)."""


def succs(term):
    k = term["k"]
    out = []
    if k == "Goto":
        out = [term["target"]]
    elif k == "SwitchInt":
        out = [t[1] for t in term["targets"]] + [term["otherwise"]]
    elif k in ("Drop", "Assert"):
        out = [term["target"]]
        if term.get("unwind") is not None:
            out.append(term["unwind"])
    elif k == "Call":
        if term.get("target") is not None:
            out.append(term["target"])
        if term.get("unwind") is not None:
            out.append(term["unwind"])
    return out


def const_locals(m):
    """Locals assigned exactly once, from a constant: {local: int value}."""
    count, val = {}, {}
    for b in m["blocks"]:
        for s in b["stmts"]:
            if s["k"] == "Assign" and not s["place"].get("p"):
                l = s["place"]["l"]
                count[l] = count.get(l, 0) + 1
                rv = s["rv"]
                if rv["k"] == "Use" and rv["op"].get("k") == "const" and (rv["op"].get("c") or {}).get("int") is not None:
                    val[l] = rv["op"]["c"]["int"]
        t = b["term"]
        if t["k"] == "Call" and t.get("dest") and not t["dest"].get("p"):
            count[t["dest"]["l"]] = count.get(t["dest"]["l"], 0) + 1
    return {l: v for l, v in val.items() if count.get(l) == 1}


def normal_succs(term, consts=None):
    """Successors excluding unwind/cleanup edges."""
    k = term["k"]
    if k == "SwitchInt" and consts:
        d = term.get("discr") or {}
        if d.get("k") in ("copy", "move") and not d["place"].get("p") and d["place"]["l"] in consts:
            v = consts[d["place"]["l"]]
            for val, bb in term["targets"]:
                if val == v:
                    return [bb]
            return [term["otherwise"]]
    if k == "Goto":
        return [term["target"]]
    if k == "SwitchInt":
        d = term.get("discr") or {}
        if d.get("k") == "const" and (d.get("c") or {}).get("int") is not None:
            v = d["c"]["int"]          # `if cfg!(debug_assertions)` and similar constant conditions: only the taken arm
            for val, bb in term["targets"]:
                if val == v:
                    return [bb]
            return [term["otherwise"]]
        return [t[1] for t in term["targets"]] + [term["otherwise"]]
    if k in ("Drop", "Assert"):
        return [term["target"]]
    if k == "Call":
        return [term["target"]] if term.get("target") is not None else []
    return []


class Cfg:
    def __init__(self, fn):
        self.fn = fn
        m = fn["mir"]
        self.m = m
        self.blocks = m["blocks"]
        self.n = len(self.blocks)
        self.locals = m["locals"]
        self.consts = const_locals(m)
        self.succ = [normal_succs(b["term"], self.consts) for b in self.blocks]
        self.pred = [[] for _ in range(self.n)]
        for i, ss in enumerate(self.succ):
            for s in ss:
                self.pred[s].append(i)
        self._dom = None
        self._pdom = None

    def reachable(self, start=0, avoid=()):
        seen = set()
        st = [start]
        avoid = set(avoid)
        while st:
            b = st.pop()
            if b in seen or b in avoid:
                continue
            seen.add(b)
            st.extend(self.succ[b])
        return seen

    def reach_from_succs(self, b, avoid=()):
        """Blocks reachable by at least one edge from b."""
        seen = set()
        st = list(self.succ[b])
        avoid = set(avoid)
        while st:
            x = st.pop()
            if x in seen or x in avoid:
                continue
            seen.add(x)
            st.extend(self.succ[x])
        return seen

    def dominators(self):
        if self._dom is not None:
            return self._dom
        n = self.n
        reach = self.reachable(0)
        dom = {b: set(reach) for b in reach}
        dom[0] = {0}
        changed = True
        order = sorted(reach)
        while changed:
            changed = False
            for b in order:
                if b == 0:
                    continue
                ps = [p for p in self.pred[b] if p in reach]
                if not ps:
                    continue
                new = set.intersection(*(dom[p] for p in ps)) | {b}
                if new != dom[b]:
                    dom[b] = new
                    changed = True
        self._dom = dom
        return dom

    def dominates(self, a, b):
        d = self.dominators()
        return b in d and a in d[b]

    def returns(self):
        return [i for i, b in enumerate(self.blocks) if b["term"]["k"] == "Return"]

    def calls(self, pred=None):
        """(block index, terminator) for Call terminators, optionally filtered by callee predicate."""
        out = []
        for i, b in enumerate(self.blocks):
            t = b["term"]
            if t["k"] == "Call":
                c = t.get("callee") or (t["func"].get("c") or {}).get("fn")
                if pred is None or pred(c or "", t):
                    out.append((i, t))
        return out

    def local_ty(self, l):
        return self.locals[l]["ty"]

    def local_name(self, l):
        return self.locals[l].get("name")

    def must_pass(self, src, dst_set, through_pred):
        """True if every path from block `src` to any block in dst_set passes a block satisfying through_pred."""
        # search for a path avoiding `through` blocks
        seen = set()
        st = [src]
        while st:
            b = st.pop()
            if b in seen:
                continue
            seen.add(b)
            if through_pred(b):
                continue
            if b in dst_set:
                return False
            st.extend(self.succ[b])
        return True

    def line_of_block(self, b):
        t = self.blocks[b]["term"]
        sp = t.get("span")
        if sp:
            return sp[4] if len(sp) > 4 else sp[0]
        for s in self.blocks[b]["stmts"]:
            if s.get("span"):
                return s["span"][0]
        return None


def callee(term):
    return term.get("callee") or ((term.get("func") or {}).get("c") or {}).get("fn") or ""


def span_line(x):
    sp = x.get("span")
    if not sp:
        return None
    return sp[4] if len(sp) > 4 else sp[0]


def place_fields(place):
    """Names of field projections in order."""
    return [p["f"] for p in (place.get("p") or []) if isinstance(p, dict) and "f" in p]


def base_ty(ty):
    t = ty
    while t.startswith("&"):
        t = t[1:]
        if t.startswith("mut "):
            t = t[4:]
    return t.strip()


def iter_stmts(fn):
    for bi, b in enumerate(fn["mir"]["blocks"]):
        for s in b["stmts"]:
            yield bi, s


def operands_of_rvalue(rv):
    k = rv["k"]
    if k in ("Use", "Repeat", "Cast", "WrapUnsafeBinder"):
        return [rv.get("op")]
    if k == "UnaryOp":
        return [rv.get("a")]
    if k == "BinaryOp":
        return [rv["a"], rv["b"]]
    if k == "Aggregate":
        return rv["ops"]
    return []


def places_read_by_rvalue(rv):
    out = []
    for op in operands_of_rvalue(rv):
        if op and op.get("k") in ("copy", "move"):
            out.append(op["place"])
    if rv["k"] in ("Ref", "RawPtr", "Discriminant", "CopyForDeref"):
        out.append(rv["place"])
    return out


# ---------------------------------------------------------------------------
# call graph (crate-local nodes; std/deps callees are leaves)

def callgraph(F):
    g = {}
    for path, fn in F.fns.items():
        m = fn.get("mir")
        out = set()
        if m:
            for b in m["blocks"]:
                t = b["term"]
                if t["k"] in ("Call", "TailCall"):
                    c = callee(t)
                    if c:
                        out.add(c)
                    # function items passed as arguments (e.g. `.map(Move::pgn_notation)`)
                    for a in t.get("args", []):
                        if a.get("k") == "const" and (a.get("c") or {}).get("fn"):
                            out.add(a["c"]["fn"])
                for s in b["stmts"]:
                    if s["k"] == "Assign" and s["rv"]["k"] == "Aggregate" and s["rv"].get("ak") == "Closure":
                        out.add(s["rv"]["closure"])
                    if s["k"] == "Assign":
                        for op in operands_of_rvalue(s["rv"]):
                            if op and op.get("k") == "const" and (op.get("c") or {}).get("fn"):
                                out.add(op["c"]["fn"])
        g[path] = out
    return g


def reachable_fns(g, start):
    seen, st = set(), [start]
    while st:
        f = st.pop()
        if f in seen:
            continue
        seen.add(f)
        for c in g.get(f, ()):
            if c not in seen:
                st.append(c)
    return seen


def callers_of(g, target):
    return {f for f, cs in g.items() if target in cs}


# ---------------------------------------------------------------------------
# copy chains: which user variable / parameter does a temporary come from

def copy_sources(fn):
    """local -> (root local, projection-free?) following single `_t = copy/move _x` / `&mut (*_x)` / `&mut _x` defs."""
    m = fn["mir"]
    defs = {}
    for b in m["blocks"]:
        for s in b["stmts"]:
            if s["k"] == "Assign" and not s["place"].get("p"):
                defs.setdefault(s["place"]["l"], []).append(s["rv"])
        t = b["term"]
        if t["k"] == "Call" and t.get("dest") and not t["dest"].get("p"):
            defs.setdefault(t["dest"]["l"], []).append({"k": "CallResult", "callee": callee(t), "args": t["args"]})
    return defs


def root_of(local, defs, depth=0):
    """Follow unique copy/borrow definitions to a root local; returns (root local, list of steps)."""
    steps = []
    cur = local
    while depth < 50:
        depth += 1
        ds = defs.get(cur)
        if not ds or len(ds) != 1:
            return cur, steps
        rv = ds[0]
        if rv["k"] == "Use" and rv["op"].get("k") in ("copy", "move"):
            pl = rv["op"]["place"]
        elif rv["k"] in ("Ref", "RawPtr", "CopyForDeref"):
            pl = rv["place"]
        else:
            return cur, steps
        proj = [p for p in (pl.get("p") or []) if p != "*"]
        if proj:
            steps.append(proj)
            return pl["l"], steps
        cur = pl["l"]
    return cur, steps
