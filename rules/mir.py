"""CFG utilities over the MIR emitted by the driver (-Zmir-opt-level=0)."""


def succs(term):
    k = term["k"]
    out = []
    if k == "Goto":
        out = [term["target"]]
    elif k == "SwitchInt":
        out = [t[1] for t in term["targets"]] + [term["otherwise"]]
    elif k in ("Drop", "Assert"):
        out = [term["target"]]
        if term.get("unwind") is not None:
            out.append(term["unwind"])
    elif k == "Call":
        if term.get("target") is not None:
            out.append(term["target"])
        if term.get("unwind") is not None:
            out.append(term["unwind"])
    return out


def normal_succs(term):
    """Successors excluding unwind/cleanup edges."""
    k = term["k"]
    if k == "Goto":
        return [term["target"]]
    if k == "SwitchInt":
        return [t[1] for t in term["targets"]] + [term["otherwise"]]
    if k in ("Drop", "Assert"):
        return [term["target"]]
    if k == "Call":
        return [term["target"]] if term.get("target") is not None else []
    return []


class Cfg:
    def __init__(self, fn):
        self.fn = fn
        m = fn["mir"]
        self.m = m
        self.blocks = m["blocks"]
        self.n = len(self.blocks)
        self.locals = m["locals"]
        self.succ = [normal_succs(b["term"]) for b in self.blocks]
        self.pred = [[] for _ in range(self.n)]
        for i, ss in enumerate(self.succ):
            for s in ss:
                self.pred[s].append(i)
        self._dom = None
        self._pdom = None

    def reachable(self, start=0, avoid=()):
        seen = set()
        st = [start]
        avoid = set(avoid)
        while st:
            b = st.pop()
            if b in seen or b in avoid:
                continue
            seen.add(b)
            st.extend(self.succ[b])
        return seen

    def reach_from_succs(self, b, avoid=()):
        """Blocks reachable by at least one edge from b."""
        seen = set()
        st = list(self.succ[b])
        avoid = set(avoid)
        while st:
            x = st.pop()
            if x in seen or x in avoid:
                continue
            seen.add(x)
            st.extend(self.succ[x])
        return seen

    def dominators(self):
        if self._dom is not None:
            return self._dom
        n = self.n
        reach = self.reachable(0)
        dom = {b: set(reach) for b in reach}
        dom[0] = {0}
        changed = True
        order = sorted(reach)
        while changed:
            changed = False
            for b in order:
                if b == 0:
                    continue
                ps = [p for p in self.pred[b] if p in reach]
                if not ps:
                    continue
                new = set.intersection(*(dom[p] for p in ps)) | {b}
                if new != dom[b]:
                    dom[b] = new
                    changed = True
        self._dom = dom
        return dom

    def dominates(self, a, b):
        d = self.dominators()
        return b in d and a in d[b]

    def returns(self):
        return [i for i, b in enumerate(self.blocks) if b["term"]["k"] == "Return"]

    def calls(self, pred=None):
        """(block index, terminator) for Call terminators, optionally filtered by callee predicate."""
        out = []
        for i, b in enumerate(self.blocks):
            t = b["term"]
            if t["k"] == "Call":
                c = t.get("callee") or (t["func"].get("c") or {}).get("fn")
                if pred is None or pred(c or "", t):
                    out.append((i, t))
        return out

    def local_ty(self, l):
        return self.locals[l]["ty"]

    def local_name(self, l):
        return self.locals[l].get("name")

    def must_pass(self, src, dst_set, through_pred):
        """True if every path from block `src` to any block in dst_set passes a block satisfying through_pred."""
        # search for a path avoiding `through` blocks
        seen = set()
        st = [src]
        while st:
            b = st.pop()
            if b in seen:
                continue
            seen.add(b)
            if through_pred(b):
                continue
            if b in dst_set:
                return False
            st.extend(self.succ[b])
        return True

    def line_of_block(self, b):
        t = self.blocks[b]["term"]
        sp = t.get("span")
        if sp:
            return sp[4] if len(sp) > 4 else sp[0]
        for s in self.blocks[b]["stmts"]:
            if s.get("span"):
                return s["span"][0]
        return None


def callee(term):
    return term.get("callee") or ((term.get("func") or {}).get("c") or {}).get("fn") or ""


def span_line(x):
    sp = x.get("span")
    if not sp:
        return None
    return sp[4] if len(sp) > 4 else sp[0]


def place_fields(place):
    """Names of field projections in order."""
    return [p["f"] for p in (place.get("p") or []) if isinstance(p, dict) and "f" in p]


def base_ty(ty):
    t = ty
    while t.startswith("&"):
        t = t[1:]
        if t.startswith("mut "):
            t = t[4:]
    return t.strip()


def iter_stmts(fn):
    for bi, b in enumerate(fn["mir"]["blocks"]):
        for s in b["stmts"]:
            yield bi, s


def operands_of_rvalue(rv):
    k = rv["k"]
    if k in ("Use", "Repeat", "Cast", "UnaryOp", "WrapUnsafeBinder"):
        return [rv.get("op") or rv.get("a")]
    if k == "BinaryOp":
        return [rv["a"], rv["b"]]
    if k == "Aggregate":
        return rv["ops"]
    return []


def places_read_by_rvalue(rv):
    out = []
    for op in operands_of_rvalue(rv):
        if op and op.get("k") in ("copy", "move"):
            out.append(op["place"])
    if rv["k"] in ("Ref", "RawPtr", "Discriminant", "CopyForDeref"):
        out.append(rv["place"])
    return out
