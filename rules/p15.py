"""C15 - unchecked fast paths stay within bounds.

The whole property is a list of obligations.  Every unsafe operation of the crate is enumerated from the MIR of the
release configuration (every call whose callee type is `unsafe fn`, every raw-pointer dereference) and must be
discharged by one of the named arguments below; an operation no rule knows is itself a violation, so a new unchecked
access becomes an undischarged obligation the day it is written.

 INV  Position invariant: both components in [0,7] for every constructed Position (constructors enumerated; each is
      guarded, literal, or has its precondition pushed to its call sites);
 IDX  `get_unchecked[_mut](p.as_usize())` on a 64-element array: as_usize = row*8+col <= 63 under INV;
 PIE  `get_unchecked(self.as_index())` on a 12-element row: as_index has image 0..11 (case folding);
 U8   `get_unchecked(bitfield as usize)` on a 256-element table: type range of u8;
 ROW  `new_unsafe(7 - row | row, col)`: [0,7] under INV;
 PAWN `add_unsafe(pos, (d,0))` only under `pos.row() == first_row` with d in {1,2} (White from row 1) / {-1,-2} (Black from row 6);
 STK  `state.last().unwrap_unchecked()`: the stack is never empty (root entry pushed by the only constructor, pop drops one
      entry and is always preceded by its push - C03.S2, no pop on unbalanced paths);
 CAP  `state.push_unchecked`: length accounting - every one-way growth loop is guarded at 400 entries, pending pushes
      <= MAX_DEPTH + quiescence bound, and 399 + MAX_DEPTH + 48 < 512.
"""
import re
from . import core, hir, mir, pairing
from .common import discr_map, sym_fn

LEVEL = "other"
EXPLANATION = ("Obligation enumeration over all `unsafe fn` call sites and raw-pointer dereferences in the release-configuration MIR; "
               "discharge by provenance of the index operand (result of Position::as_usize / Piece::as_index / u8 cast), the Position "
               "constructor guards, case-folded summaries, the push/pop typestate and a length-accounting table.")
QUIESCENCE_BOUND = 48
STACK_GUARD = 400


def array_len(ty):
    m = re.search(r";\s*(\d+)\]$", ty.strip())
    return int(m.group(1)) if m else None


def run(ctx):
    F = ctx.facts_rel
    Fd = ctx.facts
    inv_ok = position_invariant(ctx, F)
    obligations(ctx, F, inv_ok)
    safe_panics(ctx, F)
    ctx.extra["obligations"] = len([i for i in ctx.instances if i["rule"] == "C15.OBL"])
    ctx.extra["discharged"] = len([i for i in ctx.instances if i["rule"] == "C15.OBL" and i["ok"]])
    ctx.assume("quiescence extension <= %d plies (each quiescence move captures or promotes: <= 30 captures + 16 promotions + a king "
               "capture) - a bound the FEN reader does not enforce for artificial positions" % QUIESCENCE_BOUND)
    ctx.assume("the developer CLI `rustybait perft <d> <fen> <moves..>` is outside the property's quantifier (UCI, self-play, FEN reader)")


# ---------------------------------------------------------------------------
# INV

def position_invariant(ctx, F):
    a = F.adt("chess::position::Position")
    vis = [f["vis"] for f in a["variants"][0]["fields"]]
    ok_vis = all(v == "in:chess::position" for v in vis)
    ctx.check("C15.INV", "fields-private-to-module-position", ok_vis, fn="chess::position::Position", file=a["file"],
              what="Position's components are visible outside chess::position: anybody can build an off-board Position and every "
                   "unchecked board access loses its justification", expected="private tuple fields", found=vis)
    all_ok = ok_vis
    # constructor sites: aggregates of Position in MIR, anywhere in the crate
    sites = []
    for path, fn in F.fns.items():
        if not fn.get("mir"):
            continue
        for b in fn["mir"]["blocks"]:
            for s in b["stmts"]:
                if s["k"] == "Assign" and s["rv"]["k"] == "Aggregate" and s["rv"].get("adt") == "chess::position::Position":
                    sites.append((path, mir.span_line(s)))
    outside = [s for s in sites if not s[0].startswith("chess::position::Position::") and not s[0].startswith("<chess::position::Position as")]
    ctx.check("C15.INV", "constructed-only-in-its-module", not outside, fn="chess::position::Position", file=a["file"],
              what="a Position is built outside its module", found=outside)
    all_ok &= not outside
    ctx.floor("C15.INV", "Position constructor sites", len(sites), 3)
    # consts
    for cpath in sorted(p_ for p_, c_ in F.consts.items() if c_["ty"] == "chess::position::Position"):
        c = cpath.split("::")[-1]
        b = F.const_bytes(cpath)
        r, cc = int.from_bytes(b[0:1], "little", signed=True), int.from_bytes(b[1:2], "little", signed=True)
        ok = 0 <= r <= 7 and 0 <= cc <= 7
        ctx.check("C15.INV", "const-on-board:%s" % c, ok, fn=cpath, file=a["file"],
                  what="a Position constant is off the board", found=(r, cc))
        all_ok &= ok
    # checked constructors, evaluated on a grid of arguments (helpers they forward to expanded): a Position is only ever built
    # with both components in 0..8; otherwise the result is None / a panic
    from .common import position_constructor_cases
    from . import inline
    for name in ("new", "add", "new_assert"):
        fn = F.fn("chess::position::Position::" + name)
        bad, n_ = [], 0
        try:
            for args, v in position_constructor_cases(F, name):
                n_ += 1
                built = [x for x in hir.subterms(v) if x[:1] == ("pos",)]
                off = [x for x in built if not (0 <= x[1] < 8 and 0 <= x[2] < 8)]
                undecided = not built and v not in (("variant", "std::prelude::v1::None"), ("panic",))
                if off or undecided:
                    bad.append((args, hir.fmt(v, 60)))
        except (hir.Unsupported, inline.Cannot) as e:
            bad.append(("not summarisable", str(e)))
        ok = not bad and n_ > 0
        ctx.check("C15.INV", "checked-constructor:%s" % name, ok, fn=fn["path"], file=fn["file"], line=fn["span"][0],
                  what="Position::%s builds a Position without having established both components in 0..8" % name,
                  expected="a Position only for components in 0..8, None / panic otherwise", found=bad[:4] or "%d argument cases" % n_)
        all_ok &= ok
    # unchecked constructors exist and are `unsafe fn` (precondition pushed to callers: PAWN / ROW obligations)
    # every other function of the module that builds a Position (unchecked constructors) must be an `unsafe fn`
    checked = {"chess::position::Position::new", "chess::position::Position::add", "chess::position::Position::new_assert"}
    for pth in sorted({s_[0] for s_ in sites} - checked):
        fn = F.fn(pth)
        name = pth.split("::")[-1]
        ctx.check("C15.INV", "unchecked-constructor-is-unsafe:%s" % name, fn.get("unsafe") is True, fn=fn["path"], file=fn["file"],
                  what="a function that builds a Position without checking its components is callable from safe code", found=fn.get("unsafe"))
        all_ok &= fn.get("unsafe") is True
    # accessors
    for name, want in (("row", ("field", ("var", "self"), "0")), ("col", ("field", ("var", "self"), "1"))):
        nf = sym_fn(F.fn("chess::position::Position::" + name), F)
        ctx.check("C15.INV", "accessor:%s" % name, nf == want, fn="chess::position::Position::" + name, file=a["file"],
                  what="row()/col() must return the stored components", found=hir.fmt(nf, 60))
        all_ok &= nf == want
    # as_usize range under INV
    nf = sym_fn(F.fn("chess::position::Position::as_usize"), F)
    vals = set()
    for r in range(8):
        for c in range(8):
            v = hir.fold(nf, {("field", ("var", "self"), "0"): ("lit", r), ("field", ("var", "self"), "1"): ("lit", c)})
            vals.add(v[1] if v[0] == "lit" else None)
    ok = None not in vals and min(vals) >= 0 and max(vals) <= 63
    ctx.check("C15.INV", "as_usize-in-0..64-on-the-board", ok, fn="chess::position::Position::as_usize", file=a["file"],
              what="as_usize leaves 0..64 for an on-board Position", found=(min(vals) if ok else vals, max(vals) if ok else None))
    return all_ok and ok


# ---------------------------------------------------------------------------

def forwards_params(fn, t):
    """every argument of the call is a function of the enclosing function's parameters only (no other state is read)"""
    m = fn["mir"]
    nargs = m["arg_count"]
    defs = mir.copy_sources(fn)
    seen = set()

    def ok(op, depth=0):
        if op.get("k") == "const":
            return True
        if op.get("k") not in ("copy", "move") or depth > 12:
            return False
        l = op["place"]["l"]
        if 1 <= l <= nargs:
            return True
        if l in seen:
            return True
        seen.add(l)
        ds = defs.get(l) or []
        if len(ds) != 1:
            return False
        rv = ds[0]
        if rv.get("k") == "CallResult":
            return False
        ops_ = mir.operands_of_rvalue(rv)
        pls = mir.places_read_by_rvalue(rv)
        return all(ok(o, depth + 1) for o in ops_) and all(ok({"k": "copy", "place": p_}, depth + 1) for p_ in pls)
    return all(ok(a) for a in t["args"])


def unsafe_sites(F):
    out = []
    for path, fn in F.fns.items():
        if not fn.get("mir"):
            continue
        cfg = None
        for bi, b in enumerate(fn["mir"]["blocks"]):
            t = b["term"]
            if t["k"] == "Call":
                fty = ((t["func"].get("c") or {}).get("ty") or "")
                if "unsafe fn" in fty or "unsafe extern" in fty:
                    if mir.callee(t) == "std::fmt::Arguments::<'a>::new":
                        continue    # emitted by format_args!/println! (compiler-checked template/argument agreement)
                    if (mir.callee(t) or "").startswith("std::thread::local_impl::"):
                        continue    # emitted by thread_local! (these internals cannot be named by the crate's own code)
                    out.append((path, bi, t))
        # raw pointer dereferences
        for bi, b in enumerate(fn["mir"]["blocks"]):
            for s in b["stmts"]:
                if s["k"] == "Assign":
                    for pl in [s["place"]] + mir.places_read_by_rvalue(s["rv"]):
                        if pl.get("p") and pl["p"][0] == "*" and fn["mir"]["locals"][pl["l"]]["ty"].startswith(("*const", "*mut")):
                            out.append((path, bi, {"k": "RawDeref", "span": s.get("span"), "args": [], "func": {}}))
    return out


def index_provenance(fn, t, argi=1):
    """Callee whose result is the index operand of a get_unchecked call (through casts / copies)."""
    defs = mir.copy_sources(fn)
    a = t["args"][argi]
    if a.get("k") == "const":
        return ("const", (a.get("c") or {}).get("int"))
    l = a["place"]["l"]
    hops = 0
    while hops < 10:
        hops += 1
        l, _ = mir.root_of(l, defs)
        ds = defs.get(l)
        if not ds or len(ds) != 1:
            return ("local", l)
        rv = ds[0]
        if rv["k"] == "CallResult":
            return ("call", rv["callee"], rv["args"])
        if rv["k"] == "Cast" and rv["op"].get("k") in ("copy", "move"):
            src_ty = rv.get("from")
            if src_ty in ("u8",):
                return ("cast-from", src_ty)
            l = rv["op"]["place"]["l"]
            continue
        return ("rvalue", rv["k"])
    return ("deep",)


def receiver_len(fn, t):
    """Length of the array behind the receiver of a slice method call (type of the place that was borrowed/unsized)."""
    defs = mir.copy_sources(fn)
    a = t["args"][0]
    if a.get("k") not in ("copy", "move"):
        return None
    l = a["place"]["l"]
    for _ in range(10):
        ty = fn["mir"]["locals"][l]["ty"]
        n = array_len(ty) if ty.lstrip("&mut ").startswith("[") or "[" in ty else None
        ds = defs.get(l)
        if not ds or len(ds) != 1:
            return n
        rv = ds[0]
        if rv["k"] == "Cast" and rv["op"].get("k") in ("copy", "move"):
            n2 = array_len(rv.get("from") or "")
            if n2:
                return n2
            l = rv["op"]["place"]["l"]
            continue
        if rv["k"] in ("Ref", "RawPtr"):
            n2 = array_len(rv["place"].get("ty") or "")
            if n2:
                return n2
            l = rv["place"]["l"]
            continue
        if rv["k"] == "Use" and rv["op"].get("k") in ("copy", "move"):
            n2 = array_len(rv["op"]["place"].get("ty") or "")
            if n2:
                return n2
            l = rv["op"]["place"]["l"]
            continue
        if rv["k"] == "Use" and rv["op"].get("k") == "const":
            return array_len((rv["op"].get("c") or {}).get("ty") or "")
        if rv["k"] == "CallResult":
            # e.g. Cell::get() -> &[i16; 64], get_unchecked -> &[u64; 12]
            return n
        return n
    return None


def obligations(ctx, F, inv_ok):
    D = discr_map(F)
    sites = unsafe_sites(F)
    ctx.floor("C15.OBL", "unsafe operations in the crate", len(sites), 1)   # removing unchecked code is fine; enumeration itself is guarded by the positive control
    n = 0
    per_fn = {}
    for path, bi, t in sites:
        fn = F.fn(path)
        n += 1
        per_fn[path] = per_fn.get(path, 0) + 1
        key = "%s#%d" % (path, per_fn[path])
        line = mir.span_line(t)
        if t["k"] == "RawDeref":
            ctx.check("C15.OBL", "raw-pointer-dereference:" + key, False, fn=path, file=fn["file"], line=line,
                      what="a raw pointer is dereferenced: no discharge rule exists for it (obligation undischarged)")
            continue
        c = mir.callee(t)
        short = c.split("::")[-1]
        rule, ok, found = "?", False, None
        if short in ("get_unchecked", "get_unchecked_mut"):
            ln = receiver_len(fn, t)
            prov = index_provenance(fn, t)
            found = {"len": ln, "index": str(prov)[:120]}
            if prov[0] == "call" and prov[1] == "chess::position::Position::as_usize":
                rule, ok = "IDX", ln is not None and ln >= 64 and inv_ok
            elif prov[0] == "call" and prov[1] == "chess::piece::Piece::as_index":
                nf = sym_fn(F.fn("chess::piece::Piece::as_index"), F)
                img = set()
                for o in ("White", "Black"):
                    for k in ("Queen", "Rook", "Bishop", "Knight", "Pawn", "King"):
                        v = hir.fold(nf, {("field", ("var", "self"), "owner"): ("variant", "chess::Player::" + o),
                                          ("field", ("var", "self"), "piece_type"): ("variant", "chess::piece::PieceType::" + k)}, D)
                        img.add(v[1] if v[0] == "lit" else None)
                rule, ok = "PIE", ln is not None and None not in img and max(img) < ln and min(img) >= 0
                found["image"] = sorted(x for x in img if x is not None)
            elif prov[0] == "cast-from" and prov[1] == "u8":
                rule, ok = "U8", ln is not None and ln >= 256
            if not ok:
                # fall back to the interval analysis (S4) on the index operand
                from . import ranges
                ra = ranges.Analysis(fn).run()
                iv = ra.args_at_call(bi)
                found["index interval"] = iv[1] if len(iv) > 1 else None
                if len(iv) > 1 and iv[1] is not None and ln is not None and 0 <= iv[1][0] and iv[1][1] < ln:
                    rule, ok = "RNG", True
                elif rule == "?":
                    rule = "no-rule"
        elif short in ("new_unsafe", "add_unsafe", "new_unchecked") and fn.get("unsafe") is True and forwards_params(fn, t):
            # an unchecked constructor called from another `unsafe fn` with arguments computed from that function's own parameters:
            # the precondition is the caller's, and every call of the enclosing unsafe fn is an obligation of this list itself
            rule, ok, found = "FWD", True, {"forwarded to the callers of": path}
        elif short == "new_unsafe":
            rule, ok, found = row_obligation(fn, t, F, D, inv_ok)
        elif short == "add_unsafe":
            rule, ok, found = pawn_obligation(fn, t, F, D, inv_ok, line)
        elif short == "unwrap_unchecked":
            rule, ok, found = stack_nonempty(ctx, fn, t, F)
        elif short == "push_unchecked" and "GameState" in (t.get("callee_generic") or ""):
            rule, ok, found = stack_capacity(ctx, fn, t, F)
        elif short == "push_unchecked":
            rule, ok = "no-rule", False
            found = {"receiver": (t.get("callee_generic") or "")[:120],
                     "why": "no bound on the number of pushes into this buffer is established for every position the FEN reader accepts"}
        else:
            rule = "no-rule"
        ctx.check("C15.OBL", "%s:%s" % (rule, key), ok, fn=path, file=fn["file"], line=line,
                  what="unchecked operation `%s` is not discharged: nothing establishes its precondition on every path "
                       "(out-of-range here is undefined behaviour, not a panic)" % short,
                  expected="discharge by one of INV/IDX/PIE/U8/ROW/PAWN/STK/CAP", found=found)


def row_obligation(fn, t, F, D, inv_ok):
    """Position::new_unsafe(row', col) in Piece::score: row' in {7 - pos.row(), pos.row()}, col = pos.col()."""
    env = hir.Env(fn["hir"], F)
    sym = hir.Sym(env, F)
    calls = [c for c, _ in hir.walk(fn["hir"]["body"]) if c.get("k") == "Call" and hir.callee_of(c) == "chess::position::Position::new_unsafe"]
    if len(calls) != 1:
        return "ROW", False, {"sites": len(calls)}
    a0, a1 = sym(calls[0]["args"][0]), sym(calls[0]["args"][1])
    ROW = ("call", "chess::position::Position::row", (("var", "pos"),))
    COL = ("call", "chess::position::Position::col", (("var", "pos"),))
    ok = a1 == COL
    vals = []
    if a0[0] == "match":
        for pk, g, body in a0[2]:
            vals.append(body)
    else:
        vals = [a0]
    ok = ok and all(v in (ROW, ("bin", "-", ("lit", 7), ROW)) for v in vals) and bool(vals)
    ptype = fn["inputs"][1] if len(fn["inputs"]) > 1 else ""
    ok = ok and ptype == "chess::position::Position" and inv_ok
    return "ROW", ok, {"row": hir.fmt(a0, 120), "col": hir.fmt(a1, 60)}


def pawn_obligation(fn, t, F, D, inv_ok, line):
    env = hir.Env(fn["hir"], F)
    sym = hir.Sym(env, F)
    body = fn["hir"]["body"]
    calls = [c for c, _ in hir.walk(body) if c.get("k") == "MethodCall" and hir.callee_of(c) == "chess::position::Position::add_unsafe"
             and hir.line(c) == line]
    if not calls:
        return "PAWN", False, {"site": "not found in HIR at line %s" % line}
    c = calls[0]
    oks = []
    found = {}
    for owner, first, sign in (("White", 1, 1), ("Black", 6, -1)):
        assume = {("field", ("var", "self"), "owner"): ("variant", "chess::Player::" + owner)}
        d = hir.fold(sym(c["args"][0]), assume, D)
        recv = sym(c["recv"])
        g = [(hir.fmt(hir.canon(hir.fold(x[1], assume, D)), 200), x[2]) for x in (hir.guards_of(c, body, sym) or []) if x[0] == "if"]
        guard = ("(Position::row(pos) == %d)" % first, True) in g
        delta_ok = d[0] == "tup" and hir.sym_int(d[2]) == 0 and hir.sym_int(d[1]) in (sign, 2 * sign)
        in_range = delta_ok and 0 <= first + hir.sym_int(d[1]) <= 7
        oks.append(guard and in_range and recv == ("var", "pos"))
        found[owner] = {"delta": hir.fmt(d, 30), "guarded by row == %d" % first: guard}
    ptype_ok = any(l.get("name") == "pos" and l["ty"] == "chess::position::Position" for l in fn["mir"]["locals"])
    if not all(oks):
        # a literal square plus a literal step (the squares of the back row beside the king's home square): decided by value for
        # either side to move
        from .common import chess_evalcalls
        ev = chess_evalcalls(None, {})
        lit_ok = []
        for c2 in calls:
            for owner in ("White", "Black"):
                a2 = {("field", ("var", "self"), "owner"): ("variant", "chess::Player::" + owner),
                      ("field", ("var", "game"), "current_player"): ("variant", "chess::Player::" + owner)}
                v = hir.fold(hir.fold(sym(c2), a2, D, None, ev), a2, D, None, ev)
                lit_ok.append(v[:1] == ("pos",) and 0 <= v[1] <= 7 and 0 <= v[2] <= 7)
        if lit_ok and all(lit_ok):
            return "PAWN", inv_ok, {"literal square + literal step": "on the board for either side"}
    return "PAWN", all(oks) and inv_ok and ptype_ok, found


def stack_nonempty(ctx, fn, t, F):
    """Game::state(): self.state.last().unwrap_unchecked()"""
    found = {}
    # (a) the only constructor of Game pushes the root entry on its success path
    lits = []
    for path, f2 in F.fns.items():
        if not f2.get("mir"):
            continue
        for b in f2["mir"]["blocks"]:
            for s in b["stmts"]:
                if s["k"] == "Assign" and s["rv"]["k"] == "Aggregate" and s["rv"].get("adt") == "chess::Game":
                    lits.append(path)
    only_new = sorted(set(lits) - {"<chess::Game as std::clone::Clone>::clone"}) == ["chess::Game::new"]
    found["Game built only in"] = sorted(set(lits))
    new = F.fn("chess::Game::new")
    env = hir.Env(new["hir"], F)
    sym = hir.Sym(env, F)
    pushes = [c for c, _ in hir.walk(new["hir"]["body"]) if c.get("k") == "MethodCall" and c["name"] in ("push", "push_unchecked", "try_push")
              and hir.fmt(sym(c["recv"]), 40).endswith(".state")]
    root_push = len(pushes) == 1 and not [x for x in (hir.guards_of(pushes[0], new["hir"]["body"], sym) or []) if x[0] == "if" and x[2] is True
                                          and "let(" not in hir.fmt(x[1], 30) and x[3:] != ("exit",)]
    found["root entry pushed in new"] = root_push
    # (b) pop drops exactly one entry (C03.M) and every pop is preceded by its push on every path (C03.S2)
    g = mir.callgraph(F)
    poppers = sorted(p for p, cs in g.items() if pairing.POP in cs)
    bad = []
    for p in poppers:
        res = pairing.analyse(F.fn(p), True)
        errs = [e for e in res["errors"] if e[0] in ("pop-without-push", "pop-mismatch")]
        if any(e[0] == "join-of-different-stacks" for e in res["errors"]):
            res2 = pairing.analyse(F.fn(p), False)
            errs += [e for e in res2["errors"] if e[0] in ("pop-without-push", "pop-mismatch", "join-of-different-stacks")]
        if errs:
            bad.append((p, errs[0][0]))
    found["functions that pop"] = poppers
    found["unpaired pops"] = bad
    # (c) nothing else shrinks the stack
    from .common import field_writes
    shr = sorted({w[0] for w in field_writes(F, "chess::Game", "state")})
    found["writers of Game.state"] = shr
    ok = only_new and root_push and not bad and set(shr) <= {"chess::Game::push", "chess::Game::pop", "chess::Game::new",
                                                              "<chess::Game as std::clone::Clone>::clone"}
    pop = F.fn("chess::Game::pop")
    psym = hir.Sym(hir.Env(pop["hir"], F), F)
    tr = [c for c, _ in hir.walk(pop["hir"]["body"]) if c.get("k") == "MethodCall" and c["name"] == "truncate"]
    one = len(tr) == 1 and hir.fmt(psym(tr[0]["args"][0]), 80) in ("<impl usize>::saturating_sub(Game::len(self), 1)", "(Game::len(self) - 1)")
    found["pop drops one entry"] = one
    return "STK", ok and one, found


def _const_named(F, name):
    hits = [p for p in F.consts if p.split("::")[-1] == name]
    try:
        return F.const_int(hits[0]) if len(hits) == 1 else None
    except Exception:
        return None


def stack_capacity(ctx, fn, t, F):
    found = {}
    cap = None
    a = F.adt("chess::Game")
    for f in a["variants"][0]["fields"]:
        if f["name"] == "state":
            m = re.search(r",\s*(\d+)>", f["ty"])
            cap = int(m.group(1)) if m else None
            m = re.search(r",\s*([A-Za-z_][\w:]*)>", f["ty"])
            if cap is None and m:            # a named capacity: the value the compiler computed for that constant
                cap = _const_named(F, m.group(1).split("::")[-1])
    found["capacity"] = cap
    maxd = F.const_int("search::MAX_DEPTH") if "search::MAX_DEPTH" in F.consts else _const_named(F, "MAX_DEPTH")
    found["MAX_DEPTH"] = maxd
    # one-way growth: every loop that calls push_history must leave the loop when len() >= guard
    g = mir.callgraph(F)
    growers = sorted(p for p, cs in g.items() if "chess::Game::push_history" in cs)
    guards = {}
    for p in growers:
        f2 = F.fn(p)
        env = hir.Env(f2["hir"], F)
        sym = hir.Sym(env, F)
        body = f2["hir"]["body"]
        for c, anc in hir.calls(body, "Game::push_history"):
            in_loop = [x for x in anc if x.get("k") == "Loop"]
            if not in_loop:
                guards[p] = None    # single play: bounded by the caller
                continue
            loop = in_loop[-1]
            best = None
            for n, anc2 in hir.walk(loop):
                if n.get("k") == "If" and hir.diverges(n["then"]):
                    cnd = hir.canon(hir.resolve_consts(sym(n["cond"]), F))
                    lim = None
                    if cnd[0] == "bin" and cnd[1] in ("<=", "<") and cnd[2][0] == "lit" and cnd[3][0] == "call" and cnd[3][1] == "chess::Game::len":
                        lim = cnd[2][1] + (1 if cnd[1] == "<" else 0)       # N <= len  /  N < len
                    if cnd[0] == "bin" and cnd[1] == "==" and cnd[3][0] == "lit" and cnd[2][0] == "call" and cnd[2][1] == "chess::Game::len":
                        lim = cnd[3][1]                                       # len == N (len grows by one per iteration)
                    if lim is not None and hir.order_key(n) > hir.order_key(c):
                        best = int(lim)
            guards[p] = best if best is not None else "UNGUARDED"
    found["growth loops (guard)"] = guards
    unguarded = [p for p, gv in guards.items() if gv == "UNGUARDED"]
    limit = max([gv for gv in guards.values() if isinstance(gv, int)] or [0])
    # the driver's depth bound
    ok = cap is not None and maxd is not None and not unguarded and limit > 0 and (limit - 1) + maxd + QUIESCENCE_BOUND < cap
    found["accounting"] = "%s - 1 + %s + %d < %s" % (limit, maxd, QUIESCENCE_BOUND, cap)
    # games are created with one entry; no other entry point grows a borrowed game one-way
    oneway = sorted(p for p, cs in g.items() if pairing.PUSH in cs and p not in ("chess::Game::push_history",))
    leaky = []
    for p in oneway:
        res = pairing.analyse(F.fn(p), True)
        if any(e[0] == "return-with-pending-push" for e in res["errors"]):
            leaky.append(p)
    found["functions leaving pushes on a borrowed game"] = leaky
    # one-way pushes on a game the function owns (the PV walk on its clone) grow that clone's stack too: such a push inside a loop
    # needs a loop with a bounded trip count (a `for` over a numeric range bounded by the iteration depth), never `loop`/`while`
    unbounded = []
    for p in sorted(mir.reachable_fns(g, "search::get_best_move_until_stop") | {"search::get_best_move_until_stop"}):
        if p not in F.fns or not p.startswith("search::") or not F.fn(p).get("hir"):
            continue
        f2 = F.fn(p)
        sym2 = hir.Sym(hir.Env(f2["hir"], F), F)
        for c, anc in hir.calls(f2["hir"]["body"], "Game::push"):
            if (hir.callee_of(c) or "").endswith("push_history"):
                continue
            loops = [x for x in anc if x.get("k") == "Loop"]
            if not loops:
                continue
            inner = loops[-1]
            pops = [y for y, _ in hir.walk(inner) if y.get("k") == "MethodCall" and hir.callee_of(y) == "chess::Game::pop"]
            if pops:
                continue        # played and taken back inside the loop: the typestate rule pairs them
            gl = hir.guards_of(c, f2["hir"]["body"], sym2) or []
            its = [hir.fmt(hir.resolve_consts(x[1][2][0], F), 80) for x in gl if x[0] == "arm" and x[1][0] == "call" and str(x[1][1]).endswith("IntoIterator::into_iter")]
            bounded = bool(its) and "ForLoop" in str(inner.get("src")) and its[-1].startswith("ops::Range") and "RangeFrom" not in its[-1]
            if not bounded:
                unbounded.append((p, hir.line(c), its[-1] if its else str(inner.get("src"))))
    found["one-way pushes in loops without a bounded trip count"] = unbounded
    return "CAP", ok and not leaky and not unbounded, found


def safe_panics(ctx, F):
    """Safe-but-panicking accesses the statement also covers: indexing with data-dependent indices in the hot path."""
    n = 0
    for path in ("chess::piece::Piece::score", "chess::Game::get_king_position", "chess::Game::set_king_position",
                 "chess::Game::update_phase"):
        fn = F.fn(path)
        for bi_, b in enumerate(fn["mir"]["blocks"]):
            t = b["term"]
            if t["k"] == "Assert" and t["msg"] == "BoundsCheck":
                n += 1
                ln, ix = t["ops"]
                lenv = (ln.get("c") or {}).get("int")
                ok = False
                found = {"len": lenv}
                if ix.get("k") == "const":
                    iv = (ix.get("c") or {}).get("int")
                    ok = lenv is not None and iv is not None and iv < lenv
                    found["index"] = iv
                else:
                    # index is `enum as usize`: bounded by the number of variants
                    defs = mir.copy_sources(fn)
                    l = ix["place"]["l"]
                    r, _ = mir.root_of(l, defs)
                    ds = defs.get(r) or []
                    src = None
                    if len(ds) == 1 and ds[0]["k"] == "Use" and ds[0]["op"].get("k") == "const":
                        iv = (ds[0]["op"].get("c") or {}).get("int")
                        found["index"] = iv
                        ok = lenv is not None and iv is not None and iv < lenv
                    if len(ds) == 1 and ds[0]["k"] == "Cast" and ds[0]["op"].get("k") == "const":
                        iv = (ds[0]["op"].get("c") or {}).get("int")
                        found["index"] = iv
                        ok = lenv is not None and iv is not None and 0 <= iv < lenv
                    elif len(ds) == 1 and ds[0]["k"] == "Cast":
                        src = ds[0].get("from")
                        op = ds[0]["op"]
                        if op.get("k") in ("copy", "move"):
                            r2, _ = mir.root_of(op["place"]["l"], defs)
                            d2 = defs.get(r2) or []
                            if len(d2) == 1 and d2[0]["k"] == "Discriminant":
                                src = d2[0]["place"].get("ty")
                        found["index"] = "cast from %s" % src
                    if src in F.adts and F.adts[src]["kind"] == "enum":
                        mx = max(v["discr"] for v in F.adts[src]["variants"])
                        ok = lenv is not None and mx < lenv
                        found["max discriminant"] = mx
                if not ok and bounds_by_intervals(fn, bi_):
                    ok = True
                    found["index"] = "within the length on every path (interval analysis)"
                ctx.check("C15.PANIC", "bounds-check:%s#%d" % (path, n), ok, fn=path, file=fn["file"], line=mir.span_line(t),
                          what="a checked index in the evaluation hot path can be out of range (panic)", found=found)
    ctx.floor("C15.PANIC", "bounds-checked hot-path indexings", n, 3)


_IV_CACHE = {}


def bounds_by_intervals(fn, block):
    """Is the bounds-check assert terminating `block` discharged by the forward interval analysis of the function?"""
    from . import ranges as _rng
    key = (id(fn), fn["path"])
    if key not in _IV_CACHE:
        try:
            a = _rng.Analysis(fn)
            a.run()
            _IV_CACHE[key] = {o[0]: o[2] for o in a.obligations if o[1] == "BoundsCheck"}
        except Exception:
            _IV_CACHE[key] = {}
    return _IV_CACHE[key].get(block) is True
