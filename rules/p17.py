"""C17 - FEN import is faithful and rejects malformed text without crashing.

Decides:
 W1 crash-freedom: every panic edge (release configuration) in the crate functions reachable from Game::new is enumerated
    and discharged (checked index = as_usize of a Position on a 64-array, new_assert on loop variables of 0..8, push
    onto the fresh state stack) or reported; debug-only overflow asserts are listed, not reported;
 W2 rank completeness: '/' requires a complete rank, the final (row 0, col 8) test exists;
 W3 progress: the empty-run arm accepts exactly the digits 1..8 and decodes them as their value;
 W4 lossless en-passant decoding: the file byte is constrained to a..h *before* it is decoded and merged into the shared bitfield;
 W5 whole-field consumption: side and en-passant fields are matched as whole strings / fixed-length byte slices, the castling
    field character by character with an error for anything else;
 W6 required fields and both kings;
 W7 error path: the position command turns an import error into `error:` without unwinding and forgets the previous game.
Faithfulness of well-formed input is C11's reader tables plus C04.K6/K7 (re-evaluated here).
Does not decide semantic sanity of the position (two kings of one colour, 40 queens): outside "well-formed".
"""
import re
from . import core, hir, mir
from . import p04, p11, p15
from .common import discr_map, sym_fn, fmt_writes

LEVEL = "other"
EXPLANATION = ("Panic-edge enumeration on the release-configuration MIR of every crate function reachable from Game::new with "
               "per-edge discharge rules; shape rules on the scanner's arms (patterns, guards, decoded values by case folding over "
               "the ten digits / the byte range), on the field matches and on the error path of uci::command_position.")
NEW = "chess::Game::new"


def run(ctx):
    Fr = ctx.facts_rel
    F = ctx.facts
    w1(ctx, Fr, F)
    before, nv = len(ctx.instances), len(ctx.violations)
    p04.rule_k6(ctx, F, parts=("rank", "final"))
    relabel(ctx, before, nv, "C17.W2")
    w3(ctx, F)
    w4_w5(ctx, F)
    w6(ctx, F)
    w7(ctx, F)
    w8(ctx, F)
    before, nv = len(ctx.instances), len(ctx.violations)
    p11.reader(ctx, F)
    p04.rule_k7(ctx, F)
    p11.t8_board_dependent_rejections(ctx, F)
    relabel(ctx, before, nv, "C17.FAITHFUL")
    ctx.assume("material is sane enough for the i16 running score not to overflow in debug builds (> 36 queens of one colour would)")


def w8(ctx, F):
    """W8 a number in the text (the move counters of fields 5 and 6) is never read into a type narrower than the values a FEN can
    carry: full-move numbers of long games exceed 255, so `parse::<u8>()` / `parse::<i8>()` refuses well-formed text."""
    fn = F.fn(NEW)
    wide = ("u16", "u32", "u64", "u128", "usize", "i32", "i64", "i128", "isize", "f32", "f64")
    for n, anc in hir.walk(fn["hir"]["body"]):
        if n.get("k") == "MethodCall" and n["name"] == "parse" and (hir.callee_of(n) or "").endswith("<impl str>::parse"):
            ty = str(n.get("ty") or "")
            m = re.match(r"std::result::Result<([A-Za-z0-9_]+),", ty)
            tgt = m.group(1) if m else None
            if tgt is None or not re.match(r"[iu](8|16|32|64|128|size)$|f(32|64)$", tgt):
                continue
            ctx.check("C17.W8", "numbers-of-the-text-read-into-a-wide-enough-type", tgt in wide, fn=NEW, file=fn["file"], line=hir.line(n),
                      what="a numeric field of the text is parsed into a type too narrow for the values a well-formed FEN can carry "
                           "(full-move numbers above 255 occur in long games): such text is refused", expected="u16 or wider", found=tgt)


def relabel(ctx, before, nv, rule):
    for i in ctx.instances[before:]:
        i["rule"] = "%s(%s)" % (rule, i["rule"])
    for v in ctx.violations[nv:]:
        v["rule"] = "%s(%s)" % (rule, v["rule"])
        v["key"] = rule + "|" + v["key"]


PANIC_PREFIX = ("core::panicking::", "std::rt::begin_panic", "core::slice::index::slice_", "core::str::slice_error_fail",
                "core::option::unwrap_failed", "core::option::expect_failed", "core::result::unwrap_failed")
PANIC_EXACT = {"std::option::Option::<T>::unwrap", "std::option::Option::<T>::expect", "std::result::Result::<T, E>::unwrap",
               "std::result::Result::<T, E>::expect", "std::result::Result::<T, E>::unwrap_err", "chess::position::Position::new_assert",
               "arrayvec::ArrayVec::<T, CAP>::push", "arrayvec::ArrayVec::<T, CAP>::insert", "arrayvec::ArrayVec::<T, CAP>::remove",
               "arrayvec::ArrayVec::<T, CAP>::swap_remove", "std::vec::Vec::<T, A>::remove", "std::vec::Vec::<T, A>::swap_remove",
               "std::cell::RefCell::<T>::borrow_mut", "std::cell::RefCell::<T>::borrow"}


def is_panicker(c):
    return c in PANIC_EXACT or c.startswith(PANIC_PREFIX)


def loop_var_ranges(fn, F):
    """{name: (lo, hi)} for `for name in a..b` loops with literal bounds."""
    env = hir.Env(fn["hir"], F)
    sym = hir.Sym(env, F)
    out = {}
    for n, anc in hir.walk(fn["hir"]["body"]):
        if n.get("k") == "Match" and n.get("src") == "ForLoopDesugar":
            s = sym(n["e"])
            if s[0] == "call" and str(s[1]).endswith("IntoIterator::into_iter"):
                it = s[2][0]
                if it[0] == "call" and str(it[1]).endswith("Iterator::rev"):
                    it = it[2][0]
                if it[0] == "struct" and str(it[1]).endswith("ops::Range"):
                    d = dict(it[2])
                    lo, hi = hir.sym_int(d.get("start")), hir.sym_int(d.get("end"))
                    if lo is not None and hi is not None:
                        for m, _ in hir.walk(n):
                            if m.get("k") == "Match" and m.get("src") == "ForLoopDesugar" and m is not n:
                                for a in m["arms"]:
                                    for nm in hir.pat_names(a["pat"]):
                                        out[nm] = (lo, hi - 1)
                                break
    if fn.get("kind") == "Closure":
        for nm, r in closure_element_ranges(fn, F).items():
            out.setdefault(nm, r)
    return out, sym


# iterator adapters that hand each element of the receiver (or a reference to it) to their closure as its first parameter
ELEMENT_ADAPTERS = ("map", "flat_map", "for_each", "filter_map", "filter", "any", "all", "find", "find_map", "position",
                    "take_while", "skip_while", "map_while", "inspect")


def closure_element_ranges(fn, F):
    """{name: (lo, hi)} for the first parameter of a closure handed to an element-wise iterator adapter over a literal integer
    range (`(0..8).map(|col| ..)`), for this closure and for the closures it is nested in (whose parameters it captures)."""
    out = {}
    # the closure expression is in the function it was written in, or - when that was a helper expanded by the pre-pass - in its callers
    sites = []
    for top in F.fns.values():
        if top.get("kind") == "Closure" or not top.get("hir"):
            continue
        hits = [(n, anc) for n, anc in hir.walk(top["hir"]["body"]) if n.get("k") == "Closure"
                and (fn["path"] == n.get("def") or fn["path"].startswith(str(n.get("def")) + "::"))]
        if hits:
            sites.append((top, hits))
    per_site = []
    for top, hits in sites:
        sym = hir.Sym(hir.Env(top["hir"], F), F)
        got = {}
        for n, anc in hits:
            par = anc[-1] if anc else None
            if not (par and par.get("k") == "MethodCall" and par.get("name") in ELEMENT_ADAPTERS and par["args"] and par["args"][0] is n):
                continue
            if not str(hir.callee_of(par) or "").startswith(("std::iter::Iterator::", "core::iter::Iterator::", "core::iter::traits::iterator::Iterator::")):
                continue
            it = sym(par["recv"])
            while it[0] == "call" and str(it[1]).endswith(("IntoIterator::into_iter", "Iterator::rev")):
                it = it[2][0]
            if not (it[0] == "struct" and str(it[1]).endswith("ops::Range")):
                continue
            d = dict(it[2])
            lo, hi = hir.sym_int(d.get("start")), hir.sym_int(d.get("end"))
            if lo is None or hi is None or not n.get("params"):
                continue
            p0 = n["params"][0]
            for nm in hir.pat_names(p0.get("pat", p0)):
                got[nm] = (lo, hi - 1)
        per_site.append(got)
    # a helper expanded into several callers: every copy must give a range; the hull is what holds for all of them
    for nm in (set.intersection(*[set(g) for g in per_site]) if per_site else ()):
        out[nm] = (min(g[nm][0] for g in per_site), max(g[nm][1] for g in per_site))
    return out


def _case_terms(fn, F, node, terms):
    """[[(lo, hi) or None per term] per side to move]: the normal forms folded with the equations of the guards `node` runs under
    (`*rank == expected_rank`) and the side to move fixed, then bounded with the ranges of range-pattern bindings"""
    from .common import pattern_ranges, term_interval, chess_evalcalls, discr_map
    symt = hir.Sym(hir.Env(fn["hir"], F), F, through=True)
    body = fn["hir"]["body"]
    eqs = {}
    for g in hir.guards_of(node, body, symt) or []:
        if g[0] == "if" and g[2] is True and isinstance(g[1], tuple) and g[1][:2] == ("bin", "=="):
            for a_, b_ in ((g[1][2], g[1][3]), (g[1][3], g[1][2])):
                x = a_
                while x[0] in ("un", "deref") and isinstance(x[-1], tuple):
                    x = x[-1]
                if x[0] == "var" and b_[0] != "var":
                    eqs[x] = b_
                    eqs[a_] = b_
    rng = pattern_ranges(fn["hir"])
    D = discr_map(F)
    ev = chess_evalcalls(None, {})
    ts = [hir.subst(symt(t), eqs) for t in terms]

    def player_valued(t):
        return t[0] == "match" and any(b[0] == "variant" and str(b[1]).startswith("chess::Player::") for _, _, b in t[2]) and \
            all((b[0] == "variant" and str(b[1]).startswith("chess::Player::")) or b[0] in ("ret", "call", "panic") for _, _, b in t[2])
    players = {x for t in ts for x in hir.subterms(t) if player_valued(x) or x[:2] == ("var", "current_player")}
    out = []
    for side in ("White", "Black"):
        a = {p_: ("variant", "chess::Player::" + side) for p_ in players}
        out.append([term_interval(hir.fold(hir.fold(t, a, D, None, ev), a, D, None, ev), rng) for t in ts])
    return out


def position_args_by_cases(fn, F, call):
    try:
        rows = _case_terms(fn, F, call, list(call["args"]))
    except Exception:
        return False
    return all(iv is not None and 0 <= iv[0] and iv[1] <= 7 for r in rows for iv in r)


def w1(ctx, Fr, F):
    g = mir.callgraph(Fr)
    reach = sorted(p for p in mir.reachable_fns(g, NEW) if p in Fr.fns)
    ctx.extra["functions_reachable_from_Game::new"] = reach
    inv_dummy = core.Ctx("C15", ctx.tier, lambda l: Fr)
    inv_ok = p15.position_invariant(inv_dummy, Fr)
    ctx.check("C17.W1", "position-invariant-holds", inv_ok and not inv_dummy.violations, fn="chess::position::Position",
              file="src/chess/position.rs", what="the Position invariant (C15.INV) that discharges the indexed accesses does not hold",
              found=[v["instance"] for v in inv_dummy.violations][:5])
    n = 0
    debug_only = 0
    for p in reach:
        fn = Fr.fn(p)
        if not fn.get("mir"):
            continue
        ranges, sym = loop_var_ranges(fn, Fr) if fn.get("hir") else ({}, None)
        k_in_fn = 0
        live = mir.Cfg(fn).reachable(0)
        for bi, b in enumerate(fn["mir"]["blocks"]):
            if bi not in live:
                continue      # e.g. the body of `if cfg!(debug_assertions) {..}` in this configuration
            t = b["term"]
            if t["k"] == "Assert" and t["msg"].startswith("Overflow"):
                debug_only += 1     # exists only in overflow-checking builds: listed, not an obligation (DESIGN §4 C17)
                continue
            if t["k"] == "Assert":
                n += 1
                k_in_fn += 1
                ok, found = False, {"kind": t["msg"]}
                if t["msg"] == "BoundsCheck":
                    ln, ix = t["ops"]
                    lenv = (ln.get("c") or {}).get("int")
                    found["len"] = lenv
                    prov = None
                    if ix.get("k") == "const":
                        iv = (ix.get("c") or {}).get("int")
                        ok = lenv is not None and iv is not None and iv < lenv
                        found["index"] = iv
                    else:
                        defs = mir.copy_sources(fn)
                        fake = {"args": [None, ix]}
                        prov = p15.index_provenance(fn, fake)
                        found["index"] = str(prov)[:100]
                        if prov[0] == "call" and prov[1] == "chess::position::Position::as_usize":
                            ok = lenv is not None and lenv >= 64 and inv_ok
                        elif prov[0] == "local":
                            ds = defs.get(prov[1]) or []
                            if len(ds) == 1 and ds[0]["k"] == "Use" and ds[0]["op"].get("k") == "const":
                                iv = (ds[0]["op"].get("c") or {}).get("int")
                                ok = iv is not None and lenv is not None and iv < lenv
                            if len(ds) == 1 and ds[0]["k"] == "Cast" and ds[0]["op"].get("k") == "const":
                                iv = (ds[0]["op"].get("c") or {}).get("int")
                                ok = iv is not None and lenv is not None and 0 <= iv < lenv
                        elif prov[0] == "rvalue" and prov[1] == "Use":
                            r0, _ = mir.root_of(ix["place"]["l"], defs)
                            ds = defs.get(r0) or []
                            if len(ds) == 1 and ds[0]["k"] == "Use" and ds[0]["op"].get("k") == "const":
                                iv = (ds[0]["op"].get("c") or {}).get("int")
                                ok = iv is not None and lenv is not None and 0 <= iv < lenv
                                found["index"] = iv
                        elif prov[0] == "rvalue" and prov[1] == "Cast":
                            r0, _ = mir.root_of(ix["place"]["l"], defs)
                            ds = defs.get(r0) or []
                            if len(ds) == 1 and ds[0]["k"] == "Cast" and ds[0]["op"].get("k") == "const":
                                iv = (ds[0]["op"].get("c") or {}).get("int")
                                ok = iv is not None and lenv is not None and 0 <= iv < lenv
                                found["index"] = iv
                        if not ok and prov and prov[0] in ("rvalue", "local", "cast-from"):
                            # `enum as usize` index (piece_type as usize on a 6-array)
                            l = ix["place"]["l"]
                            r, _ = mir.root_of(l, defs)
                            ds = defs.get(r) or []
                            if len(ds) == 1 and ds[0]["k"] == "Cast" and ds[0]["op"].get("k") in ("copy", "move"):
                                r2, _ = mir.root_of(ds[0]["op"]["place"]["l"], defs)
                                d2 = defs.get(r2) or []
                                if len(d2) == 1 and d2[0]["k"] == "Discriminant":
                                    ety = d2[0]["place"].get("ty")
                                    if ety in Fr.adts and Fr.adts[ety]["kind"] == "enum":
                                        mx = max(v["discr"] for v in Fr.adts[ety]["variants"])
                                        ok = lenv is not None and 0 <= mx < lenv
                                        found["index"] = "%s as usize (max %d)" % (ety, mx)
                if not ok and t["msg"] == "BoundsCheck" and p15.bounds_by_intervals(fn, bi):
                    ok = True
                    found["index"] = "within the length on every path (interval analysis)"
                ctx.check("C17.W1", "panic-edge:%s#%d:%s" % (p, k_in_fn, t["msg"]), ok, fn=p, file=fn["file"], line=mir.span_line(t),
                          what="a panic edge reachable from the FEN importer is not discharged: some input string can abort the process "
                               "instead of being refused with an error", found=found)
            elif t["k"] == "Call":
                c = mir.callee(t)
                if not is_panicker(c):
                    continue
                if c.startswith("core::panicking::") and p in ("chess::position::Position::new_assert",
                                                                "chess::position::Position::new_unsafe", "chess::position::Position::add_unsafe"):
                    continue   # the (debug) assertion of the constructor itself: discharged at each of its call sites (here / C15)
                n += 1
                k_in_fn += 1
                ok, found = False, {"callee": c}
                if c == "chess::position::Position::new_assert" and fn.get("hir"):
                    calls = [x for x, _ in hir.walk(fn["hir"]["body"]) if x.get("k") == "Call" and hir.callee_of(x) == c
                             and hir.line(x) == mir.span_line(t)]
                    oks = []
                    for x in calls:
                        vals = []
                        for a in x["args"]:
                            s = sym(a)
                            iv = hir.sym_int(s)
                            if iv is not None:
                                vals.append((iv, iv))
                            elif s[0] == "var" and s[1] in ranges:
                                vals.append(ranges[s[1]])
                            else:
                                vals.append(None)
                        oks.append(all(v is not None and 0 <= v[0] and v[1] <= 7 for v in vals))
                        found.setdefault("args", []).append(vals)
                    ok = bool(calls) and all(oks)
                    if not ok and calls:
                        ok = all(position_args_by_cases(fn, Fr, x) for x in calls)
                        if ok:
                            found["args"] = "within 0..7 for either side to move (case evaluation of the argument normal forms)"
                    if not ok:
                        # fall back to the interval analysis (S4): argument ranges at the call
                        from . import ranges as _rng
                        ra = _rng.Analysis(fn).run()
                        iv = ra.args_at_call(bi)
                        found["intervals"] = iv
                        ok = len(iv) == 2 and all(v is not None and 0 <= v[0] and v[1] <= 7 for v in iv)
                elif c == "arrayvec::ArrayVec::<T, CAP>::push" and p == NEW:
                    # the state stack of the Game being built: created by ArrayVec::new() in the struct literal, pushed once
                    news = [x for x in fn["mir"]["blocks"] if x["term"]["k"] == "Call" and mir.callee(x["term"]) == "arrayvec::ArrayVec::<T, CAP>::new"]
                    pushes = [x for x in fn["mir"]["blocks"] if x["term"]["k"] == "Call" and mir.callee(x["term"]) == c]
                    in_loop = False
                    cfg = mir.Cfg(fn)
                    in_loop = bi in cfg.reach_from_succs(bi)
                    ok = len(news) == 1 and len(pushes) == 1 and not in_loop
                    found.update({"fresh stacks": len(news), "pushes": len(pushes), "in loop": in_loop})
                ctx.check("C17.W1", "panic-edge:%s#%d:%s" % (p, k_in_fn, c.split("::")[-1]), ok, fn=p, file=fn["file"], line=mir.span_line(t),
                          what="a call that panics by contract is reachable from the FEN importer and nothing establishes its precondition for "
                               "every input string (e.g. `9/8/...` reaching Position::new_assert aborts the process)", found=found)
    ctx.floor("C17.W1", "panic edges reachable from Game::new", n, 8)
    # dev configuration: list overflow asserts as debug-only
    gd = mir.callgraph(F)
    for p in mir.reachable_fns(gd, NEW):
        fn = F.fns.get(p)
        if fn and fn.get("mir"):
            for b in fn["mir"]["blocks"]:
                if b["term"]["k"] == "Assert" and b["term"]["msg"].startswith("Overflow"):
                    debug_only += 1
    ctx.extra["debug_only_overflow_asserts_reachable_from_importer"] = debug_only
    w1_ranges(ctx, F)
    ctx.note("%d overflow asserts exist only in overflow-checking builds; the values they guard reach no index or constructor "
             "(every square is built with the checked Position::new)" % debug_only)


def scanner_of(fn, F):
    for n, anc in hir.walk(fn["hir"]["body"]):
        if n.get("k") == "Match" and n.get("src") == "Normal" and ("lit", "/") in [hir.pat_key(a["pat"]) for a in n["arms"]]:
            return n
    return None


def w3(ctx, F):
    fn = F.fn(NEW)
    env = hir.Env(fn["hir"], F)
    sym = hir.Sym(env, F)
    sc = scanner_of(fn, F)
    if sc is None:
        ctx.anchor_missing("C17.W3", "board scanner in Game::new")
        return
    scr = sym(sc["e"])
    accepted = {}
    for d in "0123456789":
        for idx, a in enumerate(sc["arms"]):
            pk = hir.pat_key(a["pat"])
            pm = hir._pat_matches(pk, ("lit", d)) if pk != "_" else True
            if a["pat"].get("k") == "PBind" and a["pat"].get("sub"):
                pm = hir._pat_matches(hir.pat_key(a["pat"]["sub"]), ("lit", d))
            if not pm:
                continue
            if a.get("guard"):
                names = hir.pat_names(a["pat"])
                assume = {("var", nm): ("lit", d) for nm in names}
                assume[scr] = ("lit", d)
                gv = hir.fold(sym(a["guard"]), assume)
                gv = _fold_char_preds(gv)
                if gv == ("lit", False):
                    continue
                if gv != ("lit", True):
                    accepted[d] = ("?", idx)
                    break
            accepted[d] = ("arm", idx)
            break
    # which arm index is the empty-run arm: the one that digits land in and that is not the error arm
    err_arms = {i for i, a in enumerate(sc["arms"]) if hir.diverges(a["body"]) and hir.strip(a["body"]).get("k") != "Block"
                or (hir.diverges(a["body"]) and len(hir.strip(a["body"]).get("stmts") or []) == 0)}
    digits_ok = {d for d, (k, i) in accepted.items() if k == "arm" and i not in err_arms}
    ctx.check("C17.W3", "empty-run-digits-are-exactly-1..8", digits_ok == set("12345678"), fn=NEW, file=fn["file"], line=hir.line(sc),
              what="the board scanner accepts an empty-square count outside 1..8 (`0` makes no progress, `9` overruns the rank)",
              expected="12345678", found="".join(sorted(digits_ok)))
    # decoded value
    run_arms = {i for d, (k, i) in accepted.items() if k == "arm" and i not in err_arms}
    for i in run_arms:
        a = sc["arms"][i]
        names = hir.pat_names(a["pat"])
        cnt = None
        for n, anc in hir.walk(a["body"]):
            t = None
            if n.get("k") == "SLet" and n["pat"].get("k") == "PBind" and n.get("init") is not None:
                t = sym(n["init"])
            elif n.get("k") == "AssignOp" and n["op"] == "+=":
                t = sym(n["r"])
            if t is not None and (any(hir.contains(t, ("var", nm)) for nm in names) or hir.contains(t, scr)):
                cnt = ("count", t)
                break
        bad = []
        if cnt:
            for d in sorted(digits_ok):
                assume = {("var", nm): ("lit", d) for nm in names}
                assume[scr] = ("lit", d)
                v = hir.fold(cnt[1], assume)
                if v != ("lit", int(d)):
                    bad.append((d, hir.fmt(v, 40)))
        # a loop over the run makes exactly that many steps: `for _ in lo..hi` with hi - lo = the digit's value
        for ln, _ in hir.walk(a["body"]):
            if ln.get("k") == "Match" and ln.get("src") == "ForLoopDesugar":
                it = sym(ln["e"])
                if it[:1] == ("call",) and str(it[1]).endswith("IntoIterator::into_iter") and it[2]:
                    it = it[2][0]
                if it[:1] == ("call",) and str(it[1]).endswith("RangeInclusive::<Idx>::new") and len(it[2]) == 2:
                    it = ("struct", "std::ops::RangeInclusive", (("start", it[2][0]), ("end", it[2][1])))
                if it[:1] == ("struct",) and str(it[1]).endswith(("ops::Range", "ops::RangeInclusive")):
                    d_ = dict(it[2])
                    for d in sorted(digits_ok):
                        assume = {("var", nm): ("lit", d) for nm in names}
                        assume[scr] = ("lit", d)
                        lo_, hi_ = hir.sym_int(hir.fold(d_.get("start"), assume)), hir.sym_int(hir.fold(d_.get("end"), assume))
                        if lo_ is None or hi_ is None:
                            continue
                        steps = hi_ - lo_ + (1 if str(it[1]).endswith("RangeInclusive") else 0)
                        if steps != int(d):
                            bad.append((d, "loop makes %d step(s)" % steps))
        ctx.check("C17.W3", "empty-run-count-is-the-digit's-value", cnt is not None and not bad, fn=NEW, file=fn["file"], line=hir.line(a["body"]),
                  what="the number of empty squares is not decoded as the digit's value", found=bad or (hir.fmt(cnt[1], 80) if cnt else None))
    # unknown characters are refused
    other = hir.fold(("lit", True), {})
    last = sc["arms"][-1]
    ctx.check("C17.W3", "unknown-characters-refused", hir.pat_key(last["pat"]) == "_" and any(x.get("k") == "Ret" for x, _ in hir.walk(last["body"])), fn=NEW, file=fn["file"],
              what="characters that are neither '/', a piece letter nor a digit 1..8 must be refused", found=hir.pat_key(last["pat"]))


def _fold_char_preds(t):
    if isinstance(t, tuple) and t and t[0] == "call" and t[2] and t[2][0][0] == "lit" and isinstance(t[2][0][1], str):
        c = t[2][0][1]
        nm = str(t[1]).split("::")[-1]
        if nm == "is_ascii_digit":
            return ("lit", c.isdigit() and c.isascii())
        if nm == "is_ascii_alphabetic":
            return ("lit", c.isalpha() and c.isascii())
    return t


EP_TEXTS = ("a3", "d3", "h3", "a6", "e6", "h6", "q3", "A3", "i6", "`3", "e9", "e0", "e4", "e5", "e", "", "e3xyz", "e66", "3e", "ee", "66", "e 6")


def en_passant_by_value(F, fn, body, sym, call):
    """The recorded column under literal en-passant texts and both sides to move: a text `<a-h><6 if White is to move, 3 if Black>`
    must give the file's index, every other text must leave the importer through an error return before the value is used.
    Returns the list of failing cases ([] = the clause holds), or a one-element list with the reason when the code cannot be read."""
    from .common import chess_evalcalls
    D = discr_map(F)
    arg = sym(call["args"][0])
    guards = hir.guards_of(call, body, sym) or []
    gterm = hir.guards_term(guards)
    # the text: a free variable of type &str the column depends on
    strs = set()
    for n, _ in hir.walk(body):
        to = n.get("to") or {}
        if n.get("k") == "Path" and to.get("res") == "local" and str(n.get("ty")) in ("&str", "&'_ str"):
            strs.add(to.get("name"))

    def player_valued(t):
        return t[0] == "match" and any(b[0] == "variant" and str(b[1]).startswith("chess::Player::") for _, _, b in t[2]) and \
            all((b[0] == "variant" and str(b[1]).startswith("chess::Player::")) or b[0] in ("ret", "call", "panic") for _, _, b in t[2])
    players = {t for x in (arg, gterm) for t in hir.subterms(x) if isinstance(t, tuple) and t and (player_valued(t) or t[:2] == ("var", "current_player"))}
    arg0 = hir.subst(arg, {p_: ("variant", "chess::Player::White") for p_ in players})
    free = sorted({t[1] for t in hir.subterms(arg0) if isinstance(t, tuple) and t[:1] == ("var",) and t[1] in strs})
    if len(free) != 1:
        return ["the column does not depend on exactly one text variable: %s" % free]
    text = ("var", free[0])
    ev = chess_evalcalls(None, {})
    bad = []
    for side, rank in (("White", "6"), ("Black", "3")):
        for txt in EP_TEXTS:
            a = {p_: ("variant", "chess::Player::" + side) for p_ in players}
            a[text] = ("lit", txt)
            v = hir.fold(arg, a, D, hir.table_helpers(F), ev)
            v = hir.fold(v, a, D, hir.table_helpers(F), ev)
            g = hir.fold(hir.fold(gterm, a, D, hir.table_helpers(F), ev), a, D, hir.table_helpers(F), ev)
            valid = len(txt) == 2 and txt[0] in "abcdefgh" and txt[1] == rank
            g_false = g == ("lit", False) or hir.all_leaves_false(g)
            if valid:
                if v != ("lit", ord(txt[0]) - 97) or g_false:
                    bad.append((side, txt, "column %s" % hir.fmt(v, 60)))
            else:
                rejected = (isinstance(v, tuple) and v[:1] == ("ret",) and "Err" in hir.fmt(v, 200)) or g_false or \
                    (isinstance(g, tuple) and g[:1] == ("ret",) and "Err" in hir.fmt(g, 200))
                if not rejected:
                    bad.append((side, txt, "accepted as %s" % hir.fmt(v, 60)))
    return bad


def w4_w5(ctx, F):
    fn = F.fn(NEW)
    body = fn["hir"]["body"]
    env = hir.Env(fn["hir"], F)
    sym = hir.Sym(env, F)
    # en passant
    sites = 0
    for call, anc in hir.calls(body, "GameState::set_en_passant"):
        arg = sym(call["args"][0])
        if hir.sym_int(arg) == 8:
            continue
        sites += 1
        # the argument must come from a byte bound by a range pattern a..=h of a fixed-length slice pattern on the whole field
        from .common import dependence_nodes
        nodes = dependence_nodes(call["args"][0], fn["hir"])
        ranges = []
        slices = []
        lossy = []
        for n, _ in hir.walk(body):
            if n.get("k") == "Match":
                for a in n["arms"]:
                    for pn in _walk_pats(a["pat"]):
                        if pn.get("k") == "PSlice":
                            slices.append((len(pn.get("before") or []) + len(pn.get("after") or []), pn.get("mid") is not None, hir.fmt(sym(n["e"]), 80)))
                        if pn.get("k") == "PBind" and pn.get("sub") and pn["sub"].get("k") == "PRange":
                            r = hir.pat_key(pn["sub"])
                            ranges.append((pn["name"], r[1], r[2], r[3]))
        names_in_arg = {n["to"]["name"] for n in nodes if n.get("k") == "Path" and n["to"].get("res") == "local"}
        bounded = [r for r in ranges if r[0] in names_in_arg and r[1] == 97 and r[2] == 104 and "Included" in str(r[3])]
        whole = [s for s in slices if s[0] == 2 and not s[1] and "as_bytes" in s[2]]
        for n in nodes:
            if n.get("k") == "MethodCall" and n["name"] in ("nth", "next") and "chars" in hir.fmt(sym(n["recv"]), 80):
                lossy.append("first character only (%s)" % n["name"])
        ok = bool(bounded) and bool(whole) and not lossy
        # decided by value, on a table of en-passant texts for both sides to move; the structural reading only when the code cannot be
        # evaluated on literal text
        by_value = en_passant_by_value(F, fn, body, sym, call)
        if by_value == [] or (by_value and not isinstance(by_value[0], str)):
            ok = by_value == []
        ctx.check("C17.W4", "en-passant-file-constrained-before-decoding", ok, fn=NEW, file=fn["file"], line=hir.line(call),
                  what="the en-passant letter is decoded with byte arithmetic and merged into the bitfield that also holds the castling "
                       "rights before it is range-checked: `q3` / `A3` flip castling rights, `e9` or `e3xyz` are accepted",
                  expected="file byte bound by a pattern b'a'..=b'h' inside a 2-byte slice pattern on the whole field",
                  found={"range-bound bytes": bounded, "slice patterns": slices, "lossy": lossy, "by value": by_value})
    ctx.floor("C17.W4", "en-passant decoding sites", sites, 1)
    # rank character must be checked too (whole field)
    # side field: matched as a whole string
    side = None
    for n, anc in hir.walk(body):
        if n.get("k") == "Match" and n.get("src") == "Normal":
            pks = [hir.pat_key(a["pat"]) for a in n["arms"]]
            vals = [sym(a["body"]) for a in n["arms"]]
            vals = [v[2][0] if v[0] == "ctor" and str(v[1]).endswith(("::Some", "::Ok")) and len(v[2]) == 1 else v for v in vals]
            if any(v == ("variant", "chess::Player::White") for v in vals):
                side = (n, pks, sym(n["e"]))
    ok = side is not None and ("lit", "w") in side[1] and ("lit", "b") in side[1] and side[2][0] == "var" and \
        side[0]["arms"][0]["pat"].get("ty", "").endswith("str")
    ctx.check("C17.W5", "side-field-matched-as-a-whole", ok, fn=NEW, file=fn["file"], line=hir.line(side[0]) if side else None,
              what="only the first character of the side field is looked at: `white`, `wb`, `b-` are accepted",
              expected='match field { "w" => White, "b" => Black, _ => error }', found={"scrutinee": hir.fmt(side[2], 80) if side else None,
                                                                                        "patterns": [str(p) for p in side[1]] if side else None})
    # castling: every character handled, unknown refused
    cast = None
    for n, anc in hir.walk(body):
        if n.get("k") == "Match" and n.get("src") == "Normal":
            pks = [hir.pat_key(a["pat"]) for a in n["arms"]]
            if ("lit", "K") in pks and ("lit", "q") in pks:
                cast = (n, pks)
    ok = cast is not None and set(cast[1]) >= {("lit", "K"), ("lit", "Q"), ("lit", "k"), ("lit", "q"), ("lit", "-")} and cast[1][-1] == "_" \
        and any(x.get("k") == "Ret" for x, _ in hir.walk(cast[0]["arms"][-1]["body"]))
    # by value where the letter loop can be evaluated (one match, several matches, a validation pass before the setters): per
    # character, an error return is reached for a foreign character and for none of K Q k q -
    from . import p11
    bv = p11.castling_unknown_refused(F, fn)
    if bv is not None:
        ok = not bv
        if bv:
            cast = (cast[0] if cast else None, ["not refused / wrongly refused: %s" % bv])
    ctx.check("C17.W5", "castling-field-character-by-character", ok, fn=NEW, file=fn["file"], line=hir.line(cast[0]) if cast and cast[0] else None,
              what="every character of the castling field must be one of K Q k q - (each of which is let through) or the import must fail", found=[str(p) for p in cast[1]] if cast else None)


def _walk_pats(p):
    if not isinstance(p, dict):
        return
    yield p
    for key in ("pats", "before", "after"):
        for s in p.get(key) or ():
            yield from _walk_pats(s)
    for f in p.get("fields") or ():
        yield from _walk_pats(f["pat"])
    for key in ("pat", "sub", "mid"):
        if isinstance(p.get(key), dict):
            yield from _walk_pats(p[key])


def w6(ctx, F):
    fn = F.fn(NEW)
    body = fn["hir"]["body"]
    env = hir.Env(fn["hir"], F)
    sym = hir.Sym(env, F)
    lets = [n for n, _ in hir.walk(body) if n.get("k") == "SLet" and n.get("els") is not None]
    fields = [l for l in lets if "next(terms)" in hir.fmt(sym(l["init"]), 200).replace("<std::str::SplitAsciiWhitespace<'a> as std::iter::Iterator>::", "")
              or "Iterator>::next(terms)" in hir.fmt(sym(l["init"]), 200)]
    kings = [l for l in lets if hir.fmt(sym(l["init"]), 60) in ("white_king_pos", "black_king_pos")]
    ctx.check("C17.W6", "four-required-fields", len(fields) >= 4 and all(hir.diverges(l["els"]) for l in fields), fn=NEW, file=fn["file"],
              what="board, side, castling and en-passant fields must each be required", expected=4, found=len(fields))
    # ... and what is remembered as a king's square is the square of a king of that colour (by cases on the piece just read)
    bad = []
    n_k = 0
    for n, anc in hir.walk(body):
        if n.get("k") == "Assign" and hir.strip(n["l"]).get("k") == "Path" and str(hir.strip(n["l"])["to"].get("name", "")).split("'")[0] in ("white_king_pos", "black_king_pos") \
                and any(a_.get("k") == "Loop" for a_ in anc):
            n_k += 1
            who = "White" if "white" in hir.strip(n["l"])["to"]["name"] else "Black"
            v = sym(n["r"])
            if not (v[:1] == ("ctor",) and str(v[1]).endswith("::Some")):
                bad.append((who, "stores %s" % hir.fmt(v, 40)))
            term = hir.guards_term([g_ for g_ in (hir.guards_of(n, body, sym) or [])])
            pcs = {t_ for t_ in hir.subterms(term) if isinstance(t_, tuple) and t_[:1] == ("field",) and t_[2] in ("piece_type", "owner") and len(t_) == 3}
            bases = {t_[1] for t_ in pcs}
            if len(bases) != 1:
                continue
            b_ = next(iter(bases))
            for owner in ("White", "Black"):
                for kind in ("King", "Queen", "Rook", "Pawn"):
                    a = {("field", b_, "owner"): ("variant", "chess::Player::" + owner), ("field", b_, "piece_type"): ("variant", "chess::piece::PieceType::" + kind)}
                    r_ = hir.fold(term, a)
                    reached = not (r_ == ("lit", False) or hir.all_leaves_false(r_))
                    if reached != (kind == "King" and owner == who):
                        bad.append((who, "%s %s -> %s" % (owner, kind, "recorded" if reached else "not recorded")))
    if n_k:
        ctx.check("C17.W6", "king-squares-recorded-for-kings-only", not bad, fn=NEW, file=fn["file"],
                  what="the importer remembers a king's square for a piece that is not that side's king, or not for the king", found=bad[:4])
    # ... and the game is built with (white king's square, black king's square), each taken from its own remembered square
    kp_ok = None
    for n, _ in hir.walk(body):
        if n.get("k") == "Struct" and (n["to"].get("path") or "").endswith("chess::Game"):
            for f_ in n["fields"]:
                if f_["name"] == "king_positions":
                    symT = hir.Sym(env, F, through=True)
                    v = symT(f_["e"])
                    txt = hir.fmt(v, 200)
                    kp_ok = v[:1] == ("arr",) and len(v) == 3 and "white_king_pos" in hir.fmt(v[1], 120) and "black_king_pos" not in hir.fmt(v[1], 120) \
                        and "black_king_pos" in hir.fmt(v[2], 120) and "white_king_pos" not in hir.fmt(v[2], 120)
    if kp_ok is not None:
        ctx.check("C17.W6", "king-cache-built-from-each-side's-own-square", kp_ok, fn=NEW, file=fn["file"],
                  what="the king cache of the imported game is not [white king's square, black king's square]", found=kp_ok)
    # each required king is unwrapped from its own square (`let Some(white_king_pos) = black_king_pos` would pass a count of two)
    own = all((hir.pat_names(l["pat"]) or ["?"])[0].split("'")[0] == hir.fmt(sym(l["init"]), 60) for l in kings) and \
        {hir.fmt(sym(l["init"]), 60) for l in kings} == {"white_king_pos", "black_king_pos"} if len(kings) == 2 else True
    ctx.check("C17.W6", "each-king-unwrapped-from-its-own-square", own, fn=NEW, file=fn["file"],
              what="a required king's square is taken from the other side's remembered square", found=[(hir.pat_names(l["pat"]), hir.fmt(sym(l["init"]), 40)) for l in kings])
    ctx.check("C17.W6", "both-kings-required", len(kings) == 2, fn=NEW, file=fn["file"],
              what="a position without one of the kings must be refused (the king cache would be undefined)", found=len(kings))
    # result type is a Result and no unwrap/expect/panic syntax in the importer itself
    ctx.check("C17.W6", "importer-returns-a-result", fn["output"].startswith("std::result::Result<chess::Game"), fn=NEW, file=fn["file"],
              what="Game::new must report malformed input through its Result", found=fn["output"])


def w7(ctx, F):
    fn = F.fn("uci::command_position")
    body = fn["hir"]["body"]
    env = hir.Env(fn["hir"], F)
    sym = hir.Sym(env, F)
    ok = False
    found = None
    for n, anc in hir.walk(body):
        if n.get("k") == "Match" and n.get("src") == "Normal" and "Game::new" in hir.fmt(sym(n["e"]), 80):
            for a in n["arms"]:
                pk = hir.pat_key(a["pat"])
                if isinstance(pk, tuple) and pk[0] == "variant" and pk[1].endswith("Err"):
                    clears = any(x.get("k") == "Assign" and hir.fmt(sym(x["l"]), 40) == "data.current_game" and
                                 hir.fmt(sym(x["r"]), 20) == "v1::None" for x, _ in hir.walk(a["body"]))
                    rets = any(x.get("k") == "Ret" for x, _ in hir.walk(a["body"]))
                    unwraps = [x["name"] for x, _ in hir.walk(a["body"]) if x.get("k") == "MethodCall" and x["name"] in ("unwrap", "expect")]
                    ok = clears and rets and not unwraps
                    found = {"forgets previous game": clears, "returns error": rets, "unwraps": unwraps}
    ctx.check("C17.W7", "import-error-becomes-a-command-error", ok, fn=fn["path"], file=fn["file"],
              what="a refused FEN must make the position command fail with an error and leave no stale game behind", found=found)
    unw = []
    for c, anc in hir.calls(body, "Game::new"):
        for a in reversed(anc):
            if a.get("k") == "MethodCall" and a["name"] in ("unwrap", "expect", "unwrap_or_default"):
                unw.append(a["name"])
    ctx.check("C17.W7", "import-result-not-unwrapped", not unw, fn=fn["path"], file=fn["file"],
              what="the result of Game::new is unwrapped in the position command (malformed FEN aborts the engine)", found=unw)
    # the text the importer sees is the text of the command: nothing but separators is added to the words that were sent (padding a
    # short record with invented fields makes the importer judge a different string than the user's)
    from .common import dependence_nodes
    added = []
    for c, anc in hir.calls(body, "Game::new"):
        if not c.get("args"):
            continue
        for n in dependence_nodes(c["args"][0], fn["hir"]):
            if n.get("k") == "Lit" and isinstance(n.get("v"), str) and n.get("lk") in ("str", "Str", None) and n["v"].strip() and n["v"] != "moves":
                added.append(n["v"])
    ctx.check("C17.W7", "importer-is-given-the-words-of-the-command", not added, fn=fn["path"], file=fn["file"],
              what="the position command adds text of its own to the FEN before importing it: whether a record is accepted no longer "
                   "depends on the record alone", expected="only separators between the command's words", found=sorted(set(added)))
    # uci_talk prints error and continues
    ut = F.fn("uci::uci_talk")
    ws, usym = fmt_writes(ut, F)
    okp = False
    for c, anc in hir.calls(ut["hir"]["body"], "uci::command_position"):
        tries = [a for a in anc if a.get("k") == "Match" and a.get("src") == "TryDesugar"]
        ifs = [a for a in anc if a.get("k") == "If"]
        prints = [w for w in ws if w[1] and w[1].startswith("error:") and ifs and any(x is w[0] for x, _ in hir.walk(ifs[-1]["then"]))]
        okp = not tries and bool(prints)
    ctx.check("C17.W7", "session-continues-after-a-refused-fen", okp, fn=ut["path"], file=ut["file"],
              what="the command loop must print `error: ...` and keep running after a refused position", found=okp)


# overflow asserts of the importer that no interval argument can discharge, with the assumption that covers them
ASSUMED = {
    ("Overflow:Add", "score"): "running i16 score accumulation: needs the sane-material assumption (debug builds only; release wraps harmlessly)",
}


def overflow_by_cases(fn, F, t, msg):
    """an arithmetic assert of the importer whose operands the MIR intervals cannot bound (they pass through calls): the HIR
    operation on the same line, bounded by case evaluation"""
    op = {"Overflow:Add": "+", "Overflow:Sub": "-", "Overflow:Mul": "*"}.get(msg)
    if op is None:
        return False
    line = mir.span_line(t)
    sp = t.get("span") or []
    cands = [n for n, _ in hir.walk(fn["hir"]["body"]) if n.get("k") == "Binary" and n.get("op") == op and hir.line(n) == line
             and (len(sp) < 4 or (n.get("osp") or n.get("sp") or [0, 0, 0, 0])[:4] == sp[:4] or True)]
    if not cands:
        return False
    lim = {"i8": (-128, 127), "u8": (0, 255), "i16": (-32768, 32767), "u16": (0, 65535), "i32": (-2 ** 31, 2 ** 31 - 1), "u32": (0, 2 ** 32 - 1),
           "usize": (0, 2 ** 64 - 1), "u64": (0, 2 ** 64 - 1)}
    for n in cands:
        ty = lim.get(n.get("ty"))
        if ty is None:
            return False
        try:
            rows = _case_terms(fn, F, n, [n])
        except Exception:
            return False
        if not all(iv is not None and ty[0] <= iv[0] and iv[1] <= ty[1] for r in rows for iv in r):
            return False
    return True


def w1_ranges(ctx, F):
    """Overflow-checking configuration: every arithmetic assert inside Game::new itself (the importer's own arithmetic on input-derived
    values) is discharged by the interval analysis (S4), except the enumerated assumption."""
    from . import ranges as _rng
    fn = F.fn(NEW)
    if not F.d.get("overflow_checks"):
        return   # this fact set has no overflow asserts (release configuration)
    a = _rng.Analysis(fn).run()
    n = 0
    seen = {}
    for b, msg, ok, detail, line in a.obligations:
        if not msg.startswith("Overflow"):
            continue
        n += 1
        t = a.cfg.blocks[b]["term"]
        nm = None
        for x in t["ops"]:
            if x.get("k") in ("copy", "move"):
                l = x["place"]["l"]
                nm = a.cfg.local_name(l)
                proj = x["place"].get("p") or []
                if proj and isinstance(proj[-1], dict) and proj[-1].get("f") and not str(proj[-1]["f"]).isdigit():
                    nm = proj[-1]["f"]       # `acc.score += ..`: the accumulator is a named field of a carrier struct
                if nm is None:
                    d = a.def1.get(l)
                    if d and d[0] == "rv" and d[1]["k"] == "Use" and d[1]["op"].get("k") in ("copy", "move"):
                        nm = a.cfg.local_name(d[1]["op"]["place"]["l"])
                if nm:
                    break
        key = "%s(%s)" % (msg, nm or "temp")
        seen[key] = seen.get(key, 0) + 1
        if not ok and fn.get("hir"):
            ok = overflow_by_cases(fn, F, t, msg)
            if ok:
                detail = "operands bounded for either side to move (case evaluation of the operand normal forms)"
        assumed = ASSUMED.get((msg, nm))
        if assumed and not ok:
            ctx.assume("C17.W1: %s" % assumed)
        ctx.check("C17.W1", "importer-arithmetic-in-range:%s#%d" % (key, seen[key]), ok or bool(assumed), fn=NEW, file=fn["file"], line=line,
                  what="arithmetic on an input-derived value in the FEN importer can overflow (panics in overflow-checking builds, wraps "
                       "into a wrong square/count otherwise): the interval analysis cannot bound it",
                  expected="operand ranges keep the result inside the type", found=detail)
    ctx.floor("C17.W1", "arithmetic asserts in Game::new (overflow-checking configuration)", n, 5)
