"""C04 - the position hash depends only on the position and is stable.

Decides (statically): the const-evaluated key tables equal the published key file at the
published offsets; the index maps are the published layout; the start position hash recomputed from
those equals the README value; `hash` is written only by the invariant-keeping primitives and only
position-determined keys are xor-ed into it; the importer folds every square exactly once; both
en-passant writers (play and import) record a file under the same condition.
Does not decide: equality of hashes over all move orders as executed (runtime quantity).
"""
import hashlib, os, re
from . import core, hir, mir
from .common import (zobrist_expected, start_hash_from_tables, sym_fn, discr_map, field_writes,
                     neighbour_pawn_guard, POSITION_FOLD_CASES)

LEVEL = "other"
EXPLANATION = ("Static rules over compiler facts: const-evaluated zobrist tables compared with an independent "
               "reading of zobrist_bytes.bin; value summaries (forward substitution + case folding) of the index "
               "maps; who-may-write and xor-operand provenance of Game.hash; importer/en-passant writer agreement.")

KEYFILE_SHA256 = "5f74235ca3689b3be632fe59118c8151ed81bf88aba749cfc91a3ddae3f388fc"
README_HASH = 0xD9C54592621D7040


def run(ctx):
    F = ctx.facts
    rule_k1(ctx, F)
    rule_k2(ctx, F)
    rule_k4(ctx, F)
    # the state byte that indexes the published state keys has K, Q, k, q on bits 4..7: what the importer sets for each letter
    # (through whatever accessor API) must be that bit - a generic `grant(player, wing)` that numbers the wings the other way
    # round keeps the engine self-consistent and moves every position with a single right to another key
    from . import p11
    p11.reader_castling_letters(ctx, F, "C04.K4")
    rule_k3(ctx, F)
    rule_k5(ctx, F)
    rule_k6(ctx, F)
    rule_k7(ctx, F)


# -- K1: keys = published file ------------------------------------------------

def rule_k1(ctx, F):
    exp = zobrist_expected()
    got = {
        "BLACK_TO_MOVE": [F.const_int("chess::zobrist::BLACK_TO_MOVE")],
        "EMPTY_PLACE": [F.const_int("chess::zobrist::EMPTY_PLACE")],
        "STATE": F.const_ints("chess::zobrist::STATE", 8),
        "PIECE": F.const_ints("chess::zobrist::PIECE", 8),
    }
    n = 0
    for name in ("BLACK_TO_MOVE", "EMPTY_PLACE", "STATE", "PIECE"):
        e, g = exp[name], got[name]
        bad = [i for i in range(max(len(e), len(g))) if i >= len(e) or i >= len(g) or e[i] != g[i]]
        n += len(g)
        ctx.check("C04.K1", "keys:%s" % name, not bad, file="src/chess/zobrist.rs",
                  what="const-evaluated zobrist::%s differs from zobrist_bytes.bin at the published offsets "
                       "(first differing index %s of %d)" % (name, bad[:1], len(e)),
                  expected="%d keys, little-endian u64 at byte offsets %s" % (len(e), exp["layout"][name]),
                  found="%d keys, %d differ" % (len(g), len(bad)))
    ctx.extra["keys_compared"] = n
    ctx.floor("C04.K1", "keys", n, 1026)


def rule_k2(ctx, F):
    p = os.path.join(core.REPO, "zobrist_bytes.bin")
    sha = hashlib.sha256(open(p, "rb").read()).hexdigest()
    ctx.check("C04.K2", "keyfile-sha256", sha == KEYFILE_SHA256, file="zobrist_bytes.bin",
              what="the published key file changed (every stored hash/table is invalidated)",
              expected=KEYFILE_SHA256, found=sha)
    readme = open(os.path.join(core.REPO, "README.md")).read()
    ctx.check("C04.K2", "readme-quotes-start-hash", "D9C54592621D7040" in readme, file="README.md",
              what="README no longer quotes the start-position hash D9C54592621D7040")


# -- K4: index maps -------------------------------------------------------------

def rule_k4(ctx, F):
    D = discr_map(F)
    # as_usize = row*8+col on [0,7]^2
    fn = F.fn("chess::position::Position::as_usize")
    nf = sym_fn(fn, F)
    bad = []
    for r in range(8):
        for c in range(8):
            v = hir.fold(nf, {("field", ("var", "self"), "0"): ("lit", r), ("field", ("var", "self"), "1"): ("lit", c)}, D)
            if v != ("lit", r * 8 + c):
                bad.append(((r, c), hir.fmt(v, 80)))
    ctx.check("C04.K4", "as_usize=row*8+col", not bad, fn=fn["path"], file=fn["file"], line=fn["span"][0],
              what="Position::as_usize is not row*8+col (square-major key layout changed)",
              expected="row*8+col for all 64 (row,col)", found=bad[:3] or hir.fmt(nf))
    # as_index = type + 6*[Black], PieceType discriminants Q,R,B,N,P,K = 0..5
    pt = F.enum_discr("chess::piece::PieceType")
    ctx.check("C04.K4", "PieceType-discriminants",
              pt == {"Queen": 0, "Rook": 1, "Bishop": 2, "Knight": 3, "Pawn": 4, "King": 5},
              file="src/chess/piece.rs", what="PieceType discriminant order changed (key column order is published)",
              expected="Queen..King = 0..5", found=pt)
    fn = F.fn("chess::piece::Piece::as_index")
    nf = sym_fn(fn, F)
    bad = []
    for oi, owner in enumerate(("White", "Black")):
        for tname, tv in pt.items():
            v = hir.fold(nf, {("field", ("var", "self"), "owner"): ("variant", "chess::Player::" + owner),
                              ("field", ("var", "self"), "piece_type"): ("variant", "chess::piece::PieceType::" + tname)}, D)
            if v != ("lit", tv + 6 * oi):
                bad.append((owner, tname, hir.fmt(v, 80)))
    ctx.check("C04.K4", "as_index=type+6*black", not bad, fn=fn["path"], file=fn["file"], line=fn["span"][0],
              what="Piece::as_index is not discriminant(type) + 6 for Black", expected="0..5 White, 6..11 Black",
              found=bad[:3])
    # GameState::hash = STATE[bitfield] unmasked
    fn = F.fn("chess::gamestate::GameState::hash")
    nf = sym_fn(fn, F)
    ok = _is_index(nf, "chess::zobrist::STATE", ("cast", ("field", ("var", "self"), "bitfield"), "usize"))
    if not ok:
        # decided by value: the index is the state byte itself for each of its 256 values (a mask that keeps every bit is fine,
        # one that drops a bit makes two states share a key)
        base, i = _index_parts(nf)
        if base == ("const", "chess::zobrist::STATE") and i is not None:
            i2 = hir.resolve_consts(i, F)
            ok = all(hir.fold(i2, {("field", ("var", "self"), "bitfield"): ("lit", b)}, D) == ("lit", b) for b in range(256))
    ctx.check("C04.K4", "GameState::hash=STATE[bitfield]", ok, fn=fn["path"], file=fn["file"], line=fn["span"][0],
              what="GameState::hash is not STATE[whole bitfield]", expected="STATE[self.bitfield as usize]",
              found=hir.fmt(nf))
    # Piece::hash = PIECE[pos.as_usize()][self.as_index()]
    fn = F.fn("chess::piece::Piece::hash")
    nf = sym_fn(fn, F)
    inner_ok = False
    if nf[0] in ("call", "index"):
        base, idx = _index_parts(nf)
        if base is not None and idx == ("call", "chess::piece::Piece::as_index", (("var", "self"),)):
            inner_ok = _is_index(base, "chess::zobrist::PIECE",
                                 ("call", "chess::position::Position::as_usize", (("var", "pos"),)))
    ctx.check("C04.K4", "Piece::hash=PIECE[sq][piece]", inner_ok, fn=fn["path"], file=fn["file"], line=fn["span"][0],
              what="Piece::hash is not PIECE[pos.as_usize()][self.as_index()]",
              expected="PIECE[pos.as_usize()][self.as_index()]", found=hir.fmt(nf))


def _index_parts(nf):
    """(base, index) of `base[index]` / `base.get_unchecked(index)` / `*base.get_unchecked(index)`."""
    if nf[0] == "index":
        return nf[1], nf[2]
    if nf[0] == "call" and isinstance(nf[1], str) and nf[1].endswith(("get_unchecked", "get_unchecked_mut")) and len(nf[2]) == 2:
        return nf[2][0], nf[2][1]
    return None, None


def _is_index(nf, const_path, idx):
    base, i = _index_parts(nf)
    return base == ("const", const_path) and i == idx


# -- K3: start hash ---------------------------------------------------------------

def rule_k3(ctx, F):
    h = start_hash_from_tables(F)
    ctx.check("C04.K3", "start-hash", h == README_HASH, file="src/chess/zobrist.rs",
              what="start position hash recomputed from the const tables and index maps is not the README value",
              expected="%016X" % README_HASH, found="%016X" % h)


# -- K5: who writes `hash`, and with what --------------------------------------------

ALLOWED_HASH_WRITERS = {
    "chess::Game::set_position": "xor old square key out, new square key in",
    "chess::Game::push": "side key once, state key out/in",
    "chess::Game::pop": "side key once, state key out/in",
    "chess::Game::new": "from-scratch fold + state key of the root entry",
}


def rule_k5(ctx, F):
    writes = field_writes(F, "chess::Game", "hash")
    n_sites = 0
    for fn_path, node, kind in writes:
        ok = fn_path in ALLOWED_HASH_WRITERS
        ctx.check("C04.K5", "writer:%s" % fn_path, ok, fn=fn_path, file=F.fn(fn_path)["file"], line=hir.line(node),
                  what="Game.hash is written outside the primitives that keep it a function of the position",
                  expected=sorted(ALLOWED_HASH_WRITERS), found=fn_path)
    # operands
    for fn_path in ALLOWED_HASH_WRITERS:
        fn = F.fn(fn_path)
        env = hir.Env(fn["hir"], F)
        sym = hir.Sym(env, F)
        for n, anc in hir.walk(fn["hir"]["body"]):
            if n.get("k") != "AssignOp" or n.get("op") != "^=":
                continue
            lhs = hir.strip(n["l"])
            is_field = lhs.get("k") == "Field" and lhs["name"] == "hash"
            is_local_acc = lhs.get("k") == "Path" and lhs["to"].get("res") == "local" and lhs["to"]["name"] == "hash"
            if not (is_field or is_local_acc):
                continue
            n_sites += 1
            rhs = sym(n["r"])
            cls = classify_hash_operand(rhs, fn_path)
            ctx.check("C04.K5", "xor-operand:%s" % (cls or hir.fmt(rhs, 120)), cls is not None, fn=fn_path,
                      file=fn["file"], line=hir.line(n),
                      what="a value that is not a key of the position is xor-ed into the hash",
                      expected="a past_hashes slot, zobrist::BLACK_TO_MOVE, or GameState::hash of the current state",
                      found=hir.fmt(rhs, 200))
    ctx.floor("C04.K5", "xor sites", n_sites, 8)
    # the state key folded by the importer is the key of the FINAL root state: no state write (set_en_passant, castling setters,
    # a direct store to the byte) may follow the point where GameState::hash is taken
    nw = F.fn("chess::Game::new")
    cfg = mir.Cfg(nw)
    hs = [b for b, t in cfg.calls(lambda c, t: c == "chess::gamestate::GameState::hash")]
    ws = [(b, t) for b, t in cfg.calls(lambda c, t: c.startswith("chess::gamestate::GameState::set_"))]
    late = []
    for hb in hs:
        after = cfg.reach_from_succs(hb) if hasattr(cfg, "reach_from_succs") else set()
        for wb, t in ws:
            if wb in after:
                late.append((mir.span_line(t), mir.callee(t).split("::")[-1]))
    ctx.check("C04.K5", "importer-state-key-taken-from-the-final-state", bool(hs) and not late, fn=nw["path"], file=nw["file"],
              line=late[0][0] if late else nw["span"][0],
              what="the importer changes the root state (castling rights / en-passant file) after it has folded the state key into the "
                   "hash: the hash then belongs to a different state than the one the game is in (loaded and played positions disagree, "
                   "positions that differ only in that state collide)",
              expected="every GameState setter call precedes GameState::hash in Game::new", found={"state keys taken": len(hs), "later state writes": late})


def classify_hash_operand(rhs, fn_path):
    if rhs == ("const", "chess::zobrist::BLACK_TO_MOVE"):
        return "side-key"
    # self.state().hash()
    if rhs[0] == "call" and rhs[1] == "chess::gamestate::GameState::hash":
        arg = rhs[2][0]
        if arg == ("call", "chess::Game::state", (("var", "self"),)):
            return "state-key(self.state())"
        if fn_path == "chess::Game::new" and arg[0] in ("var",):
            return "state-key(root state local)"
        if fn_path == "chess::Game::new" and arg[0] == "call" and arg[1].endswith("default"):
            return "state-key(root state local)"
        return None
    # past_hashes slots
    s = hir.fmt(rhs, 1000)
    if rhs[0] == "index" and _mentions(rhs[1], "past_hashes"):
        return "past_hashes-slot"
    if rhs[0] == "field" and rhs[2] == "2" and "past_hashes" in s:   # tuple-let component (place_hash)
        return "past_hashes-slot"
    if rhs[0] == "call" and isinstance(rhs[1], str) and rhs[1].endswith(("get_unchecked_mut", "get_unchecked")) \
            and _mentions(rhs[2][0], "past_hashes"):
        return "past_hashes-slot"
    if rhs[0] == "var" and rhs[1] == "place_hash":
        return "past_hashes-slot"
    return None


def _mentions(t, name):
    for x in hir.subterms(t):
        if len(x) == 3 and x[0] == "field" and x[2] == name:
            return True
        if len(x) == 2 and x[0] == "var" and x[1] == name:
            return True
    return False


# -- K6: importer folds every square exactly once ----------------------------------------

def rule_k6(ctx, F, parts=("rank", "slots", "final", "side", "init")):
    fn = F.fn("chess::Game::new")
    body = fn["hir"]["body"]
    env = hir.Env(fn["hir"], F)
    sym = hir.Sym(env, F)
    # the scanner: the `match` on the loop variable over `pieces.chars()`
    scanner = None
    for n, anc in hir.walk(body):
        if n.get("k") == "Match" and n.get("src") == "Normal":
            pats = [hir.pat_key(a["pat"]) for a in n["arms"]]
            if ("lit", "/") in pats:
                scanner = n
                break
    if scanner is None:
        ctx.anchor_missing("C04.K6", "board scanner (match with a '/' arm) in Game::new")
        return
    n_adv = 0
    for a in scanner["arms"]:
        pk = hir.pat_key(a["pat"])
        arm = a["body"]
        advances = []
        slot_writes = []
        for n, anc in hir.walk(arm):
            if n.get("k") == "AssignOp" and n.get("op") == "+=":
                l = hir.strip(n["l"])
                if l.get("k") == "Path" and l["to"].get("name") == "col":
                    advances.append((n, anc))
            if n.get("k") == "Assign":
                l = hir.strip(n["l"])
                if l.get("k") == "Index" and _mentions(sym(l["e"]), "past_hashes"):
                    slot_writes.append((n, anc))
        if pk == ("lit", "/"):
            # rank separator: must be refused unless the rank is complete
            cnf = [hir.canon(hir.resolve_consts(sym(x["cond"]), F)) for x, _ in hir.walk(arm) if x.get("k") == "If" and hir.diverges(x["then"])]
            conds = [hir.fmt(c, 200) for c in cnf]
            has = any(c in (("bin", "!=", ("var", "col"), ("lit", 8)), ("bin", "<", ("var", "col"), ("lit", 8)),
                            ("not", ("bin", "==", ("var", "col"), ("lit", 8)))) for c in cnf)
            if "rank" in parts:
              ctx.check("C04.K6", "rank-complete-before-separator", has, fn=fn["path"], file=fn["file"], line=hir.line(arm),
                      what="the '/' arm of the FEN board scanner does not require a complete rank (col == 8): "
                           "squares left out get no empty-square key and the import hashes differently",
                      expected="a test of col against 8 that bails out", found=conds)
            continue
        for n, anc in (advances if "slots" in parts else []):
            n_adv += 1
            amount = hir.sym_int(sym(n["r"]))
            # the nearest enclosing block must also write exactly `amount` past_hashes slots (per iteration)
            loops = [x for x in anc if x.get("k") == "Loop"]
            inner_scope = loops[-1] if loops and any(l2 is loops[-1] for l2 in anc) and _inside(loops[-1], arm) else arm
            writes_here = [w for w, wanc in slot_writes if _inside_node(inner_scope, w)]
            ok = amount == 1 and len(writes_here) == 1
            if amount is None:
                # `col += count` after a loop of `count` single-slot writes
                loops_in_arm = [x for x, _ in hir.walk(arm) if x.get("k") == "Loop" and x.get("src") == "ForLoop"]
                ok = len(loops_in_arm) == 1 and len([w for w, _ in slot_writes if _inside_node(loops_in_arm[0], w)]) == 1
            ctx.check("C04.K6", "advance-matches-slot-writes:%s" % (hir.fmt(pk) if isinstance(pk, tuple) else pk), ok,
                      fn=fn["path"], file=fn["file"], line=hir.line(n),
                      what="the scanner advances the column without assigning exactly one square key per square",
                      expected="one past_hashes[..] assignment per column advanced", found="advance by %s, %d slot write(s) in scope" % (amount, len(writes_here)))
    if "slots" in parts:
        # the square a character of the board field stands for is (row, col) of the scan - in that order
        sw = []
        for c_, _ in hir.walk(body):
            if c_.get("k") == "Call" and (hir.callee_of(c_) or "").startswith("chess::position::Position::new") and len(c_.get("args") or []) == 2:
                a0, a1 = sym(c_["args"][0]), sym(c_["args"][1])
                if {a0, a1} <= {("var", "row"), ("var", "col")} and (a0, a1) != (("var", "row"), ("var", "col")):     # (col, row), (col, col), (row, row)
                    sw.append(hir.line(c_))
        # a slot's key is folded into the hash after the slot was assigned (before it the slot still holds 0)
        early = []
        for x_, anc_ in hir.walk(body):
            if x_.get("k") == "AssignOp" and x_.get("op") == "^=":
                r_ = sym(x_["r"])
                if r_[:1] == ("index",) and "past_hashes" in hir.fmt(r_[1], 40):
                    blk_ = [a_ for a_ in anc_ if a_.get("k") == "Block"]
                    ws_ = [y_ for y_, _ in hir.walk(blk_[-1]) if y_.get("k") == "Assign" and hir.strip(y_["l"]).get("k") == "Index"
                           and sym(hir.strip(y_["l"])) == r_] if blk_ else []
                    if not ws_ or min(hir.order_key(y_) for y_ in ws_) > hir.order_key(x_):
                        early.append(hir.line(x_))
        # ... and every slot that is assigned is folded in (an assigned slot that never reaches the hash leaves that square out)
        for y_, anc_ in hir.walk(body):
            if y_.get("k") == "Assign" and hir.strip(y_["l"]).get("k") == "Index" and "past_hashes" in hir.fmt(sym(hir.strip(y_["l"])["e"]), 40):
                slot_ = sym(hir.strip(y_["l"]))
                blk_ = [a_ for a_ in anc_ if a_.get("k") == "Block"]
                xs_ = [x_ for x_, _ in hir.walk(blk_[-1]) if x_.get("k") == "AssignOp" and x_.get("op") == "^=" and sym(x_["r"]) == slot_] if blk_ else []
                whole_ = any(c_.get("k") == "MethodCall" and c_.get("name") in ("fold", "for_each", "reduce") and "past_hashes" in hir.fmt(sym(c_["recv"]), 120)
                             for c_, _ in hir.walk(body))       # (all 64 slots folded in one pass after the scan)
                if not xs_ and not whole_:
                    early.append(hir.line(y_))
        ctx.check("C04.K6", "slot-key-folded-in-after-the-slot-is-assigned", not early, fn=fn["path"], file=fn["file"], line=early[0] if early else None,
                  what="the importer xors a per-square slot into the hash before the slot was given the square's key", found=early)
        ctx.check("C04.K6", "scan-squares-are-(row,col)", not sw, fn=fn["path"], file=fn["file"], line=sw[0] if sw else None,
                  what="the importer builds a square of the scan as (col, row) / from one coordinate twice: pieces / empty-square keys land on another square",
                  expected="Position::new(row, col)", found=sw)
        ctx.floor("C04.K6", "column advances", n_adv, 2)
        empties_hashed(ctx, F)
    # final completeness test
    cnf = [hir.canon(hir.resolve_consts(sym(x["cond"]), F)) for x, _ in hir.walk(body) if x.get("k") == "If"]
    conds = [hir.fmt(c, 200) for c in cnf]
    # decided on the values: some test that leaves with an error lets (row 0, col 8) pass and refuses a scan that ended anywhere else
    has = False
    for x, _ in hir.walk(body):
        if x.get("k") == "If" and hir.diverges(x["then"]) and any(y.get("k") == "Ret" for y, _ in hir.walk(x["then"])):
            c = hir.resolve_consts(sym(x["cond"]), F)
            if not (hir.contains(c, ("var", "row")) and hir.contains(c, ("var", "col"))):
                continue
            ev = lambda r_, c_: hir.fold(c, {("var", "row"): ("lit", r_), ("var", "col"): ("lit", c_)})
            if ev(0, 8) == ("lit", False) and all(ev(r_, c_) == ("lit", True) for r_, c_ in ((0, 7), (1, 8), (3, 0), (0, 0), (7, 8), (1, 0))):
                has = True
    if "final" in parts:
      ctx.check("C04.K6", "final-board-size-test", has, fn=fn["path"], file=fn["file"],
              what="Game::new no longer checks that the scan ended on (row 0, col 8)",
              expected="row != 0 || col != 8 => error", found=[c for c in conds if "row" in c or "col" in c][:4])
    # the accumulator the keys are folded into starts empty: the local that becomes Game.hash is initialised with 0
    if "init" in parts:
        init = None
        for n, _ in hir.walk(body):
            if n.get("k") == "Struct" and (n["to"].get("path") or "").endswith("chess::Game"):
                for f_ in n["fields"]:
                    if f_["name"] == "hash":
                        e_ = hir.strip(f_["e"])
                        if e_.get("k") == "Path" and e_["to"].get("res") == "local":
                            for m_, _ in hir.walk(body):
                                if m_.get("k") == "SLet" and m_["pat"].get("k") == "PBind" and m_["pat"].get("id") == e_["to"]["id"] and m_.get("init") is not None:
                                    iv = hir.fold(hir.resolve_consts(sym(m_["init"]), F), {})
                                    init = hir.sym_int(iv)
                                    # `slots.iter().fold(0, |acc, k| acc ^ k)`: the accumulator of the fold is what starts at 0
                                    if init is None and iv[:1] == ("call",) and str(iv[1]).endswith("::fold") and len(iv[2]) == 3:
                                        init = hir.sym_int(iv[2][1])
                        else:
                            init = hir.sym_int(hir.fold(hir.resolve_consts(sym(f_["e"]), F), {}))
        # ... and keys are only ever folded in with xor (the combination the published layout is defined by): any other compound
        # assignment to the hash - in the importer's accumulator or in Game.hash anywhere - is not a key combination
        nonxor = []
        for path_ in sorted(F.fns):
            f_ = F.fns[path_]
            if not (f_.get("hir") and path_.startswith("chess::") and f_["kind"] != "Closure"):
                continue
            sym_ = hir.Sym(hir.Env(f_["hir"], F), F)
            for n, _ in hir.walk(f_["hir"]["body"]):
                if n.get("k") == "AssignOp":
                    l0 = hir.strip(n["l"])
                    tgt = hir.fmt(sym_(n["l"]), 60)
                    is_hash = tgt == "self.hash" or (path_ == fn["path"] and l0.get("k") == "Path" and l0["to"].get("res") == "local"
                                                       and init is not None and l0["to"].get("name") == "hash")
                    if is_hash and n.get("op") != "^=":
                        nonxor.append((path_, n.get("op"), hir.line(n)))
        ctx.check("C04.K6", "hash-only-changed-by-xor", not nonxor, fn=nonxor[0][0] if nonxor else fn["path"], file=fn["file"],
                  line=nonxor[0][2] if nonxor else None,
                  what="the hash is updated with an operator other than `^=`: the value is no longer the xor-combination of the position's keys "
                       "(and an update can no longer be undone by repeating it)", expected="^=", found=nonxor)
        ctx.check("C04.K6", "hash-accumulator-starts-at-zero", init == 0, fn=fn["path"], file=fn["file"],
                  what="the importer folds the keys of the position into an accumulator that does not start at 0: every hash is off by a "
                       "constant from the combination of the published keys", expected=0, found=init)
    # side key iff Black, state key once
    side = [(n, anc) for n, anc in hir.walk(body) if n.get("k") == "AssignOp" and n.get("op") == "^="
            and sym(n["r"]) == ("const", "chess::zobrist::BLACK_TO_MOVE")]
    ok = len(side) == 1
    g = hir.guards_of(side[0][0], body, sym) if ok else []
    gtxt = [hir.fmt(x[1], 100) for x in (g or []) if x[0] == "if"]
    ok = ok and any(x[0] == "if" and x[2] is True and x[1][0] == "bin" and x[1][1] == "==" and
                    ("variant", "chess::Player::Black") in (x[1][2], x[1][3]) for x in (g or []))
    if "side" in parts:
        ctx.check("C04.K6", "side-key-iff-black", ok, fn=fn["path"], file=fn["file"],
                  what="the importer does not xor the side key exactly when Black is to move", found=gtxt)


def empties_hashed(ctx, F):
    """Empty squares carry zobrist::EMPTY_PLACE, in the incremental writer and in the importer (published layout)."""
    sp = F.fn("chess::Game::set_position")
    from .common import set_position_summary
    ok = False
    found = None
    try:
        sm = set_position_summary(F)
        pos_name = sm["params"][0]
        kn, ks = sm["None"]["slot_h"], sm["Some"]["slot_h"]
        found = {"empty": hir.fmt(kn, 80) if kn else None, "piece P": hir.fmt(ks, 80) if ks else None}
        ok = kn == ("const", "chess::zobrist::EMPTY_PLACE") and ks == ("call", "chess::piece::Piece::hash", (("var", "P"), ("var", pos_name)))
    except hir.Unsupported as e:
        found = "not summarisable: %s" % e
    ctx.check("C04.K5", "empty-square-key:set_position", ok, fn=sp["path"], file=sp["file"],
              what="an emptied square must contribute zobrist::EMPTY_PLACE (the published combination of key-file entries) and an occupied "
                   "one the key of its piece on that square",
              expected="empty -> EMPTY_PLACE, P -> P.hash(position)", found=found)
    nw = F.fn("chess::Game::new")
    nsym = hir.Sym(hir.Env(nw["hir"], F), F)
    n_empty = 0
    for n, anc in hir.walk(nw["hir"]["body"]):
        if n.get("k") == "Assign" and hir.fold(nsym(n["r"]), {}) == ("const", "chess::zobrist::EMPTY_PLACE"):
            l = hir.strip(n["l"])
            if l.get("k") == "Index" and _mentions(nsym(l["e"]), "past_hashes"):
                n_empty += 1
    ctx.check("C04.K5", "empty-square-key:importer", n_empty == 1, fn=nw["path"], file=nw["file"],
              what="the importer must give every empty square the key zobrist::EMPTY_PLACE", found=n_empty)


def _inside(a, root):
    return any(x is a for x, _ in hir.walk(root))


def _inside_node(scope, node):
    return any(x is node for x, _ in hir.walk(scope))


# -- K7: en-passant writers agree ----------------------------------------------------------

def importer_inspects_the_pushed_pawns_row(ctx, F):
    """The importer must look for the capturing pawn where Game::push looks: beside the pawn that made the double step, i.e. on row
    4 (rank 5) when White is to move and on row 3 (rank 4) when Black is.  The rows of every square the recording condition
    constructs are evaluated for both sides (guards of the form `x == y` on the way are used as equations); besides the pawn's
    row only the row of the en-passant target square itself (5 / 2) may appear."""
    from .common import enclosing_conditions, dependence_nodes
    fn = F.fn("chess::Game::new")
    body = fn["hir"]["body"]
    symt = hir.Sym(hir.Env(fn["hir"], F), F, through=True)
    D = discr_map(F)
    rec = [c for c, _ in hir.calls(body, "GameState::set_en_passant") if hir.sym_int(symt(c["args"][0])) != 8]
    if len(rec) != 1:
        return
    call = rec[0]
    nodes = [n for c in enclosing_conditions(call, fn["hir"]) for n in dependence_nodes(c, fn["hir"])]
    rows = []
    own = {id(n) for n, _ in hir.walk(body)}
    # a helper that could not be expanded in place (it returns from inside a loop) is read with its own bindings; its parameters
    # are then free variables named like the arguments (`current_player`)
    helper_syms = []
    for hp, hh in hir.HELPER_HIR.items():
        ids = {id(n) for n, _ in hir.walk(hh["body"])}
        if any(id(n) in ids for n in nodes):
            helper_syms.append((ids, hir.Sym(hir.Env(hh, F), F, through=True)))
    for n in nodes:
        if n.get("k") in ("Call", "MethodCall") and str(hir.callee_of(n) or "").endswith(("Position::new", "Position::new_assert", "Position::new_unsafe")) \
                and len(hir.call_args(n)) == 2:
            sy = symt if id(n) in own else next((s_ for ids, s_ in helper_syms if id(n) in ids), symt)
            rows.append((n, sy(hir.call_args(n)[0])))
    # equations from the guards the recording runs under and from the match guards in the dependence closure (`*rank == expected_rank`)
    eqs = {}
    guard_eqs = []
    for n in nodes:
        if n.get("k") == "Match":
            for a_ in n.get("arms") or ():
                if a_.get("guard"):
                    guard_eqs += [x for x, _ in hir.walk(a_["guard"]) if x.get("k") == "Binary" and x.get("op") == "=="]
    for n in guard_eqs:
        if n.get("k") == "Binary" and n.get("op") == "==":
            l, r = symt(n["l"]), symt(n["r"])
            for a_, b_ in ((l, r), (r, l)):
                x = a_
                while x[0] in ("un", "deref") and len(x) >= 2 and isinstance(x[-1], tuple):
                    x = x[-1]
                if x[0] == "var" and b_[0] != "var":
                    eqs[x] = b_
                    eqs[a_] = b_
    players = {t for _, r in rows for t in hir.subterms(r) if t[:2] == ("var", "current_player") or (t[0] == "field" and t[-1] == "current_player")}
    for _, r in rows:
        for e_ in eqs.values():
            players |= {t for t in hir.subterms(e_) if t[:2] == ("var", "current_player")}
    def player_valued(t):
        return isinstance(t, tuple) and len(t) >= 3 and t[0] == "match" and isinstance(t[2], tuple) and any(b[0] == "variant" and str(b[1]).startswith("chess::Player::") for _, _, b in t[2]) and \
            all((b[0] == "variant" and str(b[1]).startswith("chess::Player::")) or b[0] in ("ret", "call", "panic") for _, _, b in t[2])
    for _, r in rows:
        players |= {t for t in hir.subterms(r) if player_valued(t)}
    for e_ in eqs.values():
        players |= {t for t in hir.subterms(e_) if player_valued(t)}
    found = {}
    for side, pawn_row, target_row in (("White", 4, 5), ("Black", 3, 2)):
        a = dict(eqs)
        for p_ in players | {("var", "current_player")}:
            a[p_] = ("variant", "chess::Player::" + side)
        got = set()
        for n, r in rows:
            from .common import chess_evalcalls
            ev = chess_evalcalls(None, {})
            v = hir.fold(hir.subst(r, eqs), a, D, None, ev)
            v = hir.fold(v, a, D, None, ev)
            if hir.sym_int(v) is not None:        # squares whose row is not decided by the side to move (the board scanner's) are not this rule's
                got.add(hir.sym_int(v))
        found[side] = sorted(got, key=str)
        ok = pawn_row in got and got <= {pawn_row, target_row}
        ctx.check("C04.K7", "importer-looks-beside-the-pushed-pawn:%s-to-move" % side, ok, fn=fn["path"], file=fn["file"], line=hir.line(call),
                  what="the importer looks for the pawn that could capture en passant on a row other than the one the pushed pawn stands on: "
                       "the file is then recorded (or dropped) differently from Game::push and a loaded position differs from the played one",
                  expected="squares on row %d (and at most the target square's row %d)" % (pawn_row, target_row), found=found[side])


def importer_records_iff_capturable(ctx, F):
    """The importer's recording condition decided by cases (S-eval): the part of the condition that reads the board is folded for
    side to move x file x content of the two squares beside the pushed pawn; it must hold exactly when a pawn of the side to move
    stands on one of those squares (row 4 for White to move, row 3 for Black) - the condition Game::push applies (C02.R6).
    Returns True when the table could be evaluated (the structural rule is then not needed)."""
    from .common import chess_evalcalls
    fn = F.fn("chess::Game::new")
    body = fn["hir"]["body"]
    symt = hir.Sym(hir.Env(fn["hir"], F), F, through=True)
    D = discr_map(F)
    rec = [c for c, _ in hir.calls(body, "GameState::set_en_passant") if hir.sym_int(symt(c["args"][0])) != 8]
    if len(rec) != 1:
        return False
    call = rec[0]
    guards = hir.guards_of(call, body, symt) or []

    def reads_board(t):
        return any(x[:1] == ("index",) and "board" in hir.fmt(x[1], 40) or (x[:2] == ("call", "chess::Game::get_position")) for x in hir.subterms(t))
    bg = [g for g in guards if isinstance(g[1], tuple) and reads_board(g[1])]
    if not bg:
        return False
    cond = hir.guards_term(bg)
    colterm = symt(call["args"][0])
    # equations from match guards on the way (`*rank == expected_rank`)
    eqs = {}
    for g in guards:
        if g[0] == "if" and g[2] is True and isinstance(g[1], tuple) and g[1][:2] == ("bin", "=="):
            for a_, b_ in ((g[1][2], g[1][3]), (g[1][3], g[1][2])):
                x = a_
                while x[0] in ("un", "deref") and isinstance(x[-1], tuple):
                    x = x[-1]
                if x[0] == "var" and b_[0] != "var":
                    eqs[x] = b_
                    eqs[a_] = b_
    def parsed(t):
        """a match on the bytes of the field with slice patterns: the text was accepted, so one of the non-failing arms was taken -
        keep those (their guards decide between them) and read the bound names as free variables"""
        if not isinstance(t, tuple) or isinstance(t, hir.PK):
            return t
        if t[:1] == ("match",) and any(pk == ("PSlice",) or (isinstance(pk, tuple) and pk[:1] == ("PSlice",)) for pk, _, _ in t[2]):
            arms = [(g, parsed(b)) for pk, g, b in t[2] if not (b[:1] in (("ret",), ("panic",)) or (b[:1] == ("call",) and "format_err" in str(b)))]
            if not arms:
                return t
            out = arms[-1][1]
            for g, b in reversed(arms[:-1]):
                out = ("if", parsed(g), b, out) if g is not None else b
            return out
        return tuple(parsed(x) if isinstance(x, tuple) else x for x in t)
    cond, colterm = parsed(hir.subst(cond, eqs)), parsed(hir.subst(colterm, eqs))
    bases = {x[1] for x in hir.subterms(cond) if x[:1] == ("index",) and "board" in hir.fmt(x[1], 40)}

    def player_valued(t):
        return t[0] == "match" and any(b[0] == "variant" and str(b[1]).startswith("chess::Player::") for _, _, b in t[2]) and \
            all((b[0] == "variant" and str(b[1]).startswith("chess::Player::")) or b[0] in ("ret", "call", "panic") for _, _, b in t[2])
    players = {t for t in hir.subterms(cond) if player_valued(t) or t[:2] == ("var", "current_player")}
    free = sorted({t for t in hir.subterms(colterm) if t[0] == "var"}, key=str)
    SOME, NONE = "std::prelude::v1::Some", ("variant", "std::prelude::v1::None")
    PCE, PT_, PL_ = "chess::piece::Piece", "chess::piece::PieceType::", "chess::Player::"

    def piece(kind, owner):
        return ("ctor", SOME, (("struct", PCE, (("owner", ("variant", PL_ + owner)), ("piece_type", ("variant", PT_ + kind)))),))
    bad, n = [], 0
    for side, prow in (("White", 4), ("Black", 3)):
        other = "Black" if side == "White" else "White"
        contents = {"empty": NONE, "own pawn": piece("Pawn", side), "enemy pawn": piece("Pawn", other), "own rook": piece("Rook", side)}
        for c in range(8):
            a0 = {p_: ("variant", PL_ + side) for p_ in players}
            # the value of the one free variable of the recorded column (the file byte) that makes the column c
            if len(free) == 1:
                sol = [v for v in range(256) if hir.fold(colterm, dict(a0, **{}) | {free[0]: ("lit", v)}, D) == ("lit", c)]
                if len(sol) != 1:
                    return False
                a0[free[0]] = ("lit", sol[0])
            elif free:
                return False
            for ln, lc in contents.items():
                for rn, rc in contents.items():
                    a = dict(a0)
                    board = {}
                    for idx in range(64):
                        board[(idx // 8, idx % 8)] = NONE
                    if c - 1 >= 0:
                        board[(prow, c - 1)] = lc
                    if c + 1 <= 7:
                        board[(prow, c + 1)] = rc
                    for (r_, c_), v_ in board.items():
                        for b_ in bases:
                            a[("index", b_, ("lit", r_ * 8 + c_))] = v_
                    v = hir.fold(cond, a, D, hir.table_helpers(F), chess_evalcalls(board))
                    v = hir.fold(v, a, D, hir.table_helpers(F), chess_evalcalls(board))
                    near = [x for x, cc in ((ln, c - 1), (rn, c + 1)) if 0 <= cc <= 7]
                    want = "own pawn" in near
                    n += 1
                    if v != ("lit", want):
                        if v[0] != "lit" and not bad:
                            return False      # not decidable on this shape: leave it to the structural rule
                        bad.append({"to move": side, "file": c, "left": ln, "right": rn, "recorded": hir.fmt(v, 80), "expected": want})
    ctx.check("C04.K7", "importer-records-iff-a-pawn-of-the-side-to-move-is-beside-the-pushed-pawn", not bad, fn=fn["path"], file=fn["file"],
              line=hir.line(call),
              what="the importer keeps the en-passant file of the text under a condition that differs from the one Game::push applies (a pawn "
                   "of the side to move beside the pawn that made the double step): the same position then differs, and hashes differently, "
                   "depending on whether it was played or loaded",
              expected="recorded <=> own pawn on (row 4 | 3 by side to move, file -/+ 1)", found=bad[:3] or "%d cases" % n)
    return True


def rule_k7(ctx, F):
    n_sites = 0
    semantic_importer = importer_records_iff_capturable(ctx, F)
    for fn_path in ("chess::Game::push", "chess::Game::new"):
        fn = F.fn(fn_path)
        body = fn["hir"]["body"]
        env = hir.Env(fn["hir"], F)
        sym = hir.Sym(env, F)
        for call, anc in hir.calls(body, "GameState::set_en_passant"):
            arg = sym(call["args"][0])
            if hir.sym_int(arg) == 8:
                continue  # sentinel "no en passant"
            n_sites += 1
            if fn_path.endswith("::new") and semantic_importer:
                continue      # decided by cases above
            if fn_path.endswith("::push"):
                # decided by cases: C02.R6 (recorded exactly for a double step beside an enemy pawn)
                from . import p02
                before, nv = len(ctx.instances), len(ctx.violations)
                p02.r6(ctx, F, fn)
                for i in ctx.instances[before:]:
                    i["rule"] = "C04.K7(" + i["rule"] + ")"
                for v in ctx.violations[nv:]:
                    v["rule"] = "C04.K7(" + v["rule"] + ")"
                    v["key"] = "C04.K7|" + v["key"]
                continue
            ok, why = neighbour_pawn_guard(call, fn, F)
            ctx.check("C04.K7", "en-passant-recorded-only-if-capturable", ok, fn=fn_path, file=fn["file"],
                      line=hir.line(call),
                      what="an en-passant file is recorded without testing for a neighbouring enemy pawn; the same "
                           "position then hashes differently depending on whether it was played or loaded",
                      expected="set_en_passant(file) control-dependent on a board read next to the pushed pawn "
                               "compared with PieceType::Pawn", found=why)
    ctx.floor("C04.K7", "non-sentinel set_en_passant sites", n_sites, 2)
    if not semantic_importer:
        importer_inspects_the_pushed_pawns_row(ctx, F)
    # the importer decides once: no later reset of the file it recorded, exactly one state key folded in
    nw = F.fn("chess::Game::new")
    nsym = hir.Sym(hir.Env(nw["hir"], F), F)
    resets = [c for c, _ in hir.calls(nw["hir"]["body"], "GameState::set_en_passant") if hir.sym_int(nsym(c["args"][0])) == 8]
    ctx.check("C04.K7", "importer-does-not-revise-the-recorded-file", not resets, fn=nw["path"], file=nw["file"],
              line=hir.line(resets[0]) if resets else None,
              what="the importer drops an en-passant file under a condition Game::push does not apply (e.g. 'no legal capture'): the same "
                   "position then hashes differently depending on whether it was played or loaded",
              expected="the only condition is the one shared with push (an enemy pawn beside the pushed pawn)", found=len(resets))
    keys = 0
    for n, anc in hir.walk(nw["hir"]["body"]):
        if n.get("k") == "AssignOp" and n["op"] == "^=":
            r = nsym(n["r"])
            if r[0] == "call" and r[1] == "chess::gamestate::GameState::hash":
                keys += 1
    ctx.check("C04.K7", "importer-folds-one-state-key", keys == 1, fn=nw["path"], file=nw["file"],
              what="the importer must fold exactly one state key into the hash", expected=1, found=keys)
