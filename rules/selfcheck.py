"""Thorough tier extras:
 (a) the property's rules are re-evaluated on the *other* build configuration (release: overflow-checks and debug
     assertions off / dev: on) - a rule that only holds because of a debug assertion is reported as a violation;
 (b) checker self-validation: every diff in mutants/<prop>/ is applied to a scratch copy of the CURRENT tree, facts are
     re-extracted and the check must report the expected rule.  A missed mutant is printed as CHECKER-WEAKNESS and recorded
     in the evidence; it does not change the property verdict (it measures the checker, not the engine).
"""
import os, sys, importlib
from concurrent.futures import ThreadPoolExecutor
from . import core

HERE = os.path.dirname(os.path.dirname(os.path.abspath(__file__)))


def alt_config(prop, ctx, mod):
    """Run the module again with dev/rel swapped; merge violations (keys prefixed with the configuration)."""
    primary = sorted(ctx._facts.keys())
    alt = core.Ctx(prop, ctx.tier, None)
    dev, rel = ctx.get_facts("dev"), ctx.get_facts("rel")
    alt._facts = {"dev": rel, "rel": dev}
    alt._loader = lambda label: alt._facts[label]
    try:
        mod.run(alt)
    except core.AnchorMissing as e:
        alt.anchor_missing("%s.ANCHOR" % prop, str(e))
    n_new = 0
    have = {v["key"] for v in ctx.violations}
    for v in alt.violations:
        if v["key"] in have:
            continue
        v = dict(v)
        v["what"] = "[other build configuration] " + v.get("what", "")
        v["key"] = "ALTCFG|" + v["key"]
        ctx.violations.append(v)
        ctx.instances.append({"rule": v["rule"], "instance": "altcfg:" + v["instance"], "ok": False, "nontrivial": True,
                              "function": v.get("function")})
        n_new += 1
    ctx.extra["alt_config_instances"] = len(alt.instances)
    ctx.extra["alt_config_new_violations"] = n_new
    return n_new


def mutants(prop, ctx, jobs=16):
    sys.path.insert(0, os.path.join(HERE, "tools"))
    import mutants as M
    mdir = os.path.join(HERE, "mutants", prop)
    if not os.path.isdir(mdir):
        ctx.extra["mutants"] = {"total": 0}
        return
    tasks = [(prop, os.path.join(mdir, f)) for f in sorted(os.listdir(mdir)) if f.endswith(".diff")]
    res = []
    with ThreadPoolExecutor(max_workers=jobs) as ex:
        for r in ex.map(lambda t: M.run_one(*t), tasks):
            res.append(r)
    det = [r for r in res if r[2] == "DETECTED"]
    weak = [r for r in res if r[2] not in ("DETECTED",)]
    for r in weak:
        print("CHECKER-WEAKNESS property=%s mutant=%s status=%s %s" % (prop, os.path.basename(r[1]), r[2], r[3][:120]))
    ctx.extra["mutants"] = {"total": len(res), "detected": len(det),
                            "not_detected": [(os.path.basename(r[1]), r[2]) for r in weak],
                            "samples": [(os.path.basename(r[1]), r[3][:60]) for r in det[:6]]}
    print("self-validation: %d/%d seeded single-edit regressions of %s detected" % (len(det), len(res), prop))


# Positive controls for rules whose expected number of findings is zero: one seeded regression per such rule is applied to a
# scratch copy on EVERY run (quick tier too) and must be reported, otherwise the rule may be passing vacuously.
CONTROLS = {
    "C03": ["score_adjusted_in_push", "query_swaps_table"],
    "C04": ["hash_written_in_update_phase"],
    "C06": ["interior_nodes_unchecked_for_speed"],
    "C09": ["late_move_pruning", "history_pruning"],
    "C13": ["revert_fix_time_arithmetic"],
    "C14": ["join_under_lock_in_ucinewgame", "isready_takes_lock"],
    "C15": ["new_unchecked_access_in_eval"],
    "C17": ["squares_asserted_again"],
    "C19": ["time_based_tiebreak", "table_iteration_tiebreak", "static_node_counter_in_ordering", "address_in_move_ordering"],
}


def controls(prop, ctx):
    names = CONTROLS.get(prop)
    if not names:
        return
    sys.path.insert(0, os.path.join(HERE, "tools"))
    import mutants as M
    tasks = [(prop, os.path.join(HERE, "mutants", prop, n + ".diff")) for n in names]
    out = []
    with ThreadPoolExecutor(max_workers=len(tasks)) as ex:
        for r in ex.map(lambda t: M.run_one(*t) if os.path.exists(t[1]) else (t[0], t[1], "STALE", "missing"), tasks):
            out.append(r)
    rec = []
    for r in out:
        name = os.path.basename(r[1])[:-5]
        rec.append((name, r[2]))
        if r[2] == "DETECTED":
            ctx.check("%s.CONTROL" % prop, "positive-control:%s" % name, True, what="seeded regression reported: " + r[3][:80], nontrivial=False)
        elif r[2] in ("STALE", "BROKEN"):
            print("CONTROL-%s property=%s control=%s (the tree changed where the control applies; control skipped)" % (r[2], prop, name))
        else:
            ctx.check("%s.CONTROL" % prop, "positive-control:%s" % name, False, nontrivial=False,
                      what="a zero-count rule did not report its positive control (a seeded regression applied to a scratch copy): "
                           "the rule would pass vacuously", found=r[3][:200])
    ctx.extra["positive_controls"] = rec
