"""Thorough tier extras:
 (a) the property's rules are re-evaluated on the *other* build configuration (release: overflow-checks and debug
     assertions off / dev: on) - a rule that only holds because of a debug assertion is reported as a violation;
 (b) checker self-validation: every diff in mutants/<prop>/ is applied to a scratch copy of the CURRENT tree, facts are
     re-extracted and the check must report the expected rule.  A missed mutant is printed as CHECKER-WEAKNESS and recorded
     in the evidence; it does not change the property verdict (it measures the checker, not the engine).
"""
import os, sys, importlib
from concurrent.futures import ThreadPoolExecutor
from . import core

HERE = os.path.dirname(os.path.dirname(os.path.abspath(__file__)))


def alt_config(prop, ctx, mod):
    """Run the module again with dev/rel swapped; merge violations (keys prefixed with the configuration)."""
    primary = sorted(ctx._facts.keys())
    alt = core.Ctx(prop, ctx.tier, None)
    dev, rel = ctx.get_facts("dev"), ctx.get_facts("rel")
    alt._facts = {"dev": rel, "rel": dev}
    alt._loader = lambda label: alt._facts[label]
    try:
        mod.run(alt)
    except core.AnchorMissing as e:
        alt.anchor_missing("%s.ANCHOR" % prop, str(e))
    n_new = 0
    have = {v["key"] for v in ctx.violations}
    for v in alt.violations:
        if v["key"] in have:
            continue
        v = dict(v)
        v["what"] = "[other build configuration] " + v.get("what", "")
        v["key"] = "ALTCFG|" + v["key"]
        ctx.violations.append(v)
        ctx.instances.append({"rule": v["rule"], "instance": "altcfg:" + v["instance"], "ok": False, "nontrivial": True,
                              "function": v.get("function")})
        n_new += 1
    ctx.extra["alt_config_instances"] = len(alt.instances)
    ctx.extra["alt_config_new_violations"] = n_new
    return n_new


def mutants(prop, ctx, jobs=16):
    sys.path.insert(0, os.path.join(HERE, "tools"))
    import mutants as M
    mdir = os.path.join(HERE, "mutants", prop)
    if not os.path.isdir(mdir):
        ctx.extra["mutants"] = {"total": 0}
        return
    tasks = [(prop, os.path.join(mdir, f)) for f in sorted(os.listdir(mdir)) if f.endswith(".diff")]
    res = []
    with ThreadPoolExecutor(max_workers=jobs) as ex:
        for r in ex.map(lambda t: M.run_one(*t), tasks):
            res.append(r)
    det = [r for r in res if r[2] == "DETECTED"]
    weak = [r for r in res if r[2] not in ("DETECTED",)]
    for r in weak:
        print("CHECKER-WEAKNESS property=%s mutant=%s status=%s %s" % (prop, os.path.basename(r[1]), r[2], r[3][:120]))
    ctx.extra["mutants"] = {"total": len(res), "detected": len(det),
                            "not_detected": [(os.path.basename(r[1]), r[2]) for r in weak],
                            "samples": [(os.path.basename(r[1]), r[3][:60]) for r in det[:6]]}
    print("self-validation: %d/%d seeded single-edit regressions of %s detected" % (len(det), len(res), prop))


# Positive controls for rules whose expected number of findings is zero: one seeded regression per such rule is applied to a
# scratch copy on EVERY run (quick tier too) and must be reported, otherwise the rule may be passing vacuously.
CONTROLS = {
    "C03": ["score_adjusted_in_push", "query_swaps_table"],
    "C04": ["hash_written_in_update_phase"],
    "C06": ["interior_nodes_unchecked_for_speed"],
    "C09": ["late_move_pruning", "history_pruning"],
    "C13": ["revert_fix_time_arithmetic"],
    "C14": ["join_under_lock_in_ucinewgame", "isready_takes_lock"],
    "C15": ["new_unchecked_access_in_eval"],
    "C17": ["squares_asserted_again"],
    "C19": ["time_based_tiebreak", "table_iteration_tiebreak", "static_node_counter_in_ordering", "address_in_move_ordering"],
}


def controls(prop, ctx):
    names = CONTROLS.get(prop)
    if not names:
        return
    sys.path.insert(0, os.path.join(HERE, "tools"))
    import mutants as M
    tasks = [(prop, os.path.join(HERE, "mutants", prop, n + ".diff")) for n in names]
    out = []
    with ThreadPoolExecutor(max_workers=len(tasks)) as ex:
        for r in ex.map(lambda t: M.run_one(*t) if os.path.exists(t[1]) else (t[0], t[1], "STALE", "missing"), tasks):
            out.append(r)
    rec = []
    for r in out:
        name = os.path.basename(r[1])[:-5]
        rec.append((name, r[2]))
        if r[2] == "DETECTED":
            ctx.check("%s.CONTROL" % prop, "positive-control:%s" % name, True, what="seeded regression reported: " + r[3][:80], nontrivial=False)
        elif r[2] in ("STALE", "BROKEN"):
            print("CONTROL-%s property=%s control=%s (the tree changed where the control applies; control skipped)" % (r[2], prop, name))
        else:
            ctx.check("%s.CONTROL" % prop, "positive-control:%s" % name, False, nontrivial=False,
                      what="a zero-count rule did not report its positive control (a seeded regression applied to a scratch copy): "
                           "the rule would pass vacuously", found=r[3][:200])
    ctx.extra["positive_controls"] = rec


def seeded(prop, ctx, jobs=8):
    """Independent seeded breakages of this property (seeded/<P>_<X>/patch.diff, written by sub-agents that never saw the rules):
    each is applied to a scratch copy of the current tree and must be reported by this property's check."""
    sys.path.insert(0, os.path.join(HERE, "tools"))
    import mutants as M
    sdir = os.path.join(HERE, "seeded")
    tasks = []
    for d in sorted(os.listdir(sdir)) if os.path.isdir(sdir) else []:
        pf = os.path.join(sdir, d, "patch.diff")
        if os.path.exists(pf) and (d.startswith(prop + "_") or d.startswith(("r2_" + prop + "_", "r3_" + prop + "_", "r5_" + prop + "_", "r6_" + prop + "_", "r7_" + prop + "_"))):
            tasks.append((prop, pf))
    res = []
    with ThreadPoolExecutor(max_workers=jobs) as ex:
        for r in ex.map(lambda t: M.run_one(*t), tasks):
            res.append(r)
    det = [r for r in res if r[2] in ("DETECTED", "DETECTED-OTHER-RULE")]
    for r in res:
        if r not in det:
            print("CHECKER-WEAKNESS property=%s seeded=%s status=%s %s" % (prop, os.path.basename(os.path.dirname(r[1])), r[2], r[3][:120]))
    ctx.extra["independent_seeded_breakages"] = {"total": len(res), "detected": len(det),
                                                 "not_detected": [(os.path.basename(os.path.dirname(r[1])), r[2]) for r in res if r not in det]}
    if res:
        print("self-validation: %d/%d independent seeded breakages of %s detected" % (len(det), len(res), prop))


def benign(prop, ctx, jobs=8):
    """Behaviour-preserving refactors (benign/): this property's check must stay silent on each.  A false alarm is printed as
    CHECKER-FALSE-ALARM and recorded; like the mutants it measures the checker and does not change the verdict on /repo."""
    import importlib.util, subprocess, tempfile, shutil
    spec = importlib.util.spec_from_file_location("bdefs", os.path.join(HERE, "benign", "defs.py"))
    bd = importlib.util.module_from_spec(spec)
    spec.loader.exec_module(bd)
    repo = os.environ.get("VERIF_REPO", "/repo")

    def one(b):
        name, edits, replace_all = b
        if not edits:
            return name, "SKIP"
        d = tempfile.mkdtemp(prefix="benign_", dir="/tmp")
        try:
            scratch = os.path.join(d, "repo")
            subprocess.run(["rsync", "-a", "--exclude", ".git", "--exclude", "target", repo + "/", scratch + "/"], check=True)
            if isinstance(edits, str) and edits.startswith("PATCH:"):
                r = subprocess.run(["patch", "-p1", "-s", "--no-backup-if-mismatch", "-i", os.path.join(HERE, edits[6:])], cwd=scratch,
                                   capture_output=True, text=True)
                if r.returncode != 0:
                    return name, "STALE"
            else:
                for f, old, new in edits:
                    pth = os.path.join(scratch, f)
                    src = open(pth).read()
                    if old not in src:
                        return name, "STALE"
                    open(pth, "w").write(src.replace(old, new) if replace_all else src.replace(old, new, 1))
            env = dict(os.environ, VERIF_EVIDENCE_DIR=os.path.join(d, "ev"), VERIF_NO_CONTROLS="1")
            r = subprocess.run([os.path.join(HERE, "check"), prop, "--repo", scratch], capture_output=True, text=True, env=env)
            if "could not extract compiler facts" in r.stdout + r.stderr:
                return name, "BROKEN"
            return name, ("SILENT" if r.returncode == 0 else "FALSE-ALARM")
        finally:
            shutil.rmtree(d, ignore_errors=True)
    def renamed(_):
        """every local of every function renamed consistently (done on the compiler facts: tools/rename_facts.py)"""
        d = tempfile.mkdtemp(prefix="benign_ren_", dir="/tmp")
        try:
            ext = os.path.join(HERE, "engine", "extract.sh")
            pairs = []
            for lbl, flags in (("dev", ""), ("rel", "-C overflow-checks=off -C debug-assertions=off")):
                raw, ren = os.path.join(d, lbl + ".json"), os.path.join(d, lbl + "_ren.json")
                r = subprocess.run([ext, repo, raw, flags], capture_output=True, text=True)
                if r.returncode != 0:
                    return "facts:all-locals-renamed", "BROKEN"
                subprocess.run([sys.executable, os.path.join(HERE, "tools", "rename_facts.py"), raw, ren, "_renamed"], check=True, capture_output=True)
                pairs.append("%s=%s" % (lbl, ren))
            env = dict(os.environ, VERIF_EVIDENCE_DIR=os.path.join(d, "ev"), VERIF_NO_CONTROLS="1")
            r = subprocess.run([os.path.join(HERE, "check"), prop, "--facts", ",".join(pairs)], capture_output=True, text=True, env=env)
            return "facts:all-locals-renamed", ("SILENT" if r.returncode == 0 else "FALSE-ALARM")
        finally:
            shutil.rmtree(d, ignore_errors=True)
    out = []
    with ThreadPoolExecutor(max_workers=jobs) as ex:
        fut = ex.submit(renamed, None)
        for r in ex.map(one, bd.BENIGN):
            out.append(r)
        out.append(fut.result())
    fa = [n for n, st in out if st == "FALSE-ALARM"]
    for n in fa:
        print("CHECKER-FALSE-ALARM property=%s benign_edit=%s" % (prop, n))
    ctx.extra["behaviour_preserving_edits"] = {"total": len([1 for _, st in out if st in ("SILENT", "FALSE-ALARM")]), "silent": len([1 for _, st in out if st == "SILENT"]),
                                               "false_alarms": fa, "stale": [n for n, st in out if st in ("STALE", "BROKEN")]}
    print("self-validation: silent on %d/%d behaviour-preserving edits" % (len([1 for _, st in out if st == "SILENT"]),
                                                                          len([1 for _, st in out if st in ("SILENT", "FALSE-ALARM")])))
