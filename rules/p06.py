"""C06 - the move the engine announces is always legal.

Decides *provenance*: only (P1) an element / the first element of the root's checked move list, or the cached move
of the entry fetched with the searched game's own hash at a balanced point, can be returned by get_best_move_entry;
(P2) only None or an element of the checked list generated in the same activation is stored as `pv`, under the key
game.hash() evaluated with no move pending; (P3) the unchecked lists of quiescence / depth-1 reach no sink and those
functions touch no table; (P4) the single-reply shortcut and the repetition filter only select from / remove from the
checked list; (P5) the UCI layer prints exactly the returned move, `none` iff None; (P6) the driver only ever holds
such values.  By induction over table writes every cached pv is legal in the position whose hash keys it.
Assumes: equal hash => equal position (A-HASH).  Does not decide: Some whenever a move exists (score arithmetic).
"""
from . import core, hir, mir, pairing
from .prov import Prov, allowed
from .common import fmt_writes
from . import p07

LEVEL = "other"
EXPLANATION = ("Syntactic reaching definitions of every Move-valued expression that reaches a return of the search entry points, "
               "a TableEntry.pv or the bestmove print, classified by source (checked buffer element / cached entry / None / other); "
               "push/pop typestate depth at the table-key evaluation sites; call-graph facts for the unchecked-list functions.")
ENTRY = "search::get_best_move_entry"
SCORE = "search::get_best_move_score"
DRIVER = "search::get_best_move_until_stop"


def run(ctx):
    F = ctx.facts
    p1(ctx, F)
    p2(ctx, F)
    p3(ctx, F)
    p4(ctx, F)
    p5(ctx, F)
    p6(ctx, F)
    p8(ctx, F)
    p9(ctx, F)
    # P10 = C03.S2: the position asked about is the position searched, also for the next `go`: no search function leaves moves played
    # on a game it does not own (an aborted search on the caller's game hands the session a position from inside the tree)
    from . import p03
    before, nv = len(ctx.instances), len(ctx.violations)
    p03.s2(ctx, F)
    for i in ctx.instances[before:]:
        i["rule"] = "C06.P10(" + i["rule"] + ")"
    for v in ctx.violations[nv:]:
        v["rule"] = "C06.P10(" + v["rule"] + ")"
        v["key"] = "C06.P10|" + v["key"]
    # P11 = C01: the move announced comes from the checked move list - it is legal exactly as far as that list is
    from . import p01, p17
    before, nv = len(ctx.instances), len(ctx.violations)
    p01.run(ctx)
    p17.relabel(ctx, before, nv, "C06.P11")
    from . import p04
    before, nv = len(ctx.instances), len(ctx.violations)
    p04.rule_k4(ctx, F)
    for i in ctx.instances[before:]:
        i["rule"] = "C06.P7(" + i["rule"] + ")"
    for v in ctx.violations[nv:]:
        v["rule"] = "C06.P7(" + v["rule"] + ")"
        v["key"] = "C06.P7|" + v["key"]
    ctx.assume("A-HASH: equal 64-bit hash implies equal position (C05 gives only a minimum-distance bound; the structural part - "
               "every feature is keyed - is checked as P7)")


def p9(ctx, F):
    """P9 = C09.B8: a node that records a best score records the move with it - the table entry's move is what the root probe hands
    to the driver as *the* move."""
    from . import p09
    before, nv = len(ctx.instances), len(ctx.violations)
    p09.b8(ctx, F, {p_: p09.Node(F, p_) for p_ in p09.NODES}, parts=("best",))
    for i in ctx.instances[before:]:
        i["rule"] = "C06.P9(" + i["rule"] + ")"
    for v in ctx.violations[nv:]:
        v["rule"] = "C06.P9(" + v["rule"] + ")"
        v["key"] = "C06.P9|" + v["key"]


def p8(ctx, F):
    """P8 the root keeps a move whenever it has one to search: the bound a root move's score is compared with (`score > best_score`
    decides whether it becomes the best move) starts at the minimum score, so the first move searched always becomes the best
    move.  Every definition of that bound outside the move loop must be the minimum constant."""
    fn = F.fn(ENTRY)
    body = fn["hir"]["body"]
    sym = hir.Sym(hir.Env(fn["hir"], F), F)
    loop = None
    for n, anc in hir.walk(body):
        if n.get("k") == "Loop" and hir.calls(n, SCORE):
            loop = n
            break
    if loop is None:
        ctx.anchor_missing("C06.P8", "the root move loop (a loop calling get_best_move_score) in get_best_move_entry")
        return
    # the bound: right operand of the `score > bound` test whose branch assigns the best move
    bounds = {}
    for n, anc in hir.walk(loop):
        if n.get("k") == "If":
            c = hir.strip(n["cond"])
            sets_move = any(x.get("k") == "Assign" and "Some" in hir.fmt(sym(x["r"]), 40) for x, _ in hir.walk(n["then"]))
            if c.get("k") == "Binary" and c.get("op") in (">", "<", ">=", "<=") and sets_move:
                for side in (c["l"], c["r"]):
                    s0 = hir.strip(side)
                    if s0.get("k") == "Path" and s0["to"].get("res") == "local" and "Mut" in str(_binder_mode(fn, s0["to"]["id"])):
                        bounds[s0["to"]["id"]] = s0["to"]["name"]
    ctx.floor("C06.P8", "root bounds a move's score is compared with", len(bounds), 1)
    in_loop = {id(x) for x, _ in hir.walk(loop)}
    for lid, name in bounds.items():
        defs = []
        for n, anc in hir.walk(body):
            if id(n) in in_loop:
                continue
            if n.get("k") == "SLet" and n["pat"].get("k") == "PBind" and n["pat"].get("id") == lid and n.get("init") is not None:
                defs.append((n, n["init"], "let"))
            if n.get("k") in ("Assign", "AssignOp"):
                l0 = hir.strip(n["l"])
                if l0.get("k") == "Path" and l0["to"].get("res") == "local" and l0["to"].get("id") == lid:
                    defs.append((n, n["r"], n["k"]))
        for n, rhs, kind in defs:
            v = hir.sym_int(hir.fold(hir.resolve_std_ints(hir.resolve_consts(sym(rhs), F)), {})) if kind != "AssignOp" else None
            # (exactly the smallest score that can still be negated: the children are searched with -bound as their upper bound)
            ctx.check("C06.P8", "root-bound-starts-at-the-minimum:%s" % name, v is not None and v == -32767, fn=ENTRY, file=fn["file"], line=hir.line(n),
                      what="the bound a root move must beat to become the best move does not start at the minimum score: when every move "
                           "scores below it the root returns no move although legal moves exist",
                      expected="Score::MIN + 1 (= -Score::MAX), assigned nowhere else before the move loop", found=hir.fmt(sym(rhs), 100))


def _binder_mode(fn, lid):
    stack = [fn["hir"]]
    while stack:
        x = stack.pop()
        if isinstance(x, list):
            stack.extend(x)
        elif isinstance(x, dict):
            if x.get("k") == "PBind" and x.get("id") == lid:
                return x.get("mode")
            stack.extend(v for k_, v in x.items() if isinstance(v, (dict, list)) and k_ not in ("sp", "osp", "to"))
    return None


def returned_move_components(fn, F, pv):
    """[(node, classification)] for the move component of every `return Some((m, ..))` / tail of the entry point."""
    body = fn["hir"]["body"]
    outs = []
    exprs = [n["e"] for n, _ in hir.walk(body) if n.get("k") == "Ret" and n.get("e") is not None]
    tail = hir.strip(body).get("expr")
    if tail is not None:
        exprs.append(tail)
    for e in exprs:
        e0 = hir.strip(e)
        if e0.get("k") == "Call" and (hir.callee_of(e0) or "").endswith("from_residual"):
            continue   # abort path of `?` (C07.Q2)
        if e0.get("k") == "Call" and hir.strip(e0["f"]).get("to", {}).get("path", "").endswith("Some") and e0["args"]:
            tup = hir.strip(e0["args"][0])
            if tup.get("k") == "Tup" and tup["elems"]:
                outs.append((e0, tup["elems"][0], pv.classify(tup["elems"][0])))
                continue
        outs.append((e0, e0, ("other", hir.fmt(pv.sym(e0), 120))))
    return outs


def p1(ctx, F):
    fn = F.fn(ENTRY)
    pv = Prov(fn, F)
    checked = [b for b, v in pv.buffers.items() if v["flag"] is True]
    ctx.check("C06.P1", "root-list-is-checked", len(pv.buffers) == 1 and len(checked) == 1 and pv.buffers[checked[0]]["recv"] == "game",
              fn=ENTRY, file=fn["file"], what="the root move list must be generated in checked mode from the searched game",
              expected="game.get_moves(&mut moves, true)", found={k: (v["flag"], v["recv"]) for k, v in pv.buffers.items()})
    outs = returned_move_components(fn, F, pv)
    ctx.floor("C06.P1", "non-abort return sites of get_best_move_entry", len(outs), 3)
    for node, comp, cls in outs:
        ok = allowed(cls)
        key = cls[0] if not cls[0].startswith("var:") else cls[0]
        extra = {}
        if ok and cls[0] == "cached":
            ok = cls[1] == "Game::hash(game)"
            extra = {"key": cls[1]}
        ctx.check("C06.P1", "returned-move-source:%s" % key, ok, fn=ENTRY, file=fn["file"], line=hir.line(node),
                  what="get_best_move_entry can return a move that is neither an element of the root's checked list nor the cached move of "
                       "the root position", expected="element/first of the checked list, entry.pv keyed by game.hash(), or None",
                  found={"class": cls[0], "detail": str(cls[1])[:200], **extra})
    ctx.check("C06.P1", "no-foreign-move-enters-the-root-list", not pv.bad_mutations, fn=ENTRY, file=fn["file"],
              what="a move is pushed into the checked list after generation", found=pv.bad_mutations)
    # the cached-move return is taken at pending-push depth 0
    depth_at_table_sites(ctx, F, fn, "C06.P1")


def depth_at_table_sites(ctx, F, fn, rule):
    res = pairing.analyse(fn, True)
    cfg = res["cfg"]
    n = 0
    for b, t in cfg.calls(lambda c, t: c == "chess::Game::hash"):
        st = res["state_at_term"].get(b)
        if st is None:
            continue
        n += 1
        ctx.check(rule, "table-key-taken-with-no-move-pending:%d" % n, st != "ABORT" and len(st) == 0, fn=fn["path"], file=fn["file"],
                  line=mir.span_line(t),
                  what="game.hash() is evaluated (as a table key) while a move is played and not yet taken back: the entry is filed "
                       "under the child's position but holds the parent's best move",
                  expected="0 pending pushes", found=len(st) if st != "ABORT" else "abort path")
    return n


SINK_METHODS = ("insert", "or_insert", "or_insert_with", "insert_entry")
KEY_METHODS = ("entry", "insert", "get_mut")


def table_sinks(body):
    """Every place a TableEntry value is stored: map/entry insertion methods and assignments through a `&mut TableEntry`
    (and_modify closures, OccupiedEntry::get_mut, HashMap::get_mut ...), whatever the surrounding idiom."""
    out = []
    for n, _ in hir.walk(body):
        if n.get("k") == "MethodCall" and n["name"] in SINK_METHODS and ("hash_map" in (hir.callee_of(n) or "") or "HashMap" in (hir.callee_of(n) or "")):
            out.append((n, n["args"][-1]))
        elif n.get("k") == "Assign" and n["l"].get("ty") == "search::TableEntry" and n["l"].get("k") == "Unary" and n["l"].get("op") == "Deref":
            out.append((n, n["r"]))
    return out


def p2(ctx, F):
    total = 0
    for path in (SCORE, ENTRY):
        fn = F.fn(path)
        pv = Prov(fn, F)
        body = fn["hir"]["body"]
        symt = hir.Sym(hir.Env(fn["hir"], F), F, through=True)
        short = path.split("::")[-1]
        # the entry computed by this activation: the TableEntry literal(s) of the function
        lits = [n for n, _ in hir.walk(body) if n.get("k") == "Struct" and (n["to"].get("path") or "").endswith("search::TableEntry")]
        cls = ("other", "no TableEntry literal")
        for n in lits:
            for f in n["fields"]:
                if f["name"] == "pv":
                    cls = pv.classify(f["e"])
        ok = len(lits) == 1 and allowed(cls) and "cached" not in str(cls[0]) and all(pv.buffers[b]["flag"] is True and pv.buffers[b]["recv"] == "game"
                                                                                   for b in pv.buffers)
        ctx.check("C06.P2", "cached-pv-source:%s" % short, ok, fn=path, file=fn["file"], line=hir.line(lits[0]) if lits else fn["span"][0],
                  what="a move that is not None / an element of the checked list of THIS position is stored in the table: a later "
                       "search returns it for this hash without validation",
                  expected="one entry literal; pv = None or element of the buffer filled by game.get_moves(.., true) in the same activation",
                  found={"class": cls[0], "detail": str(cls[1])[:200], "literals": len(lits)})
        lit_val = symt(lits[0]) if len(lits) == 1 else None
        sinks = table_sinks(body)
        for i, (node, value) in enumerate(sinks):
            total += 1
            v = symt(value)
            if v[0] == "closure":
                v = v[2]
            ctx.check("C06.P2", "only-the-computed-entry-is-stored:%s#%d" % (short, i), lit_val is not None and v == lit_val, fn=path, file=fn["file"],
                      line=hir.line(node), what="the table may only receive the entry this activation computed (inserted, or replacing an older one)",
                      expected="the function's TableEntry literal", found=hir.fmt(v, 120))
        keys = []
        for n, _ in hir.walk(body):
            if n.get("k") == "MethodCall" and n["name"] in KEY_METHODS and "HashMap" in (hir.callee_of(n) or "") and n["args"]:
                if n["name"] == "insert" and len(n["args"]) < 2:
                    continue
                keys.append((n, symt(n["args"][0])))
        want = ("call", "chess::Game::hash", (("var", "game"),))
        bad = [(hir.line(n), hir.fmt(k, 80)) for n, k in keys if k != want]
        ctx.check("C06.P2", "cached-under-the-position's-own-hash:%s" % short, bool(keys) and not bad, fn=path, file=fn["file"],
                  line=bad[0][0] if bad else fn["span"][0], what="the table entry must be filed under game.hash() of the position it was computed for",
                  expected="table.entry(game.hash()) / insert(game.hash(), ..)", found={"keys": len(keys), "other keys": bad})
        if path == SCORE:
            depth_at_table_sites(ctx, F, fn, "C06.P2")
    ctx.floor("C06.P2", "table insertion sites", total, 2)


def p3(ctx, F):
    g = mir.callgraph(F)
    for path in ("search::quiescence_search", "search::get_best_move_score_depth_1"):
        fn = F.fn(path)
        pv = Prov(fn, F)
        unchecked = [b for b, v in pv.buffers.items() if v["flag"] is False]
        ctx.check("C06.P3", "uses-unchecked-list:%s" % path.split("::")[-1], len(pv.buffers) == 1 and len(unchecked) == 1, fn=path,
                  file=fn["file"], nontrivial=False, what="expected exactly one unchecked move list here",
                  found={k: v["flag"] for k, v in pv.buffers.items()})
        reach = mir.reachable_fns(g, path)
        table_ops = sorted(c for c in reach if "HashMap" in c or "hash_map" in c)
        ctx.check("C06.P3", "unchecked-list-function-touches-no-table:%s" % path.split("::")[-1], not table_ops, fn=path, file=fn["file"],
                  what="a function that works on unverified (pseudo-legal) moves can reach the transposition table", found=table_ops)
        ctx.check("C06.P3", "unchecked-list-function-returns-a-score-only:%s" % path.split("::")[-1], fn["output"] == "i16", fn=path,
                  file=fn["file"], what="a function that works on unverified moves must not return moves", expected="i16", found=fn["output"])
        has_table_param = any("HashMap" in t for t in fn["inputs"])
        ctx.check("C06.P3", "unchecked-list-function-has-no-table-parameter:%s" % path.split("::")[-1], not has_table_param, fn=path,
                  file=fn["file"], what="unverified-move function takes the table", found=fn["inputs"], nontrivial=False)
    # and the checked search never mixes lists
    fn = F.fn(SCORE)
    pv = Prov(fn, F)
    ctx.check("C06.P3", "interior-node-list-is-checked", all(v["flag"] is True and v["recv"] == "game" for v in pv.buffers.values()) and len(pv.buffers) == 1,
              fn=SCORE, file=fn["file"], what="interior nodes (which cache their best move) must generate verified moves only",
              expected="game.get_moves(&mut moves, true)", found={k: (v["flag"], v["recv"]) for k, v in pv.buffers.items()})
    ctx.check("C06.P3", "no-foreign-move-enters-the-node-list", not pv.bad_mutations, fn=SCORE, file=fn["file"],
              what="a move is pushed into the checked list after generation", found=pv.bad_mutations)


def p4(ctx, F):
    fn = F.fn(ENTRY)
    body = fn["hir"]["body"]
    pv = Prov(fn, F)
    sym = pv.sym
    # single reply shortcut
    short = None
    for n, anc in hir.walk(body):
        if n.get("k") == "Ret" and n.get("e") is not None and "first(" in hir.fmt(sym(n["e"]), 200):
            g = [(hir.fmt(hir.canon(x[1]), 120), x[2]) for x in (hir.guards_of(n, body, sym) or []) if x[0] == "if"]
            short = (n, g)
    ok = short is not None and short[1] == [("(<T, CAP>::len(moves) == 1)", True)]
    ctx.check("C06.P4", "single-reply-shortcut-returns-that-reply", ok, fn=ENTRY, file=fn["file"], line=hir.line(short[0]) if short else None,
              what="the no-search shortcut must return the first move of the checked list exactly when it has one element",
              expected="len(moves) == 1 => moves.first()", found=short[1] if short else None)
    # repetition filter only removes, after the shortcut, and cannot empty the list
    removes = [n for n, _ in hir.walk(body) if n.get("k") == "MethodCall" and n["name"] in ("swap_remove", "remove", "retain", "truncate", "clear", "pop")
               and hir.strip(n["recv"]).get("to", {}).get("name") in pv.buffers]
    okr = all(hir.raw_line(r) > hir.raw_line(short[0]) for r in removes) if short else False
    once = True
    for r in removes:
        # inside a loop the removal must be followed by a break (at most one element is dropped)
        for n, anc in hir.walk(body):
            if n is r:
                blk = [a for a in anc if a.get("k") == "Block"][-1]
                sts = blk.get("stmts") or []
                idx = [i for i, s in enumerate(sts) if any(x is r for x, _ in hir.walk(s))]
                follows = sts[idx[0] + 1:] + ([blk["expr"]] if blk.get("expr") else []) if idx else []
                if any(a.get("k") == "Loop" for a in anc) and not any(hir.strip(s).get("k") == "Break" for s in follows):
                    once = False
        if r["name"] in ("retain", "truncate", "clear"):
            once = False
    ctx.check("C06.P4", "repetition-filter-removes-at-most-one-move-after-the-shortcut", okr and once and len(removes) <= 1, fn=ENTRY,
              file=fn["file"], line=hir.line(removes[0]) if removes else None,
              what="the repetition filter may drop at most one root move and only after the single-reply shortcut (len >= 2), otherwise a "
                   "position with legal moves can end up with an empty root list and no move",
              found={"removals": [(r["name"], hir.line(r)) for r in removes], "after_shortcut": okr, "at_most_one": once})


def bestmove_by_cases(best, go, F):
    """Every `bestmove` print under the two cases of the driver's result R: with R = Some(M) every print that can be reached shows
    uci_notation(M) in its first placeholder directly after `bestmove `; with R = None only `bestmove none` can be reached.
    [] = holds, list of failing prints otherwise, None = the driver's result does not appear in the conditions."""
    SOME, NONE = "std::prelude::v1::Some", ("variant", "std::prelude::v1::None")
    R = None
    for w in best:
        for g in w[3]:
            for t in hir.subterms(g[1]) if isinstance(g[1], tuple) else ():
                if isinstance(t, tuple) and t[:2] == ("call", DRIVER):
                    R = t
    if R is None or not best:
        return None
    M = ("var", "RETURNED")
    bad = []
    for case, val in (("Some", ("ctor", SOME, (M,))), ("None", NONE)):
        reachable = 0
        for node, text, args, guards in best:
            a = {R: val}
            reach = hir.fold(hir.guards_term(guards), a)
            if reach == ("lit", False) or hir.all_leaves_false(reach):
                continue
            reachable += 1
            if case == "None":
                if args or not (text or "").startswith("bestmove none"):
                    bad.append(("no move returned", text, hir.line(node)))
                continue
            # names the conditions bind, as projections of what they test
            env = {}
            for g in guards:
                pk_, scr = (g[1][1], g[1][2]) if (g[0] == "if" and isinstance(g[1], tuple) and g[1][:1] == ("let",)) else \
                    ((g[2], g[1]) if g[0] == "arm" else (None, None))
                for nm, path in (getattr(pk_, "paths", None) or {}).items():
                    env[("var", nm)] = hir.project(scr, path)
            shown = args[0][1] if args else None
            okw = (text or "").startswith("bestmove {}") and shown is not None and shown[0] == "call" and \
                shown[1] == "chess::move_struct::Move::uci_notation" and len(shown[2]) == 1
            if okw:
                x = hir.fold(hir.subst(shown[2][0], env), a)
                if x[:1] == ("call",) and str(x[1]).endswith(("Option::<T>::unwrap", "Option::<T>::expect")) and x[2] and x[2][0] == val:
                    x = M
                okw = x == M
            if not okw:
                bad.append(("move returned", text, hir.fmt(shown, 80) if shown else None, hir.line(node)))
        if reachable == 0:
            bad.append(("no bestmove print reachable when the driver returns %s" % case,))
    return bad


def p5(ctx, F):
    from . import p14
    roles = p14.closures_by_role(F)
    go = F.fn("uci::command_go")
    ws, sym = fmt_writes(go, F)
    best = [w for w in ws if w[1] and w[1].startswith("bestmove")]
    some = [w for w in best if w[2]]
    none = [w for w in best if not w[2]]
    ok = len(some) == 1 and len(none) == 1 and none[0][1].startswith("bestmove none")
    found = {}
    if ok:
        arg = some[0][2][0][1]
        g = [x for x in some[0][3] if x[0] == "if"][-1:]       # the innermost condition decides between the two prints
        gn = [x for x in none[0][3] if x[0] == "if"][-1:]
        # if let Some(best_move) = best_move  where best_move = get_best_move_until_stop(..)
        ok = arg[0] == "call" and arg[1] == "chess::move_struct::Move::uci_notation" and len(g) == 1 and g[0][1][0] == "let" and \
            g[0][1][1] == ("variant", "std::prelude::v1::Some") and g[0][2] is True and len(gn) == 1 and gn[0][2] is False and gn[0][1] == g[0][1]
        bound = g[0][1][3] if ok else ()
        ok = ok and arg[2] == (("var", bound[0]),) if bound else False
        src = g[0][1][2] if len(g) == 1 else None
        found = {"printed": hir.fmt(arg, 80), "bound from": hir.fmt(src, 160) if src else None}
        ok = ok and src is not None and src[0] == "call" and src[1] == DRIVER
    if not ok:
        # not the reference spelling (extra text after the move, a match on several values ...): decide by cases on what the
        # driver returned
        bv = bestmove_by_cases(best, go, F)
        if bv is not None:
            ok = not bv
            found = {"by cases": bv}
    ctx.check("C06.P5", "bestmove-prints-the-returned-move-or-none", ok, fn="uci::command_go", file=go["file"],
              line=hir.line(some[0][0]) if some else None,
              what="the UCI layer must print uci_notation() of exactly the move get_best_move_until_stop returned, and `none` iff it "
                   "returned None", found=found or {"some": len(some), "none": len(none)})
    # the searched game is the current game of the session
    calls = hir.calls(go["hir"]["body"], DRIVER)
    okg = False
    for c, anc in calls:
        t = hir.fmt(sym(c["args"][0]), 160)
        okg = "current_game" in t and "unwrap" in t
    ctx.check("C06.P5", "search-runs-on-the-session's-current-game", okg, fn="uci::command_go", file=go["file"],
              what="the position searched must be the one set by the last position command", found=okg)


def p6(ctx, F):
    """Every definition of the move the driver returns is a legal-move source or None (None is C07's concern, not C06's)."""
    fn = F.fn(DRIVER)
    body = fn["hir"]["body"]
    env = hir.Env(fn["hir"], F)
    sym = hir.Sym(env, F)
    rets = [hir.strip(n["e"]) for n, _ in hir.walk(body) if n.get("k") == "Ret" and n.get("e") is not None]
    tail = hir.strip(body).get("expr")
    if tail is not None:
        rets.append(hir.strip(tail))
    names = {r["to"]["name"] for r in rets if r.get("k") == "Path" and r["to"].get("res") == "local"}
    ctx.check("C06.P6", "driver-returns-one-variable", len(names) == 1 and len(names) > 0 and
              all(r.get("k") == "Path" or (r.get("k") == "Call" and (hir.callee_of(r) or "").startswith("core::panicking")) for r in rets),
              fn=DRIVER, file=fn["file"], what="every return of the driver must return the running best move",
              found=[hir.fmt(sym(r), 60) for r in rets])
    if len(names) != 1:
        return
    var = list(names)[0]
    n = 0
    for nd, anc in hir.walk(body):
        e = None
        if nd.get("k") == "SLet" and nd["pat"].get("k") == "PBind" and nd["pat"]["name"] == var and nd.get("init") is not None:
            e = nd["init"]
        if nd.get("k") == "Assign" and hir.strip(nd["l"]).get("to", {}).get("name") == var:
            e = nd["r"]
        if e is None:
            continue
        n += 1
        cls, detail = p07.classify_move_source(e, fn, F, sym)
        ctx.check("C06.P6", "driver-holds-only-legal-moves:%s" % cls, cls in ("first-of-checked-list", "iteration-result", "constant-None"),
                  fn=DRIVER, file=fn["file"], line=hir.line(nd),
                  what="the driver's running best move is assigned a value that is neither the result of a completed iteration nor taken "
                       "from a checked move list", found=detail)
    ctx.floor("C06.P6", "definitions of the driver's move", n, 2)
