"""C18 - reported principal variations are playable lines.

Decides: (V1) in the PV walk of the driver the key looked up at each step is the hash of the position reached so far -
its only definitions are game.hash() before the walk and game_clone.hash() taken after the push of the previous step -
and the move printed is the move pushed (the same entry.pv); (V2) the walk plays on a private clone of the searched
game taken in the same iteration, and the walk is bounded; (V3) every cached pv is a checked move of the position that
keys it (C06.P2, re-evaluated).  Gives: each printed move is the cached checked move of the position reached so far.
Assumes equal hash => equal position (A-HASH).
"""
from . import core, hir, mir
from .prov import Prov
from .common import fmt_writes, loop_binders
from . import p06

LEVEL = "other"
EXPLANATION = ("Definitions and uses of the key variable, the cloned game and the printed move inside the PV loop of "
               "search::get_best_move_until_stop (typed HIR, statement order inside the loop body), plus the C06.P2 provenance "
               "rules on both table insertion sites.")
DRIVER = "search::get_best_move_until_stop"


def writer_text(ctx, F):
    """The line is printed with Move::uci_notation: a playable move printed under a wrong text is an unplayable line.  The
    writer half of C12 (promotion letters, castling texts, coordinates, en-passant squares = the board surgery of push)."""
    from . import p12
    from .common import discr_map
    D = discr_map(F)
    before, nv = len(ctx.instances), len(ctx.violations)
    p12.u2(ctx, F, D)
    p12.u3(ctx, F, D)
    p12.u4(ctx, F, D)
    keep_i = [i for i in ctx.instances[before:] if str(i["instance"]).startswith(("writer:", "push:"))]
    keep_v = [v for v in ctx.violations[nv:] if str(v["instance"]).startswith(("writer:", "push:"))]
    del ctx.instances[before:]
    del ctx.violations[nv:]
    for i in keep_i:
        i["rule"] = "C18.V4(" + i["rule"] + ")"
        ctx.instances.append(i)
    for v in keep_v:
        v["rule"] = "C18.V4(" + v["rule"] + ")"
        v["key"] = "C18.V4|" + v["key"]
        ctx.violations.append(v)


def run(ctx):
    F = ctx.facts
    writer_text(ctx, F)
    # V5 = C01: every move of a printed line comes from a checked move list - it can be played exactly as far as that list is right
    from . import p01, p17
    before, nv = len(ctx.instances), len(ctx.violations)
    p01.run(ctx)
    p17.relabel(ctx, before, nv, "C18.V5")
    fn = F.fn(DRIVER)
    body = fn["hir"]["body"]
    env = hir.Env(fn["hir"], F)
    sym = hir.Sym(env, F)
    ws, wsym = fmt_writes(fn, F)
    pvprints = [w for w in ws if w[2] and w[2][0][1][0] == "call" and w[2][0][1][1] == "chess::move_struct::Move::uci_notation"]
    ctx.floor("C18.V1", "pv move print sites", len(pvprints), 1)
    ctx.check("C18.V1", "pv-moves-printed-at-one-site", len(pvprints) == 1, fn=DRIVER, file=fn["file"],
              line=hir.line(pvprints[1][0]) if len(pvprints) > 1 else fn["span"][0],
              what="moves of the `info pv` line are printed at more than one place: only the walk that re-derives each position from the "
                   "table can be checked to print playable moves (a line collected elsewhere, e.g. during the search, is printed unverified)",
              expected=1, found=len(pvprints))
    if len(pvprints) != 1:
        return
    node, text, args, guards = pvprints[0]
    printed = args[0][1][2][0]           # receiver of uci_notation
    # where the printed move comes from: the binding of `pv` is a let guard (if-let chain, or let-else) whose scrutinee has
    # the leaves {table.get(&key), <entry>.pv} (an and_then chain) or is <entry>.pv with <entry> bound by a let guard on
    # table.get(&key)
    symt = hir.Sym(env, F, through=True)
    lets = [x[1] for x in guards if x[0] == "if" and x[2] is True and x[1][0] == "let"]
    pvname = printed[1] if printed[0] == "var" else None
    keyvar = None
    src = None
    ok = False
    for l in lets:
        if pvname not in (l[3] or ()):
            continue
        src = l[2]
        leaves = [lf for lf, _ in hir.nf_leaves(src)]
        gets = [lf for lf in leaves if lf[0] == "call" and str(lf[1]).endswith("<K, V, S, A>::get") and lf[2][0] == ("var", "table")]
        pvs = [lf for lf in leaves if lf[0] == "field" and lf[2] == "pv" and lf[1][0] == "var"]
        others = [lf for lf in leaves if lf not in gets and lf not in pvs]
        if len(pvs) == 1 and not others:
            ent = pvs[0][1][1]
            if len(gets) == 1:
                keyvar = gets[0][2][1]
                ok = True
            else:
                for l2 in lets:
                    if ent in (l2[3] or ()) and l2[2][0] == "call" and str(l2[2][1]).endswith("<K, V, S, A>::get") and l2[2][2][0] == ("var", "table"):
                        keyvar = l2[2][2][1]
                        ok = True
    pvlet = ok
    # the key is a variable re-derived after each push, or directly the hash of the walk's own clone at the time of the lookup
    direct = bool(keyvar) and keyvar[0] == "call" and keyvar[1] == "chess::Game::hash" and len(keyvar[2]) == 1 and keyvar[2][0][0] == "var"
    ctx.check("C18.V1", "printed-move-is-the-cached-move-of-the-looked-up-entry", ok and keyvar is not None and (keyvar[0] == "var" or direct),
              fn=DRIVER, file=fn["file"], line=hir.line(node),
              what="the move printed in `info pv` must be the pv of the entry just fetched from the table",
              expected="print(entry.pv) for entry = table.get(&key)", found={"source of the printed move": hir.fmt(src, 120) if src else None,
                                                                               "printed": hir.fmt(printed, 40)})
    if not (ok and keyvar is not None):
        return
    # the loop body: push(pv) on the clone, print, key = clone.hash()  (order: push before the new key)
    loop_body = None
    for n, anc in hir.walk(body):
        if n is node:
            blocks = [a for a in anc if a.get("k") == "Block" and not a.get("mac")]
            loop_body = blocks[-1]
    seq = []
    clone_name = None
    # events of the loop body in source order (pre-order walk = evaluation order for statements)
    for s0, anc0 in hir.walk(loop_body):
        if s0.get("k") == "MethodCall" and hir.callee_of(s0) == "chess::Game::push":
            clone_name = hir.strip(s0["recv"]).get("to", {}).get("name")
            seq.append(("push", clone_name, hir.fmt(sym(s0["args"][0]), 30)))
        elif s0 is node:
            seq.append(("print",))
        elif s0.get("k") == "Assign" and sym(s0["l"]) == keyvar:
            seq.append(("key=", hir.fmt(sym(s0["r"]), 60)))
    want_key = ("key=", "Game::hash(%s)" % clone_name)
    pushes = [s for s in seq if s[0] == "push"]
    ok = len(pushes) == 1 and pushes[0][2] == pvname and want_key in seq and seq.index(pushes[0]) < seq.index(want_key) and ("print",) in seq
    if direct:
        # `table.get(&line.hash())`: the key is the clone's hash whenever it is looked up; the clone must be the one the move is played on
        ok = len(pushes) == 1 and pushes[0][2] == pvname and ("print",) in seq and keyvar[2][0] == ("var", clone_name)
        want_key = ("lookup by", "Game::hash(%s)" % clone_name)
    ctx.check("C18.V1", "key-rederived-after-each-push-of-the-printed-move", ok, fn=DRIVER, file=fn["file"], line=hir.line(loop_body),
              what="after printing a pv move the walk must play exactly that move on its clone and take the clone's hash as the next key "
                   "(updating the key before the push, or pushing another move, walks a line that was never searched)",
              expected=[("push", clone_name, pvname), ("print",), want_key], found=seq)
    # all definitions of the key
    kname = keyvar[1] if keyvar and keyvar[0] == "var" else None
    defs = []
    for n, anc in hir.walk(body):
        if n.get("k") == "SLet" and n["pat"].get("k") == "PBind" and n["pat"]["name"] == kname:
            defs.append(hir.fmt(sym(n["init"]), 60))
        if n.get("k") == "Assign" and hir.strip(n["l"]).get("to", {}).get("name") == kname:
            defs.append(hir.fmt(sym(n["r"]), 60))
    ok = sorted(defs) == sorted(["Game::hash(game)", "Game::hash(%s)" % clone_name]) or (direct and not defs)
    ctx.check("C18.V1", "key-definitions", ok, fn=DRIVER, file=fn["file"],
              what="the lookup key may only be the searched game's hash and the clone's hash after a push",
              expected=["Game::hash(game)", "Game::hash(%s)" % clone_name], found=defs)
    # V2: the clone
    cdefs = []
    cdepth = None
    for n, anc in hir.walk(body):
        if n.get("k") == "SLet" and n["pat"].get("k") == "PBind" and n["pat"]["name"] == clone_name:
            cdefs.append(hir.fmt(sym(n["init"]), 80))
            cdepth = sum(1 for a in anc if a.get("k") == "Loop")
    kdepth = None
    for n, anc in hir.walk(body):
        if n.get("k") == "SLet" and n["pat"].get("k") == "PBind" and n["pat"]["name"] == kname:
            kdepth = sum(1 for a in anc if a.get("k") == "Loop")
    ok = len(cdefs) == 1 and cdefs[0].endswith("clone(game)") and cdepth == 1 and (kdepth == 1 or direct)
    ctx.check("C18.V2", "walk-plays-on-a-fresh-clone-of-the-searched-game", ok, fn=DRIVER, file=fn["file"],
              what="each iteration's PV walk must start from a fresh clone of the searched game and that game's hash",
              expected="let game_clone = game.clone(); let hash = game.hash(); inside the iteration", found={"clone": cdefs, "loop depth": (cdepth, kdepth)})
    other_uses = []
    for n, anc in hir.walk(body):
        if n.get("k") == "MethodCall" and hir.strip(n["recv"]).get("to", {}).get("name") == clone_name and n["name"] not in ("push", "hash"):
            other_uses.append(n["name"])
    ctx.check("C18.V2", "clone-only-pushed-and-hashed", not other_uses, fn=DRIVER, file=fn["file"],
              what="the walk's clone must only be pushed to and hashed", found=other_uses)
    lb = loop_binders(guards)
    rngs = [hir.fmt(l[0], 60) for l in lb]
    ctx.check("C18.V2", "walk-bounded-by-depth", len(rngs) == 2 and rngs[1] == "ops::Range{end: depth, start: 0}", fn=DRIVER, file=fn["file"],
              what="the PV walk must be bounded by the iteration depth (cached cycles would otherwise loop forever)", found=rngs)
    # the searched game itself is never played on by the driver
    played = [n for n, _ in hir.walk(body) if n.get("k") == "MethodCall" and hir.callee_of(n) in ("chess::Game::push", "chess::Game::push_history")
              and hir.strip(n["recv"]).get("to", {}).get("name") == "game"]
    ctx.check("C18.V2", "driver-never-plays-on-the-searched-game", not played, fn=DRIVER, file=fn["file"],
              what="the driver must not play moves on the caller's game", found=len(played))
    # V3
    before, nv = len(ctx.instances), len(ctx.violations)
    p06.p2(ctx, F)
    p06.p3(ctx, F)      # and nothing that works on unverified (pseudo-legal) lists reaches the table at all
    for i in ctx.instances[before:]:
        i["rule"] = "C18.V3(" + i["rule"] + ")"
    for v in ctx.violations[nv:]:
        v["rule"] = "C18.V3(" + v["rule"] + ")"
        v["key"] = "C18.V3|" + v["key"]
    # the key the walk trusts is taken with no move pending at every table access of the entry point and of the node function
    for path in ("search::get_best_move_entry", "search::get_best_move_score"):
        p06.depth_at_table_sites(ctx, F, F.fn(path), "C18.V3")
    # structural part of A-HASH: the key covers every feature of the position (whole state byte, square x piece, side)
    from . import p04
    before, nv = len(ctx.instances), len(ctx.violations)
    p04.rule_k4(ctx, F)
    for i in ctx.instances[before:]:
        i["rule"] = "C18.V4(" + i["rule"] + ")"
    for v in ctx.violations[nv:]:
        v["rule"] = "C18.V4(" + v["rule"] + ")"
        v["key"] = "C18.V4|" + v["key"]
    ctx.assume("A-HASH: equal 64-bit hash implies equal position (only its structural part - every feature is keyed - is checked)")
