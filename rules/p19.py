"""C19 - fixed-depth search is reproducible.

Decides the property modulo the determinism of the std calls that remain (trusted base):
 Z1 no source of nondeterminism is reachable (call graph) from the search, the importer or the position command:
    clocks, threads, environment, process ids, random hashers, pointer exposure, uninitialised memory, static mut;
 Z2 the transposition table is only accessed through order-independent operations and is built with the identity hasher;
 Z3 the crate has no static / thread-local / lazily initialised item: state that survives a `go` lives in uci::Data only;
 Z4 ucinewgame resets every field of Data;
 Z5 per-search heuristic state (history, killers) is created from constant aggregates inside the search entry points and
    the search takes nothing else from outside than game, table, depth limit and the stop flag;
 Z6 move ordering uses stable sorts.
"""
from . import core, hir, mir

LEVEL = "other"
EXPLANATION = ("Call-graph reachability of a deny-list of nondeterministic APIs and MIR cast kinds from the search entry points; "
               "method whitelist on the HashMap-typed table; hasher type arguments at the four construction sites; item scan for "
               "statics; field-by-field reset check of uci::Data in command_ucinewgame.")
ROOTS = ["search::get_best_move_until_stop", "chess::Game::new", "uci::command_position", "search::get_best_move_entry"]
DENY = ["Instant::now", "SystemTime::now", "std::thread::spawn", "std::thread::sleep", "std::thread::current", "std::env::",
        "std::process::id", "RandomState::new", "DefaultHasher", "rand::", "MaybeUninit", "::set_len", "mem::uninitialized",
        "mem::zeroed", "std::thread::scope", "thread::park", "hash::random", "std::fs::", "std::net::", "getrandom", "available_parallelism"]
MAP_OK = {"get", "entry", "and_modify", "or_insert", "len", "clear", "with_capacity_and_hasher", "default", "contains_key", "capacity",
          "get_mut", "insert", "or_insert_with", "reserve", "is_empty", "with_hasher", "new", "lock", "unwrap", "mut_refs"}
MAP_ORDER_DEPENDENT = {"iter", "iter_mut", "keys", "values", "values_mut", "drain", "retain", "into_iter", "into_keys", "into_values",
                       "extract_if", "drain_filter"}


def run(ctx):
    F = ctx.facts
    g = mir.callgraph(F)
    # Z7 = C14.O3-O6: the search thread cannot observe the running flag before `go` has raised it (otherwise, depending on scheduling,
    # the search returns its unsearched fallback move)
    from . import p14, p17
    roles_ = p14.closures_by_role(F)
    if "search" in roles_ and "timer" in roles_:
        before, nv = len(ctx.instances), len(ctx.violations)
        p14.o3_o6(ctx, F, roles_)
        p17.relabel(ctx, before, nv, "C19.Z7")
    # Z6: a depth-limited search is not on the clock: with no clock and no move time given `go` computes no time budget, so no timer
    # thread can end the search early (the result would then depend on how fast the machine is)
    from . import p13
    ub, why = p13.untimed_budget(F)
    ctx.check("C19.Z6", "no-time-budget-without-time-parameters", ub is not None and all(v == ("variant", "std::prelude::v1::None") for _, v in ub),
              fn=p13.GO, file=F.fn(p13.GO)["file"],
              what="`go depth N` (no clock, no movetime) gets a time budget: a timer can stop the fixed-depth search, and which depth it "
                   "reached then depends on wall-clock time and machine load", expected="no budget (None)",
              found=[(s_, hir.fmt(v, 80)) for s_, v in ub] if ub is not None else why)
    # Z1
    for root in ROOTS:
        F.fn(root)
        reach = mir.reachable_fns(g, root)
        bad = sorted(c for c in reach if any(d in c for d in DENY))
        ctx.check("C19.Z1", "no-nondeterministic-api-reachable-from:%s" % root, not bad, fn=root, file=F.fn(root)["file"],
                  what="a clock / thread / environment / random-hasher / uninitialised-memory API is reachable from the search path: results "
                       "can differ between runs", found=bad)
        # pointer exposure and static-mut reads inside reachable crate functions
        leaks = []
        for p in reach:
            fn = F.fns.get(p)
            if not fn or not fn.get("mir"):
                continue
            for b in fn["mir"]["blocks"]:
                for s in b["stmts"]:
                    if s["k"] == "Assign" and s["rv"]["k"] == "Cast" and "PointerExposeProvenance" in s["rv"].get("ck", ""):
                        leaks.append((p, "ptr as usize", mir.span_line(s)))
                    if s["k"] == "Assign" and s["rv"]["k"] == "ThreadLocalRef":
                        leaks.append((p, "thread-local", mir.span_line(s)))
        ctx.check("C19.Z1", "no-address-or-thread-local-dependence-reachable-from:%s" % root, not leaks, fn=root, file=F.fn(root)["file"],
                  what="an address is turned into an integer (memory layout dependence) or a thread-local is read on the search path",
                  found=leaks[:5])
    # Z2: method whitelist on the table
    uses = []
    for path, fn in F.fns.items():
        if not fn.get("mir"):
            continue
        for b in fn["mir"]["blocks"]:
            t = b["term"]
            if t["k"] == "Call":
                c = mir.callee(t)
                if ("HashMap" in c or "hash_map" in c) and "::" in c:
                    name = c.split("::")[-1]
                    uses.append((path, name, c, mir.span_line(t)))
    bad = [(u[0], u[1], u[3]) for u in uses if u[1] in MAP_ORDER_DEPENDENT or ("Iter" in u[2] and "hash_map" in u[2])]
    ctx.check("C19.Z2", "table-accessed-only-by-key", not bad, fn="search::TranspositionTable", file="src/search.rs",
              what="the transposition table is iterated / drained / filtered: the order depends on capacity history and hasher, so results "
                   "can depend on what was searched before", expected="only get/entry/and_modify/or_insert/len/clear",
              found=bad[:5])
    ctx.floor("C19.Z2", "table operations in the crate", len(uses), 8)
    ctors = []
    for path, fn in F.fns.items():
        if not fn.get("mir"):
            continue
        for b in fn["mir"]["blocks"]:
            t = b["term"]
            if t["k"] == "Call" and "HashMap" in mir.callee(t) and mir.callee(t).endswith(("with_capacity_and_hasher", "with_hasher", "::new", "with_capacity", "default")):
                ctors.append((path, t.get("callee_generic") or "", mir.span_line(t)))
    ctx.floor("C19.Z2", "table construction sites", len(ctors), 4)
    for path, gen, line in ctors:
        ok = ("NoHashHasher<u64>" in gen) and "RandomState" not in gen
        ctx.check("C19.Z2", "identity-hasher:%s" % path, ok, fn=path, file=F.fn(path)["file"], line=line,
                  what="a table is built with a randomly seeded hasher (std RandomState): combined with any order-dependent access the "
                       "search is no longer reproducible; the table type promises the identity hasher", expected="BuildHasherDefault<NoHashHasher<u64>>",
                  found=gen[:200])
    # the type alias itself
    sig = F.fn("search::get_best_move_until_stop")["inputs"][1]
    ctx.check("C19.Z2", "table-type-uses-identity-hasher", "NoHashHasher<u64>" in sig, fn="search::get_best_move_until_stop",
              file="src/search.rs", what="TranspositionTable must be HashMap<u64, TableEntry, BuildNoHashHasher<u64>>", found=sig)
    # Z3
    ctx.check("C19.Z3", "no-static-items", not F.statics, fn="crate", file="src/main.rs",
              what="the crate defines a static: hidden state that survives `ucinewgame`", found=[s["path"] for s in F.statics])
    lazy = []
    for path, fn in F.fns.items():
        if fn.get("mir"):
            for l in fn["mir"]["locals"]:
                if any(k in l["ty"] for k in ("OnceLock", "LazyLock", "LazyCell", "thread::LocalKey")):
                    lazy.append((path, l["ty"][:60]))
    ctx.check("C19.Z3", "no-lazy-or-thread-local-state", not lazy, fn="crate", file="src/main.rs",
              what="lazily initialised / thread-local state in the crate", found=lazy[:5])
    # Z4
    data = F.adt("uci::Data")
    fields = [f["name"] for f in data["variants"][0]["fields"]]
    from . import p14
    nf, arm, sym = p14.command_arm(F, "ucinewgame", ["uci::command_ucinewgame"])
    reset = {}
    conditional = []
    if arm is not None:
        for n, anc in hir.walk(arm):
            tgt = None
            if n.get("k") == "Assign":
                l = hir.strip(n["l"])
                if l.get("k") == "Field" and hir.strip(l["e"]).get("ty", "").replace("&mut ", "").endswith(("uci::Data", "MutexGuard<'_, uci::Data>")) or \
                        (l.get("k") == "Field" and sym(l["e"]) == ("var", "data")):
                    tgt = (l["name"], "= " + hir.fmt(sym(n["r"]), 60))
            if n.get("k") == "MethodCall" and n["name"] in ("clear",):
                r = hir.strip(n["recv"])
                if r.get("k") == "Field" and (sym(r["e"]) == ("var", "data") or "uci::Data" in hir.strip(r["e"]).get("ty", "")):
                    tgt = (r["name"], ".clear()")
            if tgt:
                # unconditional inside the arm: no if / match / loop between the arm and the statement
                inner = [a for a in anc if a.get("k") in ("If", "Match", "Loop") and not a.get("mac")]
                if inner:
                    conditional.append(tgt[0])
                else:
                    reset[tgt[0]] = tgt[1]
    for f in fields:
        ctx.check("C19.Z4", "ucinewgame-resets:%s" % f, f in reset, fn="uci::uci_talk", file=nf["file"],
                  what="a field of the session state survives `ucinewgame`: searches after the reset depend on what was searched before",
                  expected="Data.%s assigned or cleared unconditionally in the `ucinewgame` arm" % f, found={"reset": reset, "only conditionally": conditional})
    ctx.floor("C19.Z4", "fields of uci::Data", len(fields), 2)
    ctx.check("C19.Z4", "ucinewgame-always-resets", arm is not None and not conditional, fn="uci::uci_talk", file=nf["file"],
              what="the reset must not be conditional", found={"arm found": arm is not None, "conditional": conditional})
    # ... and the reset is final: nobody else replaces the table object (a search thread that took the table out of the session
    # state and stores it back when it ends can do so after a `ucinewgame` and bring the old entries back)
    from .common import field_writes
    tfields = [f["name"] for f in data["variants"][0]["fields"] if "TableEntry" in str(f.get("ty")) or "TranspositionTable" in str(f.get("ty"))]
    ok_writers = ("uci::command_ucinewgame", "uci::uci_talk", "uci::Data::new", "uci::Data::default")
    bad = []
    n_w = 0
    for tf in tfields:
        for w in field_writes(F, "uci::Data", tf):
            n_w += 1
            root = w[0].split("::{closure")[0]
            if w[2] == "assign" and not w[0].startswith(ok_writers):
                bad.append((tf, w[0], w[2]))
    ctx.check("C19.Z4", "table-replaced-only-by-the-reset", bool(tfields) and not bad, fn=bad[0][1] if bad else "uci::Data", file="src/uci.rs",
              what="the transposition table of the session is replaced as a whole outside `ucinewgame`: a search that ends after the "
                   "reset hands its old table back and later searches see entries from before the reset",
              expected="whole-value writes of Data.<table> only in the ucinewgame handler / constructors", found=bad)
    ctx.floor("C19.Z4", "writers of the session's table field", n_w, 1)
    # Z5
    drv = F.fn("search::get_best_move_until_stop")
    want_inputs = ["&chess::Game", "&mut std::collections::HashMap<u64, search::TableEntry", "&std::sync::atomic::Atomic<bool>", "std::option::Option<u8>"]
    ok = len(drv["inputs"]) == 4 and all(drv["inputs"][i].startswith(w) for i, w in enumerate(want_inputs))
    ctx.check("C19.Z5", "search-inputs", ok, fn=drv["path"], file=drv["file"],
              what="the search must depend only on the game, the table, the stop flag and the depth limit", expected=want_inputs, found=drv["inputs"])
    dsym = hir.Sym(hir.Env(drv["hir"], F), F)
    hist = None
    for n, anc in hir.walk(drv["hir"]["body"]):
        if n.get("k") == "SLet" and n["pat"].get("k") == "PBind" and n["pat"]["name"] == "history":
            hist = (hir.fmt(dsym(n["init"]), 40), sum(1 for a in anc if a.get("k") == "Loop"))
    ctx.check("C19.Z5", "history-fresh-per-search", hist == ("repeat(0)", 0), fn=drv["path"], file=drv["file"],
              what="the history table must be a fresh zeroed array per search", found=hist)
    ent = F.fn("search::get_best_move_entry")
    esym = hir.Sym(hir.Env(ent["hir"], F), F)
    kil = None
    for n, anc in hir.walk(ent["hir"]["body"]):
        if n.get("k") == "SLet" and n["pat"].get("k") == "PBind" and n["pat"]["name"] == "killer_moves":
            kil = hir.fmt(esym(n["init"]), 40)
    # (an array of arrays of None - several killer slots per ply - is just as fresh)
    import re as _re
    while kil and _re.fullmatch(r"repeat\(repeat\((.*)\)\)", kil):
        kil = "repeat(%s)" % _re.fullmatch(r"repeat\(repeat\((.*)\)\)", kil).group(1)
    ctx.check("C19.Z5", "killers-fresh-per-iteration", kil == "repeat(v1::None)", fn=ent["path"], file=ent["file"],
              what="the killer table must be a fresh array of None", found=kil)
    # Z6
    sorts = []
    for path, fn in F.fns.items():
        if not fn.get("mir") or not path.startswith(("search::", "chess::")):
            continue
        for b in fn["mir"]["blocks"]:
            t = b["term"]
            if t["k"] == "Call" and "::sort" in mir.callee(t):
                sorts.append((path, mir.callee(t).split("::")[-1], mir.span_line(t)))
    unstable = [s for s in sorts if "unstable" in s[1]]
    ctx.check("C19.Z6", "move-ordering-sorts-are-stable", not unstable and len(sorts) >= 2, fn="search::get_best_move_score", file="src/search.rs",
              what="an unstable sort orders moves with equal keys arbitrarily (implementation-defined): the principal variation can differ",
              expected="sort_by_cached_key (stable)", found=sorts)
    # Z7: nothing but Data and a per-go flag crosses from one `go` to the next
    from . import p14
    go = F.fn("uci::command_go")
    want = ["&std::sync::Arc<std::sync::Mutex<uci::Data>>", "&mut std::str::SplitAsciiWhitespace<'_>", "&std::sync::Arc<std::sync::atomic::Atomic<bool>>"]
    ctx.check("C19.Z7", "command_go-receives-only-data-and-a-flag", go["inputs"] == want, fn=go["path"], file=go["file"],
              what="command_go receives session state besides the Data mutex and the stop flag: state that `ucinewgame` does not reset can "
                   "influence later searches", expected=want, found=go["inputs"])
    before, nv = len(ctx.instances), len(ctx.violations)
    p14.o3_o6(ctx, F, p14.closures_by_role(F))
    keep_i = [i for i in ctx.instances[before:] if "fresh-flag-per-go" in i["instance"] or "both-threads-share" in i["instance"]]
    keep_v = [v for v in ctx.violations[nv:] if "fresh-flag-per-go" in v["instance"] or "both-threads-share" in v["instance"]]
    for i in keep_i:
        i["rule"] = "C19.Z7(" + i["rule"] + ")"
    for v in keep_v:
        v["rule"] = "C19.Z7(" + v["rule"] + ")"
        v["key"] = "C19.Z7|" + v["key"]
    ctx.instances[before:] = keep_i
    ctx.violations[nv:] = keep_v
    ctx.trust("std HashMap get/insert semantics independent of capacity history; f64::powf deterministic on one machine")
