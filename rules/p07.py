"""C07 - a stop request at any moment still yields a legal move, promptly.

Decides:
 Q1 the stop flag is polled on entry to every interior search node, before anything else, and a cleared flag
    returns the abort value at once;
 Q2 at each recursive call site (3 in get_best_move_score, 3 in get_best_move_entry) and at the driver, the aborted
    result is propagated straight to a return: nothing is expanded, played, generated or cached on the way;
 Q3 the driver's fallback: no definition of the returned move is the constant None - before the first iteration
    completes it is the first move of a *checked* move list of the searched game (None iff there is no legal move);
 Q4 `stop` clears the polled flag before joining; the timer clears a clone of the same flag.
Does NOT decide wall-clock promptness (bounded by one depth-1 / quiescence subtree, which does not poll by design).
"""
from . import core, hir, mir
from . import p14

LEVEL = "other"
EXPLANATION = ("MIR dominance of the flag load over all other calls of the node function; path queries from the abort arm of each "
               "`?` to the return (no call allowed except the residual conversion); use-count of each recursive result; reaching "
               "definitions (HIR) of the driver's returned variable classified by provenance.")
SCORE = "search::get_best_move_score"
ENTRY = "search::get_best_move_entry"
DRIVER = "search::get_best_move_until_stop"
EXPANDERS = ("chess::Game::push", "chess::Game::get_moves", "search::get_best_move_score", "search::get_best_move_score_depth_1",
             "search::quiescence_search", "search::get_best_move_entry", "HashMap::<K, V, S, A>::entry", "HashMap::<K, V, S, A>::insert")


def run(ctx):
    F = ctx.facts
    q1(ctx, F)
    q2(ctx, F)
    q3(ctx, F)
    q4(ctx, F)
    q5(ctx, F)
    flag_identity(ctx, F)
    # "never `bestmove none` in a position that has legal moves": the root may not end up with an empty list while legal moves
    # exist - the repetition filter drops at most one move and only when another one is left (C06.P4)
    from . import p06
    before, nv = len(ctx.instances), len(ctx.violations)
    p06.p4(ctx, F)
    # ... and what the root hands back as "the move" is a move whenever the list is not empty: the driver overwrites its fallback
    # with it after every completed iteration (C06.P1 sources of the returned move, C06.P8 the first move searched always counts)
    p06.p1(ctx, F)
    p06.p8(ctx, F)
    p06.p9(ctx, F)
    for i in ctx.instances[before:]:
        i["rule"] = "C07.Q6(" + i["rule"] + ")"
    for v in ctx.violations[nv:]:
        v["rule"] = "C07.Q6(" + v["rule"] + ")"
        v["key"] = "C07.Q6|" + v["key"]


def flag_identity(ctx, F, rule="C07.Q7"):
    """the stop flag is one object all the way down: a search function that receives the flag hands exactly that flag to every
    search function it calls (a private or substituted flag makes part of the search deaf to `stop` and to the timer)"""
    def flag_param(fn):
        for i, p_ in enumerate(fn["hir"].get("params") or []):
            if ("AtomicBool" in str(p_.get("ty", "")) or "atomic::Atomic<bool>" in str(p_.get("ty", ""))) and p_["pat"].get("k") == "PBind":
                return i, p_["pat"]["name"]
        return None
    takers = {p: flag_param(fn) for p, fn in F.fns.items() if fn.get("hir") and fn["kind"] in ("Fn", "AssocFn") and p.startswith("search::")
              and flag_param(fn) is not None}
    n = 0
    for path, (idx, pname) in sorted(takers.items()):
        fn = F.fn(path)
        sym = hir.Sym(hir.Env(fn["hir"], F), F, through=True)
        for c, _ in hir.walk(fn["hir"]["body"]):
            if c.get("k") == "Call" and hir.callee_of(c) in takers:
                j = takers[hir.callee_of(c)][0]
                if j >= len(c["args"]):
                    continue
                n += 1
                a = sym(c["args"][j])
                while isinstance(a, tuple) and a[:1] in (("ref",), ("deref",), ("addr",)) and len(a) == 2:
                    a = a[1]
                ctx.check(rule, "flag-handed-down-unchanged:%s->%s" % (path.split("::")[-1], hir.callee_of(c).split("::")[-1]), a == ("var", pname),
                          fn=path, file=fn["file"], line=hir.line(c),
                          what="a search function passes something other than the stop flag it received to the search below it: that part "
                               "of the search cannot be stopped by `stop` or by the timer",
                          expected=pname, found=hir.fmt(a, 100))
    ctx.floor(rule, "calls that hand the stop flag down", n, 4)


def q5(ctx, F):
    """The root probe hands an entry's move to the driver, which overwrites its running move with it (no fallback after the
    first completed iteration): so no table entry may be created with a constant "no move"."""
    n = 0
    for path in ("search::get_best_move_score", "search::get_best_move_entry"):
        fn = F.fn(path)
        sym = hir.Sym(hir.Env(fn["hir"], F), F)
        for lit, _ in hir.walk(fn["hir"]["body"]):
            if lit.get("k") == "Struct" and (lit["to"].get("path") or "").endswith("search::TableEntry"):
                n += 1
                pv = [f["e"] for f in lit["fields"] if f["name"] == "pv"]
                v = sym(pv[0]) if pv else ("none",)
                ok = bool(pv) and not (v[0] == "variant" and str(v[1]).endswith("::None")) and v[0] != "none"
                ctx.check("C07.Q5", "no-entry-is-created-without-a-move:%s#%d" % (path.split("::")[-1], n), ok, fn=path, file=fn["file"],
                          line=hir.line(lit),
                          what="a table entry is created with `pv: None`: when such an entry answers the root probe the driver replaces "
                               "its legal fallback move by None, and a stop during the next iteration prints `bestmove none` although "
                               "legal moves exist", expected="pv: the best move found at this node", found=hir.fmt(v, 60))
    ctx.floor("C07.Q5", "table entry literals", n, 2)


def param_local(fn, name):
    for i, l in enumerate(fn["mir"]["locals"]):
        if l.get("name") == name and 1 <= i <= fn["mir"]["arg_count"]:
            return i
    return None


def calls_on_paths(cfg, start, stop_at_return=True):
    """All Call terminators on any path from `start` to a Return.  The walk knows one thing about values: what `from_residual`
    returns is a failure, so a `Try::branch` of it (the caller's own `?` on the result of an expanded helper that failed with `?`)
    yields Break and only that arm of the following switch is taken; such a hand-over `branch` is not reported as a call."""
    seen, out = set(), []
    st = [(start, frozenset(), frozenset(), frozenset())]     # block, residual locals, Break-valued locals, discriminants known to be 1
    blocks_seen = set()
    while st:
        b, R, BR, D1 = st.pop()
        if (b, R, BR, D1) in seen:
            continue
        seen.add((b, R, BR, D1))
        blocks_seen.add(b)
        blk = cfg.blocks[b]
        R, BR, D1 = set(R), set(BR), set(D1)
        for s_ in blk["stmts"]:
            if s_["k"] != "Assign" or s_["place"].get("p"):
                continue
            dst, rv = s_["place"]["l"], s_["rv"]
            for coll in (R, BR, D1):
                coll.discard(dst)
            if rv["k"] == "Use" and rv["op"].get("k") in ("copy", "move"):
                src = rv["op"]["place"]
                if not src.get("p"):
                    if src["l"] in R:
                        R.add(dst)
                    if src["l"] in BR:
                        BR.add(dst)
                elif src["l"] in BR:
                    R.add(dst)          # the payload of a Break: the residual itself
            elif rv["k"] == "Discriminant" and rv["place"]["l"] in BR and not rv["place"].get("p"):
                D1.add(dst)
        t = blk["term"]
        succ = list(cfg.succ[b])
        if t["k"] == "Call":
            c = mir.callee(t)
            dst = (t.get("dest") or {}).get("l")
            a0 = t["args"][0] if t.get("args") else {}
            arg_res = a0.get("k") in ("copy", "move") and not a0["place"].get("p") and a0["place"]["l"] in R
            for coll in (R, BR, D1):
                coll.discard(dst)
            if c.endswith("Try>::branch") and arg_res:
                BR.add(dst)
            else:
                out.append((b, c))
                if c.endswith("from_residual") and dst is not None and not (t.get("dest") or {}).get("p"):
                    R.add(dst)
        elif t["k"] == "SwitchInt" and (t["discr"].get("place") or {}).get("l") in D1 and not (t["discr"].get("place") or {}).get("p"):
            one = [x[1] for x in t.get("targets", []) if x[0] == 1]
            succ = one if one else ([t["otherwise"]] if t.get("otherwise") is not None else [])
        for n_ in succ:
            st.append((n_, frozenset(R), frozenset(BR), frozenset(D1)))
    return out, blocks_seen


def assigns_none_to_return(cfg, blocks):
    for b in blocks:
        for s in cfg.blocks[b]["stmts"]:
            if s["k"] == "Assign" and s["place"]["l"] == 0 and not s["place"].get("p") and s["rv"]["k"] == "Aggregate" \
                    and s["rv"].get("variant") == "None":
                return True
    return False


def q1(ctx, F):
    fn = F.fn(SCORE)
    cfg = mir.Cfg(fn)
    flag = param_local(fn, "continue_running")
    defs = mir.copy_sources(fn)
    loads = []
    for b, t in cfg.calls(lambda c, t: c.endswith("Atomic::<bool>::load") or c.endswith("AtomicBool::load")):
        r, _ = mir.root_of(t["args"][0]["place"]["l"], defs) if t["args"][0].get("k") in ("copy", "move") else (None, None)
        if r == flag:
            loads.append((b, t))
    ctx.floor("C07.Q1", "polls of the stop flag in the node function", len(loads), 1)
    if not loads:
        return
    lb, lt = loads[0]
    others = [(b, mir.callee(t)) for b, t in cfg.calls() if b != lb]
    not_dom = [(b, c) for b, c in others if not cfg.dominates(lb, b)]
    ctx.check("C07.Q1", "poll-dominates-all-node-work", not not_dom, fn=SCORE, file=fn["file"], line=mir.span_line(lt),
              what="work is done in a search node before the stop flag is polled (table probe, move generation, recursion): after a stop "
                   "request the search keeps expanding nodes", expected="load(continue_running) dominates every other call",
              found=[(c, cfg.line_of_block(b)) for b, c in not_dom][:5])
    # the cleared-flag branch returns None without any call
    ok = False
    found = None
    # the first switch after the load whose discriminant derives from the loaded value (through copies and `!`)
    cur = lt["target"]
    hops = 0
    while cfg.blocks[cur]["term"]["k"] == "Goto" and hops < 5:
        cur = cfg.blocks[cur]["term"]["target"]
        hops += 1
    t2 = cfg.blocks[cur]["term"]
    if t2["k"] == "SwitchInt" and t2["discr"].get("k") in ("copy", "move"):
        l = t2["discr"]["place"]["l"]
        neg = 0
        for _ in range(8):
            if l == lt["dest"]["l"]:
                break
            ds = defs.get(l) or []
            if len(ds) != 1:
                break
            rv = ds[0]
            if rv["k"] == "Use" and rv["op"].get("k") in ("copy", "move"):
                l = rv["op"]["place"]["l"]
            elif rv["k"] == "UnaryOp" and rv.get("op") == "Not" and rv["a"].get("k") in ("copy", "move"):
                neg ^= 1
                l = rv["a"]["place"]["l"]
            else:
                break
        if l == lt["dest"]["l"]:
            zero = [x[1] for x in t2["targets"] if x[0] == 0]
            nonzero = [x[1] for x in t2["targets"] if x[0] != 0] or [t2["otherwise"]]
            if not zero:
                zero = [t2["otherwise"]]
            cleared = zero if neg == 0 else nonzero      # flag value false <=> switch value 0 (or 1 after a `!`)
            calls, seen = calls_on_paths(cfg, cleared[0])
            ok = not calls and assigns_none_to_return(cfg, seen)
            found = {"calls on the cleared-flag path": calls, "returns None": assigns_none_to_return(cfg, seen)}
    ctx.check("C07.Q1", "cleared-flag-returns-abort-at-once", ok, fn=SCORE, file=fn["file"], line=mir.span_line(lt),
              what="when the flag is cleared the node must return the abort value (None) immediately", found=found)


def recursive_sites(cfg, callee_name):
    return cfg.calls(lambda c, t: c == callee_name)


def uses_of_local(cfg, l):
    n = 0
    for b in cfg.blocks:
        for s in b["stmts"]:
            if s["k"] == "Assign":
                for pl in mir.places_read_by_rvalue(s["rv"]):
                    if pl["l"] == l:
                        n += 1
        t = b["term"]
        if t["k"] == "Call":
            for a in t["args"]:
                if a.get("k") in ("copy", "move") and a["place"]["l"] == l:
                    n += 1
        if t["k"] == "SwitchInt" and t["discr"].get("k") in ("copy", "move") and t["discr"]["place"]["l"] == l:
            n += 1
    return n


def q2(ctx, F):
    total = 0
    for path in (SCORE, ENTRY):
        fn = F.fn(path)
        cfg = mir.Cfg(fn)
        sites = recursive_sites(cfg, SCORE)
        for k, (b, t) in enumerate(sites):
            total += 1
            d = t["dest"]["l"]
            nxt = cfg.blocks[t["target"]]["term"] if t.get("target") is not None else {}
            via_try = nxt.get("k") == "Call" and mir.callee(nxt).endswith("Try>::branch") and \
                any(a.get("k") in ("copy", "move") and a["place"]["l"] == d for a in nxt.get("args", []))
            only_use = uses_of_local(cfg, d) == 1
            ok = via_try and only_use
            abort_clean = False
            found = {"result goes straight into `?`": via_try, "only use of the result": only_use}
            if via_try:
                sw = cfg.blocks[nxt["target"]]["term"]
                arms = [x[1] for x in sw.get("targets", [])] + [sw.get("otherwise")] if sw["k"] == "SwitchInt" else []
                for a in arms:
                    if a is None or cfg.blocks[a]["term"]["k"] == "Unreachable":
                        continue
                    calls, seen = calls_on_paths(cfg, a)
                    if any(c.endswith("from_residual") for _, c in calls):
                        # the abort arm: must be the one reaching from_residual *first*
                        first = cfg.blocks[a]["term"]
                        # walk straight-line to the first call
                        cur = a
                        hops = 0
                        while cfg.blocks[cur]["term"]["k"] == "Goto" and hops < 10:
                            cur = cfg.blocks[cur]["term"]["target"]
                            hops += 1
                        first = cfg.blocks[cur]["term"]
                        if first["k"] == "Call" and mir.callee(first).endswith("from_residual"):
                            bad = [(c, cfg.line_of_block(bb)) for bb, c in calls if not c.endswith("from_residual")]
                            abort_clean = not bad
                            found["calls after the abort was seen"] = bad
            ctx.check("C07.Q2", "abort-propagated:%s#%d" % (path.split("::")[-1], k), ok and abort_clean, fn=path, file=fn["file"],
                      line=mir.span_line(t),
                      what="an aborted recursive search (None) must be propagated with `?` straight to the caller: the result is used "
                           "otherwise or more work (push / move generation / recursion / table insertion) follows the abort",
                      expected="result -> Try::branch -> None arm -> return, no call in between", found=found)
    ctx.floor("C07.Q2", "recursive call sites", total, 3)       # 6 on the reference tree; a refactor may merge sites
    # driver: let-else on the entry result
    fn = F.fn(DRIVER)
    cfg = mir.Cfg(fn)
    sites = cfg.calls(lambda c, t: c == ENTRY)
    ctx.floor("C07.Q2", "driver call sites of get_best_move_entry", len(sites), 1)
    for b, t in sites:
        d = t["dest"]["l"]
        # find the switch on discriminant(d)
        cur = t["target"]
        disc = None
        ok = False
        found = None
        blk = cfg.blocks[cur]
        for s in blk["stmts"]:
            if s["k"] == "Assign" and s["rv"]["k"] == "Discriminant" and s["rv"]["place"]["l"] == d:
                disc = s["place"]["l"]
        sw = blk["term"]
        if disc is not None and sw["k"] == "SwitchInt" and (sw["discr"].get("place") or {}).get("l") == disc:
            none_arm = [x[1] for x in sw["targets"] if x[0] == 0]
            if not none_arm and [x for x in sw["targets"] if x[0] == 1] and \
                    cfg.blocks[sw["otherwise"]]["term"]["k"] != "Unreachable":
                none_arm = [sw["otherwise"]]
            if none_arm:
                calls, seen = calls_on_paths(cfg, none_arm[0])
                ok = not calls
                found = calls
        ctx.check("C07.Q2", "abort-propagated:driver", ok, fn=DRIVER, file=fn["file"], line=mir.span_line(t),
                  what="when an iteration is aborted the driver must return at once with the move it already has",
                  expected="None arm of the let-else reaches the return without any call", found=found)


def q3(ctx, F):
    fn = F.fn(DRIVER)
    body = fn["hir"]["body"]
    env = hir.Env(fn["hir"], F)
    sym = hir.Sym(env, F)
    # what is returned
    rets = [n for n, _ in hir.walk(body) if n.get("k") == "Ret" and n.get("e") is not None]
    tail = hir.strip(body).get("expr")
    returned = [hir.strip(r["e"]) for r in rets] + ([hir.strip(tail)] if tail is not None else [])
    names = set()
    allvars = True
    for r in returned:
        if r.get("k") == "Path" and r["to"].get("res") == "local":
            names.add(r["to"]["name"])
        elif r.get("k") == "Call" and (hir.callee_of(r) or "").startswith("core::panicking"):
            pass
        else:
            allvars = False
    ctx.check("C07.Q3", "driver-returns-one-variable", allvars and len(names) == 1, fn=DRIVER, file=fn["file"],
              what="every return of the driver must return the running best move", found=[hir.fmt(sym(r), 60) for r in returned])
    ctx.floor("C07.Q3", "driver return sites", len(returned), 2)
    if len(names) != 1:
        return
    var = list(names)[0]
    defs = []
    for n, anc in hir.walk(body):
        if n.get("k") == "SLet" and n["pat"].get("k") == "PBind" and n["pat"]["name"] == var and n.get("init") is not None:
            defs.append(("init", n["init"], n))
        if n.get("k") == "Assign" and hir.strip(n["l"]).get("to", {}).get("name") == var:
            defs.append(("assign", n["r"], n))
    n_defs = 0
    for kind, e, node in defs:
        n_defs += 1
        cls, detail = classify_move_source(e, fn, F, sym)
        ctx.check("C07.Q3", "definition-of-returned-move:%s:%s" % (kind, cls), cls in ("first-of-checked-list", "iteration-result"),
                  fn=DRIVER, file=fn["file"], line=hir.line(node),
                  what="a definition of the move the driver returns is not derived from a legal move list: if the stop flag is already "
                       "cleared at the first poll (`go` immediately followed by `stop`, or a zero time budget) this value is announced - "
                       "`bestmove none` although legal moves exist",
                  expected="first() of a buffer filled by get_moves(.., true) on the searched game, or the move of a completed iteration",
                  found=detail)
    ctx.floor("C07.Q3", "definitions of the returned move", n_defs, 2)


def classify_move_source(e, fn, F, sym):
    e0 = hir.strip(e)
    # literal None
    s = sym(e0)
    if s[0] == "variant" and s[1].endswith("::None"):
        return "constant-None", "None"
    # a block: { let mut moves = ..; X.get_moves(&mut moves, true); moves.first().copied() }
    if e0.get("k") == "Block":
        gm = [c for c, _ in hir.walk(e0) if c.get("k") == "MethodCall" and hir.callee_of(c) == "chess::Game::get_moves"]
        tailx = e0.get("expr")
        if len(gm) == 1 and tailx is not None:
            flag = hir.strip(gm[0]["args"][1]).get("v")
            buf = hir.strip(gm[0]["args"][0]).get("to", {}).get("name")
            recv = hir.fmt(sym(gm[0]["recv"]), 80)
            t = hir.fmt(sym(tailx), 200)
            firsts = ("first(%s)" % buf) in t.replace("<[T]>::", "").replace("<impl [T]>::", "") or ("(%s)" % buf) in t
            of_game = recv in ("<T as std::clone::Clone>::clone(game)", "<chess::Game as std::clone::Clone>::clone(game)", "game") or \
                recv.endswith("clone(game)")
            if flag is True and firsts and of_game and ("first" in t):
                return "first-of-checked-list", {"buffer": buf, "receiver": recv, "value": t}
            return "unverified-list", {"checked": flag, "receiver": recv, "value": t}
    # `moves.first().copied()` of a buffer filled elsewhere in the function (the statements of an expanded helper): provenance (S7)
    from .prov import Prov
    pv = Prov(fn, F)
    cls = pv.classify(e0)
    if cls[0] == "first-of-checked":
        recv = pv.buffers[cls[1]]["recv"]
        if recv == "game" or recv.endswith("clone(game)"):
            return "first-of-checked-list", {"buffer": cls[1], "receiver": recv, "value": hir.fmt(s, 120)}
        return "unverified-list", {"checked": True, "receiver": recv, "value": hir.fmt(s, 120)}
    if cls[0] == "first-of-UNCHECKED":
        return "unverified-list", {"checked": False, "value": hir.fmt(s, 120)}
    # a component of the let-else pattern on get_best_move_entry
    if e0.get("k") == "Path" and e0["to"].get("res") == "local":
        nm = e0["to"]["name"]
        for n, anc in hir.walk(fn["hir"]["body"]):
            if n.get("k") == "SLet" and n.get("els") is not None and nm in hir.pat_names(n["pat"]):
                init = hir.fmt(sym(n["init"]), 200)
                if init.startswith("get_best_move_entry(") or "search::get_best_move_entry" in str(sym(n["init"])[1]):
                    pos = hir.pat_names(n["pat"]).index(nm)
                    return ("iteration-result" if pos == 0 else "other-component"), {"from": "get_best_move_entry", "component": pos}
    return "other", hir.fmt(s, 120)


def q4(ctx, F):
    before, nv = len(ctx.instances), len(ctx.violations)
    p14.o4(ctx, F)
    roles = p14.closures_by_role(F)
    for i in ctx.instances[before:]:
        i["rule"] = "C07.Q4(" + i["rule"] + ")"
    keep = []
    for v in ctx.violations[nv:]:
        v["rule"] = "C07.Q4(" + v["rule"] + ")"
        v["key"] = "C07.Q4|" + v["key"]
    # drop the join-liveness instances (they belong to C14); keep the stop-ordering one
    ctx.instances[before:] = [i for i in ctx.instances[before:] if "stop:" in i["instance"]]
    ctx.violations[nv:] = [v for v in ctx.violations[nv:] if "stop:" in v["instance"]]
    if "timer" in roles:
        tcfg = mir.Cfg(roles["timer"])
        st = [s for s in p14.stores(tcfg) if s[1] == 0]
        ctx.check("C07.Q4", "timer-clears-the-flag", len(st) == 1, fn=roles["timer"]["path"], file="src/uci.rs",
                  what="the timer thread must clear the running flag when the budget is used up", found=len(st))
