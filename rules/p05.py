"""C05 - different positions get different hashes.

Decides the single-feature clause as a small proof whose premises are checked here:
the hash is the XOR of one key per square, the side key and one state key (C04.K5, re-checked);
all keys are pairwise distinct and non-zero (D1); index maps are injective so distinct features
select distinct keys (D3); every feature is mixed in on every path (D4).
For the pair-collision clause only a minimum-distance bound is decided: no 3 or 4 keys XOR to zero (D2)
and no one-ply change cancels (D5).  Collision freedom over millions of explored positions is a
runtime quantity and is NOT claimed.
"""
from . import core, hir
from .common import discr_map, sym_fn, gamestate_bit_facts
from . import p04

LEVEL = "other"
EXPLANATION = ("Key-set analysis on the const-evaluated zobrist tables (distinct, non-zero, no XOR dependency of weight "
               "<= 4, no one-ply cancellation), injectivity of the index maps by case folding of their summaries, and "
               "the mixing obligations (every feature's key enters the hash on every path).")


def keys(F):
    ks = [("BLACK_TO_MOVE", F.const_int("chess::zobrist::BLACK_TO_MOVE")),
          ("EMPTY_PLACE", F.const_int("chess::zobrist::EMPTY_PLACE"))]
    ks += [("STATE[%d]" % i, v) for i, v in enumerate(F.const_ints("chess::zobrist::STATE", 8))]
    ks += [("PIECE[%d][%d]" % (i // 12, i % 12), v) for i, v in enumerate(F.const_ints("chess::zobrist::PIECE", 8))]
    return ks


def run(ctx):
    F = ctx.facts
    ks = keys(F)
    ctx.floor("C05.D1", "keys", len(ks), 1026)
    vals = [v for _, v in ks]
    zero = [n for n, v in ks if v == 0]
    ctx.check("C05.D1", "keys-non-zero", not zero, file="src/chess/zobrist.rs",
              what="a zobrist key is zero: the feature it stands for does not change the hash", found=zero[:5])
    seen, dup = {}, []
    for n, v in ks:
        if v in seen:
            dup.append((seen[v], n))
        seen[v] = n
    ctx.check("C05.D1", "keys-pairwise-distinct", not dup, file="src/chess/zobrist.rs",
              what="two features share a zobrist key: positions differing in exactly those features collide",
              found=dup[:5], expected="1026 distinct keys")
    # D2: weight-3 and weight-4 dependencies
    pair = {}
    dep4 = []
    n = len(vals)
    for i in range(n):
        vi = vals[i]
        for j in range(i + 1, n):
            x = vi ^ vals[j]
            if x in pair:
                dep4.append((ks[i][0], ks[j][0]) + tuple(ks[k][0] for k in pair[x]))
                if len(dep4) > 5:
                    break
            else:
                pair[x] = (i, j)
    ctx.extra["pair_xors"] = len(pair)
    dep3 = [(n_, v) for n_, v in ks if v in pair]
    ctx.check("C05.D2", "no-3-key-dependency", not dep3, file="src/chess/zobrist.rs",
              what="three keys XOR to zero", found=[(a, [ks[k][0] for k in pair[v]]) for a, v in dep3[:3]])
    ctx.check("C05.D2", "no-4-key-dependency", not dep4, file="src/chess/zobrist.rs",
              what="four keys XOR to zero (two different two-feature changes give the same hash)", found=dep4[:3])
    # table shapes: one state key per byte value, one piece key per (square, piece)
    st = F.const_ints("chess::zobrist::STATE", 8)
    pc = F.const_ints("chess::zobrist::PIECE", 8)
    from .common import array_dims
    pdims = array_dims(F.const("chess::zobrist::PIECE")["ty"], F)
    shape_ok = len(st) == 256 and len(pc) == 768 and pdims == [64, 12]
    ctx.check("C05.D3", "key-table-shapes", shape_ok, file="src/chess/zobrist.rs",
              what="the key tables no longer have one state key per state byte (256) and one piece key per square x piece (64 x 12): "
                   "distinct feature values must share keys", expected={"STATE": 256, "PIECE": "64 x 12"},
              found={"STATE": len(st), "PIECE": F.const("chess::zobrist::PIECE")["ty"]})
    if not shape_ok:
        return
    # D5: no one-ply change cancels: P[a][s]^P[a][e]^SIDE in {STATE[i]^STATE[j]} (incl. i=j -> 0)
    side = vals[0]
    state_pairs = {0}
    for i in range(256):
        for j in range(i + 1, 256):
            state_pairs.add(st[i] ^ st[j])
    hit = []
    for a in range(12):
        col = [pc[s * 12 + a] for s in range(64)]
        for s in range(64):
            for e in range(s + 1, 64):
                if (col[s] ^ col[e] ^ side) in state_pairs:
                    hit.append((a, s, e))
    ctx.extra["one_ply_patterns"] = 12 * 2016
    ctx.check("C05.D5", "no-quiet-move-cancels", not hit, file="src/chess/zobrist.rs",
              what="a quiet move together with a state change maps a position to its parent's hash", found=hit[:3])
    # D3: index maps injective
    D = discr_map(F)
    fn = F.fn("chess::piece::Piece::as_index")
    nf = sym_fn(fn, F)
    img = {}
    for o in ("White", "Black"):
        for t in ("Queen", "Rook", "Bishop", "Knight", "Pawn", "King"):
            v = hir.fold(nf, {("field", ("var", "self"), "owner"): ("variant", "chess::Player::" + o),
                              ("field", ("var", "self"), "piece_type"): ("variant", "chess::piece::PieceType::" + t)}, D)
            img.setdefault(hir.fmt(v, 60), []).append((o, t))
    ok = len(img) == 12 and set(img) == {repr(i) for i in range(12)}
    ctx.check("C05.D3", "as_index-bijection-onto-0..12", ok, fn=fn["path"], file=fn["file"], line=fn["span"][0],
              what="two piece kinds share a key column (or a column is out of range)",
              expected="12 (owner, kind) pairs -> 0..11 bijectively", found={k: v for k, v in list(img.items())[:13]})
    fn = F.fn("chess::position::Position::as_usize")
    nf = sym_fn(fn, F)
    img = {}
    for r in range(8):
        for c in range(8):
            v = hir.fold(nf, {("field", ("var", "self"), "0"): ("lit", r), ("field", ("var", "self"), "1"): ("lit", c)}, D)
            img.setdefault(hir.fmt(v, 60), []).append((r, c))
    ok = len(img) == 64 and set(img) == {repr(i) for i in range(64)}
    ctx.check("C05.D3", "as_usize-bijection-onto-0..64", ok, fn=fn["path"], file=fn["file"], line=fn["span"][0],
              what="two squares share a key row", expected="64 squares -> 0..63 bijectively",
              found=[(k, v) for k, v in img.items() if len(v) > 1][:3])
    recs, layout = gamestate_bit_facts(F)
    for key, ok, fnp, found in recs:
        ctx.check("C05.D3", "state-byte:" + key, ok, fn=fnp, file="src/chess/gamestate.rs",
                  what="the state byte no longer keeps the four rights and the en-passant file on disjoint bits",
                  found=found)
    # STATE indexed by whole byte, PIECE by (square, piece): C04.K4 instances re-evaluated here
    before = len(ctx.instances)
    p04.rule_k4(ctx, F)
    for i in ctx.instances[before:]:
        i["rule"] = "C05.D3(" + i["rule"] + ")"
    for v in ctx.violations:
        if v["rule"].startswith("C04."):
            v["rule"] = "C05.D3(" + v["rule"] + ")"
            v["key"] = "C05.D3|" + v["key"]
    # D4: every feature mixed in on every path
    rule_d4(ctx, F)
    before = len(ctx.instances)
    nv = len(ctx.violations)
    p04.rule_k5(ctx, F)
    p04.rule_k6(ctx, F, parts=("side",))     # which key an empty square carries / importer slot accounting is C04's concern
    for i in ctx.instances[before:]:
        i["rule"] = "C05.D4(" + i["rule"] + ")"
    for v in ctx.violations[nv:]:
        v["rule"] = "C05.D4(" + v["rule"] + ")"
        v["key"] = "C05.D4|" + v["key"]
    ctx.assume("C04.K5: the hash is exactly the XOR of per-square keys, the side key and one state key (re-checked here)")
    ctx.note("pair-collision clause: decided only as minimum distance 5 of the key set (no XOR dependency of <=4 keys)")


def rule_d4(ctx, F):
    """In push and pop, unconditionally (top-level statements of the body): exactly one xor of the side key,
    and the state key is xor-ed out before and in after the state stack changes."""
    for path, stack_op in (("chess::Game::push", ("push_unchecked", "push", "try_push")), ("chess::Game::pop", ("truncate", "pop"))):
        fn = F.fn(path)
        body = hir.strip(fn["hir"]["body"])
        env = hir.Env(fn["hir"], F)
        sym = hir.Sym(env, F)
        seq = []
        for st in body.get("stmts") or ():
            n = hir.strip(st)
            if n.get("k") == "AssignOp" and n.get("op") == "^=":
                l = hir.strip(n["l"])
                if l.get("k") == "Field" and l["name"] == "hash":
                    cls = p04.classify_hash_operand(sym(n["r"]), path)
                    seq.append(cls or "other")
                    continue
            for c, anc in hir.walk(n):
                if c.get("k") == "MethodCall" and c.get("name") in stack_op:
                    r = hir.strip(c["recv"])
                    if r.get("k") == "Field" and r["name"] == "state":
                        seq.append("STACK")
        side = seq.count("side-key")
        st_keys = [i for i, x in enumerate(seq) if x == "state-key(self.state())"]
        stack = [i for i, x in enumerate(seq) if x == "STACK"]
        ok = side == 1 and len(st_keys) == 2 and len(stack) == 1 and st_keys[0] < stack[0] < st_keys[1]
        ctx.check("C05.D4", "side-and-state-keys-swapped-unconditionally", ok, fn=path, file=fn["file"], line=fn["span"][0],
                  what="push/pop must xor the side key exactly once and swap the state key around the stack change on every path",
                  expected="[state-key, STACK, state-key] and one side-key among the top-level statements", found=seq)


def thorough(ctx):
    """Deeper structured dependencies: no capture (3 piece keys + the empty key) nor castling (4 piece keys) pattern, together with
    the side key and a state change, maps a position to its parent's hash."""
    F = ctx.facts
    ks = keys(F)
    vals = [v for _, v in ks]
    side, empty = vals[0], vals[1]
    st = vals[2:258]
    pc = vals[258:]
    state_pairs = {0}
    for i in range(256):
        for j in range(i + 1, 256):
            state_pairs.add(st[i] ^ st[j])
    hits = []
    n = 0
    for a in range(12):
        for b in range(12):
            if (a < 6) == (b < 6):
                continue     # captures take an enemy piece
            for s in range(64):
                ka = pc[s * 12 + a]
                for e in range(64):
                    if e == s:
                        continue
                    n += 1
                    x = ka ^ pc[e * 12 + a] ^ pc[e * 12 + b] ^ empty ^ side
                    if x in state_pairs:
                        hits.append((a, b, s, e))
    ctx.extra["capture_patterns"] = n
    ctx.check("C05.D5", "no-capture-cancels", not hits, file="src/chess/zobrist.rs",
              what="a capture together with a state change maps a position to its parent's hash", found=hits[:3])
    # castling: king and rook of one colour move on the home row
    hits = []
    for colour, row in ((0, 0), (6, 7)):
        K, R = 5 + colour, 1 + colour
        for (k0, k1, r0, r1) in ((4, 6, 7, 5), (4, 2, 0, 3)):
            sq = lambda c: row * 8 + c
            x = pc[sq(k0) * 12 + K] ^ pc[sq(k1) * 12 + K] ^ pc[sq(r0) * 12 + R] ^ pc[sq(r1) * 12 + R] ^ side
            if x in state_pairs:
                hits.append((colour, k1))
    ctx.check("C05.D5", "no-castling-cancels", not hits, file="src/chess/zobrist.rs",
              what="castling together with the rights it loses maps a position to its parent's hash", found=hits)
