"""Queries over the typed HIR trees emitted by the driver.

The central tool is `Sym`: forward substitution of single-assignment `let`s into a
normal form (nested tuples) so that rules compare *what an expression denotes* and not
how it is spelled (local names, temporaries, formatting, statement order).
This is value numbering on the syntax tree; nothing is executed.
"""

try:
    import json as _json, os as _os
    KNOWN_CONSTS = set(_json.load(open(_os.path.join(_os.path.dirname(_os.path.abspath(__file__)), "known_consts.json"))))
except Exception:
    KNOWN_CONSTS = None

# bodies of helper functions whose calls could not be expanded in the HIR (a `return` inside a loop): path -> fn hir.
# Dependence analyses follow calls into them (rules/inline.py fills it when the facts are loaded).
HELPER_HIR = {}
# the facts last loaded (rules/core.Facts sets it): `fold` takes its table helpers from here when none are passed
DEFAULT_FACTS = [None]

CHILD_KEYS = ("e", "l", "r", "f", "recv", "cond", "then", "else", "init", "body", "expr", "base", "i", "els", "guard")
LIST_KEYS = ("args", "elems", "stmts")


def kids(n):
    """Direct child expression/statement nodes (patterns excluded)."""
    if not isinstance(n, dict):
        return
    if n.get("k") in ("Block", "Loop"):
        for v in n.get("stmts") or ():
            if isinstance(v, dict) and "k" in v:
                yield v
        v = n.get("expr")
        if isinstance(v, dict) and "k" in v:
            yield v
        return
    for k in CHILD_KEYS:
        v = n.get(k)
        if isinstance(v, dict) and "k" in v:
            yield v
    for k in LIST_KEYS:
        for v in n.get(k) or ():
            if isinstance(v, dict) and "k" in v:
                yield v
    if n.get("k") == "Match":
        for a in n["arms"]:
            if a.get("guard"):
                yield a["guard"]
            yield a["body"]
    if n.get("k") == "Struct":
        for f in n["fields"]:
            yield f["e"]
    if n.get("k") in ("PGuard",):
        yield n["cond"]


def walk(n, anc=()):
    """Pre-order walk yielding (node, ancestors)."""
    yield n, anc
    a2 = anc + (n,)
    for c in kids(n):
        yield from walk(c, a2)


def find(n, pred):
    return [x for x, _ in walk(n) if pred(x)]


def line(n):
    sp = n.get("sp") or n.get("span")
    if not sp:
        return None
    return sp[4] if len(sp) > 4 else sp[0]


def raw_line(n):
    sp = n.get("sp") or n.get("span")
    return sp[0] if sp else None


def order_key(n):
    """source order of two nodes of one function: position of the node (for the statements of an expanded helper: of the call
    site), then the position it had inside the helper it came from"""
    sp = n.get("sp") or n.get("span") or [0, 0]
    osp = n.get("osp") or [0, 0]
    return (sp[0], sp[1], osp[0], osp[1])


def strip(n):
    """Remove wrappers that do not change the value."""
    while isinstance(n, dict):
        k = n.get("k")
        if k in ("Use", "Type", "SSemi"):
            n = n["e"]
        elif k == "AddrOf":
            n = n["e"]
        elif k == "Block" and not n.get("stmts") and n.get("expr") is not None:
            n = n["expr"]
        elif k == "Unary" and n.get("op") == "Deref":
            n = n["e"]
        else:
            break
    return n


def callee_of(n):
    """Resolved callee path of a Call/MethodCall node, else None."""
    if n.get("k") == "Call":
        c = n.get("callee")
        if c:
            return c.get("resolved") or c.get("path")
        return None
    if n.get("k") == "MethodCall":
        return n.get("resolved") or n.get("callee")
    return None


def short(path):
    """Last two segments of a def path without generic noise: `chess::Game::push` -> `Game::push`."""
    if path is None:
        return None
    p = path
    # strip leading `<T as Trait>::` forms to Trait::method of T
    segs = split_path(p)
    return "::".join(segs[-2:])


def split_path(p):
    out, depth, cur = [], 0, ""
    i = 0
    while i < len(p):
        c = p[i]
        if c in "<([":
            depth += 1
        elif c in ">)]":
            depth -= 1
        if c == ":" and depth == 0 and p[i:i + 2] == "::":
            out.append(cur)
            cur = ""
            i += 2
            continue
        cur += c
        i += 1
    out.append(cur)
    return out


def calls(root, suffix):
    """All Call/MethodCall nodes under root whose resolved callee ends with `suffix`."""
    res = []
    for n, anc in walk(root):
        c = callee_of(n) if n.get("k") in ("Call", "MethodCall") else None
        if c and (c == suffix or c.endswith("::" + suffix) or c.endswith(suffix)):
            res.append((n, anc))
    return res


def call_args(n):
    """Receiver + args for method calls, args for calls."""
    if n["k"] == "MethodCall":
        return [n["recv"]] + list(n["args"])
    return list(n["args"])


# --------------------------------------------------------------------------
# let-environment and symbolic normal form


class Env:
    """Single-assignment facts of one function body."""

    def __init__(self, fn_hir, facts=None):
        self.facts = facts
        self.defs = {}       # local id -> init node (for `let x = init` / tuple-lets)
        self.opaque = {}     # local id -> init node of lets kept opaque because they read `&mut` state (see Sym(through=True))
        self.assigned = {}   # local id -> number of re-assignments
        self.mutable = set()
        self.params = {}
        body = fn_hir["body"]
        self.mut_params = set()
        for p in fn_hir.get("params", []):
            self._bind_params(p["pat"])
            if str(p.get("ty", "")).startswith("&mut") and p["pat"].get("k") == "PBind":
                self.mut_params.add(p["pat"]["id"])
        for n, _ in walk(body):
            k = n.get("k")
            if k == "SLet" and n.get("init") is not None:
                self._bind(n["pat"], n["init"])
            elif k == "Let":
                self._bind(n["pat"], n["init"], refutable=True)
            elif k in ("Assign", "AssignOp"):
                t = strip(n["l"])
                while t.get("k") in ("Field", "Index"):
                    t = strip(t["e"])
                if t.get("k") == "Path" and t["to"].get("res") == "local":
                    self.assigned[t["to"]["id"]] = self.assigned.get(t["to"]["id"], 0) + 1
            elif k == "AddrOf" and n.get("mut"):
                t = strip(n["e"])
                if t.get("k") == "Path" and t["to"].get("res") == "local":
                    self.assigned[t["to"]["id"]] = self.assigned.get(t["to"]["id"], 0) + 1
            elif k == "Closure":
                for p in n.get("params", []):
                    self._bind_params(p)
        # `let mut it = <iterator>; it.all(..)`: a mutable local that is never assigned, never borrowed explicitly and used exactly
        # once is the value of its initialiser at that one use
        if self.mut_inits:
            uses = {}
            for n, _ in walk(body):
                if n.get("k") == "Path" and n["to"].get("res") == "local" and n["to"].get("id") in self.mut_inits:
                    uses[n["to"]["id"]] = uses.get(n["to"]["id"], 0) + 1
            for lid, init in self.mut_inits.items():
                if uses.get(lid, 0) == 1 and self.assigned.get(lid, 0) == 0 and not self._reads_mutable_state(init):
                    self.defs[lid] = init
                    self.mutable.discard(lid)

    mut_inits = None

    def _bind_params(self, pat):
        if pat["k"] == "PBind":
            self.params[pat["id"]] = pat["name"]
        for sub in pat.get("pats") or ():
            self._bind_params(sub)

    def _bind(self, pat, init, refutable=False):
        k = pat["k"]
        if k == "PBind" and not pat.get("sub"):
            if "Mut" in pat.get("mode", "") and "Not)" not in pat.get("mode", ""):
                self.mutable.add(pat["id"])
                if not refutable:
                    if self.mut_inits is None:
                        self.mut_inits = {}
                    self.mut_inits[pat["id"]] = init
                return      # `let mut x`: not substituted (its value may change, also through &mut self calls) - but see the end of __init__
            if not refutable and not self._reads_mutable_state(init):
                self.defs[pat["id"]] = init
            elif not refutable:
                self.opaque[pat["id"]] = init
        elif k == "PRef":
            self._bind(pat["pat"], init, refutable)
        elif k == "PTuple":
            i0 = strip(init)
            if i0.get("k") == "Tup" and len(i0["elems"]) == len(pat["pats"]):
                for p, e in zip(pat["pats"], i0["elems"]):
                    self._bind(p, e, refutable)
            elif i0.get("k") == "Match":
                # (a, b, c) = match x { P1 => (..), P2 => (..) }  -> per-component match
                def _tup(a):
                    b = strip(a["body"])
                    while b.get("k") == "Block" and not b.get("stmts") and b.get("expr") is not None:
                        b = strip(b["expr"])
                    return b if b.get("k") == "Tup" and len(b["elems"]) == len(pat["pats"]) else None
                # an arm that leaves (`_ => return None`) leaves in every component
                ok = all(_tup(a) is not None or diverges(a["body"]) for a in i0["arms"]) and any(_tup(a) is not None for a in i0["arms"])
                if ok:
                    for idx, p in enumerate(pat["pats"]):
                        comp = dict(i0)
                        comp["arms"] = [dict(a, body=_tup(a)["elems"][idx]) if _tup(a) is not None else a for a in i0["arms"]]
                        self._bind(p, comp, refutable)

    def _reads_mutable_state(self, init):
        """A value computed from a `&mut` parameter may differ between its definition and a later use
        (the referent is mutated in between), so such lets are kept as opaque variables."""
        if not self.mut_params:
            return False
        for n, _ in walk(init):
            if n.get("k") == "Path" and n["to"].get("res") == "local" and n["to"]["id"] in self.mut_params:
                return True
        return False

    def is_single(self, lid):
        return lid in self.defs and self.assigned.get(lid, 0) == 0


class PK(tuple):
    """pattern key that also remembers the names bound at each position of a tuple-struct / struct pattern
    (compares and hashes like the plain tuple) and the refutable sub-patterns of its fields (`Normal { captured: Some(v), .. }`)"""
    binds = None
    sub = None
    names = None
    paths = None


class Undecided(Exception):
    pass


def _refutable(p):
    """can this (sub-)pattern fail to match? (bindings, wildcards and references to them cannot)"""
    k = p.get("k")
    if k in ("PWild", "PMissing"):
        return False
    if k == "PBind":
        return bool(p.get("sub")) and _refutable(p["sub"])
    if k == "PRef":
        return _refutable(p["pat"])
    if k == "PTuple":
        return any(_refutable(x) for x in p.get("pats") or ())
    return True


def _pk(t, binds):
    r = PK(t)
    r.binds = binds
    return r


def pat_paths(p, prefix=()):
    """{name: projection path} for every name a pattern binds: the path is a tuple of field names / tuple indices (as strings) from
    the scrutinee down to the bound part (`(Some(a), b)` -> a: ("0", "0"), b: ("1",)).  Names bound inside slice or or-patterns are
    left out (no fixed projection)."""
    out = {}
    if not isinstance(p, dict):
        return out
    k = p.get("k")
    if k == "PBind":
        out[p["name"]] = prefix
        if p.get("sub"):
            out.update(pat_paths(p["sub"], prefix))
    elif k == "PRef":
        out.update(pat_paths(p["pat"], prefix))
    elif k in ("PTupleStruct", "PTuple"):
        for i, x in enumerate(p.get("pats") or ()):
            out.update(pat_paths(x, prefix + (str(i),)))
    elif k == "PStruct":
        for f in p.get("fields") or ():
            out.update(pat_paths(f["pat"], prefix + (f["name"],)))
    return out


def project(sc, path):
    """the normal form of `sc` projected along a pat_paths path (as nested field terms: fold resolves them on known values)"""
    for fld in path:
        sc = ("field", sc, fld)
    return sc


def pat_key(p, facts=None):
    r = _pat_key(p, facts)
    if isinstance(r, tuple) and isinstance(p, dict) and p.get("k") in ("PTupleStruct", "PTuple", "PStruct", "PRef", "PBind"):
        paths = pat_paths(p)
        if paths:
            if not isinstance(r, PK):
                r = _pk(r, None)
            r.paths = paths
    return r


def _pat_key(p, facts=None):
    k = p["k"]
    if k == "PWild":
        return "_"
    if k == "PBind":
        return "_" if not p.get("sub") else pat_key(p["sub"], facts)
    if k == "PExpr":
        e = p["e"]
        if e["k"] == "PLit":
            return ("lit", e.get("v"))
        to = e["to"]
        if to.get("dk", "").startswith("Ctor") or to.get("dk") == "Variant":
            return ("variant", to.get("ctor_of") or to["path"])
        return ("const", to.get("path"))
    if k == "PTupleStruct":
        to = p["to"]
        binds = tuple((x.get("name") if x.get("k") == "PBind" and not x.get("sub") else None) for x in p.get("pats") or ())
        r = _pk(("variant", to.get("ctor_of") or to.get("path")), binds)
        r.sub = {str(i): pat_key(x, facts) for i, x in enumerate(p.get("pats") or ()) if _refutable(x)}
        return r
    if k == "PStruct":
        to = p["to"]
        binds = {f["name"]: (f["pat"].get("name") if f["pat"].get("k") == "PBind" and not f["pat"].get("sub") else None) for f in p.get("fields") or ()}
        r = _pk(("variant", to.get("ctor_of") or to.get("path")), binds)
        r.sub = {f["name"]: pat_key(f["pat"], facts) for f in p.get("fields") or () if _refutable(f["pat"])}
        return r
    if k == "POr":
        return ("or",) + tuple(pat_key(x, facts) for x in p["pats"])
    if k == "PRange":
        lo = p.get("lo") or {}
        hi = p.get("hi") or {}
        return ("range", lo.get("v"), hi.get("v"), p.get("end"))
    if k == "PTuple":
        return ("tup",) + tuple(pat_key(x, facts) for x in p["pats"])
    if k == "PRef":
        return pat_key(p["pat"], facts)
    if k == "PSlice":
        # [a, b @ 1..=3, rest @ .., z]: element keys before / after the rest pattern, the names bound at each position
        bef, aft = list(p.get("before") or ()), list(p.get("after") or ())
        r = _pk(("PSlice", tuple(pat_key(x, facts) for x in bef), p.get("mid") is not None, tuple(pat_key(x, facts) for x in aft)), None)
        r.names = (tuple(_top_name(x) for x in bef), tuple(_top_name(x) for x in aft))
        return r
    return (k,)


def _top_name(p):
    while p.get("k") == "PRef":
        p = p["pat"]
    return p.get("name") if p.get("k") == "PBind" else None


def pat_names(p):
    out = []
    if not isinstance(p, dict):
        return out
    if p.get("k") == "PBind":
        out.append(p["name"])
        if p.get("sub"):
            out += pat_names(p["sub"])
    for key in ("pats", "before", "after"):
        for s_ in p.get(key) or ():
            out += pat_names(s_)
    for f in p.get("fields") or ():
        out += pat_names(f["pat"])
    if isinstance(p.get("pat"), dict):
        out += pat_names(p["pat"])
    if isinstance(p.get("mid"), dict):
        out += pat_names(p["mid"])
    return out


def _node_count(n, limit):
    c = 0
    st = [n]
    while st and c < limit:
        x = st.pop()
        if isinstance(x, dict):
            c += 1
            st.extend(v for v in x.values() if isinstance(v, (dict, list)))
        elif isinstance(x, list):
            st.extend(x)
    return c


class Sym:
    """Normal form builder."""

    def __init__(self, env, facts=None, depth=40, through=False, keep=()):
        """through=True also substitutes single-assignment lets whose initialiser reads `&mut` state (the value *at the
        definition*): for rules that ask where a value comes from, not what it equals at a later point."""
        self.env = env
        self.facts = facts
        self.depth = depth
        self.through = through
        self.keep = set(keep)        # local names never substituted (kept as variables) even when single-assignment

    def __call__(self, n, d=0):
        return self.sym(n, d)

    def sym(self, n, d=0):
        if n is None:
            return ("none",)
        n = strip(n)
        k = n.get("k")
        if d > self.depth:
            return ("deep",)
        s = lambda x: self.sym(x, d + 1)
        if k == "Lit":
            return ("lit", n.get("v"))
        if k == "Path":
            to = n["to"]
            r = to.get("res")
            if r == "local":
                lid = to["id"]
                if to["name"] in self.keep:
                    return ("var", to["name"])
                if self.env.is_single(lid):
                    return s(self.env.defs[lid])
                if self.through and lid in self.env.opaque and self.env.assigned.get(lid, 0) == 0:
                    return s(self.env.opaque[lid])
                return ("var", to["name"])
            if r == "def":
                dk = to.get("dk", "")
                if dk.startswith("Ctor"):
                    return ("variant", to.get("ctor_of") or to["path"])
                if dk.startswith("Const") or dk.startswith("AssocConst"):
                    # a constant that does not exist on the reference tree (a literal that a refactor gave a name) is its value
                    if self.facts is not None and KNOWN_CONSTS is not None and to["path"] not in KNOWN_CONSTS:
                        r_ = resolve_consts(("const", to["path"]), self.facts)
                        if r_[0] in ("lit", "arr"):
                            return r_
                        # ... or its initialiser as written, when the value holds references (a table of tables)
                        c_ = self.facts.consts.get(to["path"])
                        if c_ and c_.get("hir") and "&" in str(c_.get("ty")) and d < self.depth and _node_count(c_["hir"]["body"], 400) < 400:
                            return s(c_["hir"]["body"])
                    return ("const", to["path"])
                return ("def", to["path"])
            return ("path", str(to))
        if k == "Field":
            return ("field", s(n["e"]), n["name"])
        if k == "Index":
            return ("index", s(n["e"]), s(n["i"]))
        if k == "MethodCall":
            return ("call", callee_of(n) or ("?" + n["name"]), tuple(s(x) for x in call_args(n)))
        if k == "Call":
            c = n.get("callee")
            if c and c.get("dk", "").startswith("Ctor"):
                return ("ctor", c.get("ctor_of") or c["path"], tuple(s(x) for x in n["args"]))
            if not c and strip(n["f"]).get("to", {}).get("res") == "selfctor" and n.get("ty"):
                return ("ctor", n["ty"], tuple(s(x) for x in n["args"]))      # `Self(a, b)` inside an impl
            return ("call", callee_of(n) or ("?", s(n["f"])), tuple(s(x) for x in n["args"]))
        if k == "Binary":
            return ("bin", n["op"], s(n["l"]), s(n["r"]))
        if k == "Unary":
            if n["op"] == "Neg":
                inner = s(n["e"])
                if inner[0] == "lit" and isinstance(inner[1], int):
                    return ("lit", -inner[1])
                return ("neg", inner)
            if n["op"] == "Not":
                return ("not", s(n["e"]))
            return ("un", n["op"], s(n["e"]))
        if k == "Cast":
            return ("cast", s(n["e"]), n.get("ty"))
        if k == "Tup":
            return ("tup",) + tuple(s(x) for x in n["elems"])
        if k == "Array":
            return ("arr",) + tuple(s(x) for x in n["elems"])
        if k == "Struct":
            to = n["to"]
            return ("struct", to.get("ctor_of") or to.get("path"),
                    tuple(sorted((f["name"], s(f["e"])) for f in n["fields"])))
        if k == "Match":
            arms = []
            for a in n["arms"]:
                arms.append((pat_key(a["pat"]), s(a["guard"]) if a.get("guard") else None, s(a["body"])))
            return ("match", s(n["e"]), tuple(arms))
        if k == "If":
            return ("if", s(n["cond"]), s(n["then"]), s(n.get("else")))
        if k == "Let":
            return ("let", pat_key(n["pat"]), s(n["init"]), tuple(pat_names(n["pat"])))
        if k == "Closure":
            def pname(p):
                p0 = p
                while p0.get("k") == "PRef":
                    p0 = p0["pat"]
                if p0.get("k") == "PTuple" and p0.get("pats") and all(x.get("k") == "PBind" and not x.get("sub") for x in p0["pats"]):
                    return tuple(x["name"] for x in p0["pats"])       # `|(a, b)|`: the components of the one tuple argument
                return p.get("name") or (pat_names(p) + ["_"])[0]
            return ("closure", tuple(pname(p) for p in n.get("params", [])), s(n["body"]))
        if k == "Block":
            if n.get("expr") is not None and all(x.get("k") == "SLet" for x in n.get("stmts") or ()):
                return s(n["expr"])
            if n.get("expr") is not None:
                # the body of an expanded helper in value position: its value is the tail (its statements are effects, which
                # effect rules find by walking the tree, not through the value normal form)
                return s(n["expr"])
            return ("block", tuple(s(x) for x in n.get("stmts") or ()), s(n.get("expr")))
        if k == "SLet":
            return ("slet",)
        if k == "Ret":
            return ("ret", s(n.get("e")))
        if k == "Repeat":
            return ("repeat", s(n["e"]))
        return (k,)


def sym_int(t):
    """Integer value of a normal form if it is a literal (possibly cast), else None."""
    while isinstance(t, tuple) and t and t[0] == "cast":
        t = t[1]
    if isinstance(t, tuple) and t and t[0] == "lit" and isinstance(t[1], int) and not isinstance(t[1], bool):
        return t[1]
    return None


def fmt(t, maxlen=400):
    """Readable rendering of a normal form."""
    def r(t):
        if not isinstance(t, tuple):
            return repr(t)
        if not t:
            return "()"
        h = t[0]
        if h == "lit":
            return repr(t[1])
        if h == "var":
            return t[1]
        if h == "mfield":
            return "m." + t[1]
        if h in ("variant", "const", "def"):
            return short(t[1])
        if h == "field":
            return r(t[1]) + "." + t[2]
        if h == "call":
            name = short(t[1]) if isinstance(t[1], str) else "?"
            return "%s(%s)" % (name, ", ".join(r(x) for x in t[2]))
        if h == "ctor":
            return "%s(%s)" % (short(t[1]), ", ".join(r(x) for x in t[2]))
        if h == "bin":
            return "(%s %s %s)" % (r(t[2]), t[1], r(t[3]))
        if h == "not":
            return "!" + r(t[1])
        if h == "neg":
            return "-" + r(t[1])
        if h == "cast":
            return "(%s as %s)" % (r(t[1]), t[2])
        if h in ("tup", "arr"):
            return ("(%s)" if h == "tup" else "[%s]") % ", ".join(r(x) for x in t[1:])
        if h == "struct":
            return "%s{%s}" % (short(t[1]), ", ".join("%s: %s" % (a, r(b)) for a, b in t[2]))
        if h == "match":
            return "match %s {%s}" % (r(t[1]), "; ".join("%s => %s" % (pk(a[0]), r(a[2])) for a in t[2]))
        if h == "closure":
            return "|%s| %s" % (",".join(t[1]), r(t[2]))
        if h == "if":
            return "if %s {%s} else {%s}" % (r(t[1]), r(t[2]), r(t[3]))
        return "%s(%s)" % (h, ", ".join(r(x) for x in t[1:]))

    def pk(p):
        if isinstance(p, tuple) and p and p[0] in ("variant", "const"):
            return short(p[1])
        if isinstance(p, tuple) and p and p[0] == "lit":
            return repr(p[1])
        return str(p)
    out = r(t)
    return out if len(out) <= maxlen else out[:maxlen] + "..."


# --------------------------------------------------------------------------
# lexical guards: the conditions under which a node executes


def conj(t):
    """Split a normal-form condition on && into atoms."""
    if isinstance(t, tuple) and t and t[0] == "bin" and t[1] == "&&":
        return conj(t[2]) + conj(t[3])
    return [t]


def guards_of(target, root, sym):
    """Conditions (normal forms, with polarity) that lexically dominate `target` inside `root`:
    list of ("if", cond, True/False) / ("arm", scrutinee, pattern) / ("and", cond) entries, outermost first."""
    for n, anc in walk(root):
        if n is target:
            chain = anc + (n,)
            out = []
            for i in range(len(chain) - 1):
                p, c = chain[i], chain[i + 1]
                k = p.get("k")
                if k in ("Block", "Loop"):
                    # statements before `c` of the form `if C { continue/break/return }` : c runs only if !C
                    for st in p.get("stmts") or ():
                        if st is c:
                            break
                        s0 = strip(st)
                        # `let PAT = init else { exit };` : c runs only if init matches PAT (same form as an `if let` guard)
                        if s0.get("k") == "SLet" and s0.get("els") is not None and s0.get("init") is not None:
                            out.append(("if", ("let", pat_key(s0["pat"]), sym(s0["init"]), tuple(pat_names(s0["pat"]))), True))
                            continue
                        # `let x = match e { P1 => v, P2 => exit }` / `match e { P1 => {..}, _ => exit };` : c runs only if an arm
                        # that does not leave was taken
                        m0 = s0
                        if m0.get("k") == "SLet" and m0.get("els") is None and m0.get("init") is not None:
                            m0 = strip(m0["init"])
                        elif m0.get("k") in ("SSemi", "SExpr") and isinstance(m0.get("e"), dict):
                            m0 = strip(m0["e"])
                        if m0.get("k") == "Match" and m0.get("src") == "Normal" and m0 is not c:
                            dv = [diverges(a["body"]) for a in m0["arms"]]
                            if any(dv) and not all(dv):
                                out.append(("if", ("match", sym(m0["e"]), tuple((pat_key(a["pat"]), sym(a["guard"]) if a.get("guard") else None,
                                                                                   ("lit", not d_)) for a, d_ in zip(m0["arms"], dv))), True, "exit"))
                                continue
                        # `if A { .. } else { exit }` : c runs only if A
                        if s0.get("k") == "If" and s0.get("else") is not None and diverges(s0["else"]) and not diverges(s0["then"]):
                            for a_ in conj(sym(s0["cond"])):
                                out.append(("if", a_, True))
                            continue
                        # `if A {exit} else if B {exit}` (no final else): c runs only if !A and !B
                        chain_conds = []
                        cur = s0
                        handled = False
                        while cur.get("k") == "If" and diverges(cur["then"]):
                            chain_conds.append(cur["cond"])
                            if cur.get("else") is None:
                                for cc in chain_conds:
                                    out.append(("if", sym(cc), False))
                                handled = True
                                break
                            cur = strip(cur["else"])
                        if not handled:
                            # `if A { if B { exit } }` : c runs only if !(A && B)
                            ec = exit_condition(s0, sym)
                            if ec is not None and ec != ("lit", True):
                                out.append(("if", ec, False))
                if k == "SLet" and c is p.get("els") and p.get("init") is not None:
                    # inside the `else` block of a let-else: the pattern did not match
                    out.append(("if", ("let", pat_key(p["pat"]), sym(p["init"]), tuple(pat_names(p["pat"]))), False))
                if k == "If":
                    if c is p.get("then"):
                        for a in conj(sym(p["cond"])):
                            out.append(("if", a, True))
                    elif c is p.get("else"):
                        out.append(("if", sym(p["cond"]), False))
                elif k == "Match":
                    for a in p["arms"]:
                        if c is a["body"]:
                            # the arms before this one (pattern, guard): this arm is taken only if none of them was
                            earlier = tuple((pat_key(a0["pat"]), sym(a0["guard"]) if a0.get("guard") else None)
                                            for a0 in p["arms"][:p["arms"].index(a)])
                            out.append(("arm", sym(p["e"]), pat_key(a["pat"]), tuple(pat_names(a["pat"])), earlier))
                            if a.get("guard"):
                                for g in conj(sym(a["guard"])):
                                    out.append(("if", g, True))
                elif k == "Binary" and p.get("op") == "&&" and c is p.get("r"):
                    for a in conj(sym(p["l"])):
                        out.append(("if", a, True))
                elif k == "Binary" and p.get("op") == "||" and c is p.get("r"):
                    out.append(("if", sym(p["l"]), False))
            return [_unnot(x) for x in out]
    return None


def _unnot(g):
    """("if", !c, pol) -> ("if", c, !pol): one spelling per condition"""
    if g[0] == "if" and isinstance(g[1], tuple):
        c, pol = g[1], g[2]
        while isinstance(c, tuple) and c and c[0] == "not":
            c, pol = c[1], (not pol)
        return ("if", c, pol) + tuple(g[3:])
    return g


def exit_condition(n, sym):
    """Condition under which statement n leaves the enclosing block (only for pure nests of `if` without else), else None."""
    n = strip(n)
    if n.get("k") in ("Continue", "Break", "Ret"):
        return ("lit", True)
    if n.get("k") == "Block":
        sts = list(n.get("stmts") or [])
        if n.get("expr") is not None:
            sts.append(n["expr"])
        if len(sts) != 1:
            return None
        return exit_condition(sts[0], sym)
    if n.get("k") == "If" and n.get("else") is None:
        inner = exit_condition(n["then"], sym)
        if inner is None:
            return None
        c = sym(n["cond"])
        return c if inner == ("lit", True) else ("bin", "&&", c, inner)
    return None


import re as _re_mod
_STD_INT_CONST = _re_mod.compile(r"<impl ([iu])(8|16|32|64|128|size)>::(MIN|MAX)$")


def resolve_std_ints(t):
    """`i16::MIN`, `u8::MAX` ... as literals (kept out of resolve_consts: several rules compare windows built from `Score::MIN + 1`
    symbolically)"""
    if not isinstance(t, tuple) or isinstance(t, PK):
        return t
    if len(t) == 2 and t[0] == "const" and isinstance(t[1], str):
        m_ = _STD_INT_CONST.search(t[1])
        if m_:
            sg, bits, which = m_.group(1), m_.group(2), m_.group(3)
            nb = 64 if bits == "size" else int(bits)
            lo, hi = (-(1 << (nb - 1)), (1 << (nb - 1)) - 1) if sg == "i" else (0, (1 << nb) - 1)
            return ("lit", lo if which == "MIN" else hi)
    return tuple(resolve_std_ints(x) if isinstance(x, tuple) else x for x in t)


def resolve_consts(t, F):
    """Replace references to small scalar consts (int/char/bool) by their const-evaluated value."""
    if not isinstance(t, tuple) or F is None:
        return t
    if len(t) == 2 and t[0] == "const" and t[1] in F.consts:
        c = F.consts[t[1]]
        ty = c["ty"]
        v = c.get("value") or {}
        if "bytes" in v:
            b = bytes.fromhex(v["bytes"])
            if ty == "char":
                return ("lit", chr(int.from_bytes(b, "little")))
            if ty == "bool":
                return ("lit", bool(b[0]))
            if ty in ("u8", "u16", "u32", "usize", "i8", "i16", "i32", "isize") or (ty in ("u64", "i64") and not t[1].startswith("chess::zobrist")):
                return ("lit", int.from_bytes(b, "little", signed=ty.startswith("i")))
            arr = _const_array(ty, b)
            if arr is not None:
                return arr
        return t
    return tuple(resolve_consts(x, F) if isinstance(x, tuple) and not isinstance(x, PK) else x for x in t)


_W = {"i8": 1, "u8": 1, "i16": 2, "u16": 2, "i32": 4, "u32": 4, "i64": 8, "u64": 8, "usize": 8, "isize": 8, "char": 4, "bool": 1}


def _const_array(ty, b, limit=64):
    """("arr", elem...) for a small const array of scalars or of equal-width scalar tuples, from its evaluated bytes"""
    import re as _re
    m = _re.fullmatch(r"\[(.+); (\d+)\]", ty.strip())
    if not m:
        return None
    et, n = m.group(1).strip(), int(m.group(2))
    if n == 0 or n > limit:
        return None
    comps = [et] if et in _W else ([x.strip() for x in et[1:-1].split(",")] if et.startswith("(") and et.endswith(")") else None)
    if not comps or any(x not in _W for x in comps) or len({_W[x] for x in comps}) != 1:
        return None
    size = sum(_W[x] for x in comps)
    if len(b) != size * n:
        return None
    out, off = [], 0
    for _ in range(n):
        lits = []
        for x in comps:
            raw = b[off:off + _W[x]]
            off += _W[x]
            if x == "char":
                lits.append(("lit", chr(int.from_bytes(raw, "little"))))
            elif x == "bool":
                lits.append(("lit", bool(raw[0])))
            else:
                lits.append(("lit", int.from_bytes(raw, "little", signed=x.startswith("i"))))
        out.append(lits[0] if not et.startswith("(") else ("tup",) + tuple(lits))
    return ("arr",) + tuple(out)


def value_leaves(e, wrap=()):
    """The expressions an expression-position node can evaluate to: descends through blocks (tail), if/else branches,
    match arms and single-argument constructor calls (`Some(if c {a} else {b})`), so that `return if c { a } else { b }`
    (what helper inlining produces) is seen as the two returns it is.  Returns [(leaf node, constructor wrappers outer->inner)].
    Lexical guards of a leaf (guards_of) include the conditions passed on the way."""
    if e is None:
        return []
    k = e.get("k")
    if k in ("Use", "Type"):
        return value_leaves(e["e"], wrap)
    if k == "Block" and not e.get("label"):
        if e.get("expr") is not None:
            return value_leaves(e["expr"], wrap)
        return [(e, wrap)]
    if k == "If" and e.get("else") is not None:
        return value_leaves(e["then"], wrap) + value_leaves(e["else"], wrap)
    if k == "Match" and e.get("src") in (None, "Normal") and e.get("arms"):
        out = []
        for a in e["arms"]:
            out += value_leaves(a["body"], wrap)
        return out
    if k == "Call" and str((e.get("callee") or {}).get("dk", "")).startswith("Ctor") and len(e.get("args") or ()) == 1:
        a = e["args"][0]
        while a.get("k") in ("Use", "Type"):
            a = a["e"]
        if a.get("k") in ("If", "Match") or (a.get("k") == "Block" and (a.get("stmts") or (a.get("expr") or {}).get("k") in ("If", "Match", "Block"))):
            c = e["callee"]
            return value_leaves(a, wrap + (c.get("ctor_of") and c["path"] or c["path"],))
    return [(e, wrap)]


def wrap_value(v, wrap):
    for w in reversed(wrap):
        v = ("ctor", w, (v,))
    return v


def return_leaves(body):
    """[(Ret node, leaf value node or None, ctor wrappers)] for every `return` of a function body (closures excluded)"""
    out = []
    stack = [body]
    while stack:
        n = stack.pop()
        if n.get("k") == "Closure":
            continue
        if n.get("k") == "Ret":
            if n.get("e") is None:
                out.append((n, None, ()))
            else:
                for l, w in value_leaves(n["e"]):
                    out.append((n, l, w))
                stack.append(n["e"])
            continue
        stack.extend(kids(n))
    out.sort(key=lambda x: (line(x[0]) or 0))
    return out


def diverges(b):
    """Does this block always leave (continue / break / return / panic)?"""
    b = strip(b)
    if b.get("k") in ("Continue", "Break", "Ret"):
        return True
    if b.get("k") == "Block":
        last = b.get("expr")
        if last is None and b.get("stmts"):
            last = b["stmts"][-1]
        if last is None:
            return False
        return diverges(last)
    if b.get("k") == "Call" and (callee_of(b) or "").startswith(("core::panicking", "std::rt::begin_panic", "std::process::exit")):
        return True
    if b.get("k") == "If" and b.get("else") is not None:
        return diverges(b["then"]) and diverges(b["else"])
    if b.get("k") == "Match" and b.get("arms") and b.get("src") in (None, "Normal"):
        return all(diverges(a["body"]) for a in b["arms"])
    return False


COMMUTATIVE = {"==", "!=", "+", "*", "&&", "||", "&", "|", "^"}
FLIP = {">": "<", ">=": "<="}


def canon(t):
    """Order-insensitive form: operands of commutative operators sorted, a > b rewritten as b < a."""
    if not isinstance(t, tuple):
        return t
    if isinstance(t, PK):
        return t
    t = tuple(canon(x) if isinstance(x, tuple) else x for x in t)
    if t and t[0] == "bin":
        op, a, b = t[1], t[2], t[3]
        if op in FLIP:
            op, a, b = FLIP[op], b, a
        if op in COMMUTATIVE and _ckey(b) < _ckey(a):
            a, b = b, a
        return ("bin", op, a, b)
    return t


def _ckey(t):
    """Sort key: expressions first, then enum variants, then literals (`x == 7`, `p.owner != Player::White`)."""
    rank = 2 if (isinstance(t, tuple) and t and t[0] == "lit") else 1 if (isinstance(t, tuple) and t and t[0] in ("variant", "const")) else 0
    return (rank, repr(t))


def subst(t, m):
    """Replace sub-terms according to dict m."""
    if not isinstance(t, tuple) or isinstance(t, PK):
        return t          # a pattern key binds names, it mentions none
    if t in m:
        return m[t]
    if t[:1] == ("closure",) and len(t) == 3 and isinstance(t[1], tuple):
        # the closure's own parameters shadow outer names inside its body
        bound = {x for p_ in t[1] for x in (p_ if isinstance(p_, tuple) else (p_,))}
        inner = {k: v for k, v in m.items() if not (isinstance(k, tuple) and len(k) == 2 and k[0] == "var" and k[1] in bound)}
        return ("closure", t[1], subst(t[2], inner) if inner else t[2])
    return tuple(subst(x, m) if isinstance(x, tuple) else x for x in t)


def match_table(m, sym=None, facts=None):
    """For a Match node: list of (pattern key, guard, body node)."""
    return [(pat_key(a["pat"]), a.get("guard"), a["body"]) for a in m["arms"]]


# --------------------------------------------------------------------------
# straight-line summaries (S8) and case folding


class Unsupported(Exception):
    pass


def _pat_binds(p):
    out = []
    if not isinstance(p, dict):
        return out
    if p.get("k") == "PBind":
        out.append((p["name"], p["id"]))
        if p.get("sub"):
            out += _pat_binds(p["sub"])
    for key in ("pats", "before", "after"):
        for s_ in p.get(key) or ():
            out += _pat_binds(s_)
    for f in p.get("fields") or ():
        out += _pat_binds(f["pat"])
    if isinstance(p.get("pat"), dict):
        out += _pat_binds(p["pat"])
    return out


class Exec(Sym):
    """Forward substitution through a loop-free body with mutable locals:
    returns the normal form of the value the function returns.  `if`/`match` statements that
    update locals are merged into ("if", c, a, b) / ("match", scrut, arms) terms.
    Strings built by `String::new` + push/push_str become ("str", part, part, ...)."""

    def __init__(self, fn_hir, facts=None, depth=40, tolerant=False):
        """tolerant=True: a loop does not abort the summary; what it assigns becomes unknown and a string it appends to gets
        one opaque chunk ("s", ("opaque", "loop")) - for summaries whose interesting part lies outside the loops."""
        super().__init__(Env(fn_hir, facts), facts, depth)
        self.fn_hir = fn_hir
        self.store = {}
        self.returns = []
        self.tolerant = tolerant
        # resolved callee -> pseudo field: `x.setter(v)` on a local x is recorded as a store of v to x.<pseudo field>
        # (a setter without argument stores the literal given as the second element)
        self.setters = {}
        # resolved callee -> pseudo field: `self.f(a, b)` appends ("rec", previous, a, b) to self.<pseudo field> (ordered effects)
        self.recorders = {}

    def pseudo_default(self, key):
        """value of a recorder / setter pseudo field on a path that never touched it"""
        if isinstance(key, tuple) and len(key) == 3 and key[0] == "fieldstore":
            if key[2] in self.recorders.values():
                return ("var", "@start")
            if key[2] in [v[0] for v in self.setters.values()]:
                return ("field", ("var", key[1]), "@" + key[2])
            if not str(key[2]).startswith("@"):
                return ("field", ("var", key[1]), key[2])      # a real field on a path that did not write it: its old value
        return None

    def havoc_loop(self, loop):
        pushed = []
        for n, _ in walk(loop):
            k = n.get("k")
            if k == "MethodCall" and (callee_of(n) or "").endswith(("String::push", "String::push_str")):
                lid = self.local_id(n["recv"])
                if lid is not None and lid not in pushed:
                    pushed.append(lid)
            elif k in ("Assign", "AssignOp"):
                lid = self.local_id(n["l"])
                if lid is not None:
                    nm = strip(n["l"])["to"]["name"]
                    self.store[lid] = ("var", nm)
                else:
                    fk = self.field_key(n["l"], 0)
                    if fk is not None:
                        self.store[fk] = ("var", "?%s" % fk[2])
            elif k == "Ret" and not any(True for _ in ()):
                pass
        for lid in pushed:
            cur = self.store.get(lid, ("str",))
            try:
                self.store[lid] = str_append(cur, ("s", ("opaque", "loop")))
            except Unsupported:
                self.store[lid] = ("var", "?")

    def sym(self, n, d=0):
        if n is None:
            return ("none",)
        n0 = strip(n)
        if n0.get("k") == "Path" and n0["to"].get("res") == "local":
            lid = n0["to"]["id"]
            if lid in self.store:
                return self.store[lid]
            if lid in self.env.mutable or self.env.assigned.get(lid, 0):
                return ("var", n0["to"]["name"])
        if n0.get("k") in ("Field", "Index"):
            fk = self.field_key(n0, d)
            if fk is not None and fk in self.store:
                return self.store[fk]
        if n0.get("k") == "Block" and (n0.get("stmts") or n0.get("unsafe")):
            return self.block(n0, d)
        if n0.get("k") == "Call" and (callee_of(n0) or "").endswith(("String::new", "String::with_capacity")):
            return ("str",)
        if n0.get("k") == "Call" and n0.get("ty") == "std::string::String" and len(n0.get("args") or ()) == 1 and \
                (callee_of(n0) or "").endswith(("From<&str>>::from", "String::from", "From<&'a str>>::from")):
            return ("str", ("s", self.sym(n0["args"][0], d)))      # String::from("..") : a string that starts with that text
        if n0.get("k") == "MethodCall" and n0.get("ty") == "std::string::String" and n0["name"] in ("to_owned", "to_string") and \
                strip(n0["recv"]).get("ty") in ("&str", "&'static str"):
            return ("str", ("s", self.sym(n0["recv"], d)))
        if n0.get("k") == "Match":
            return self.branch_match(n0, d + 1)
        if n0.get("k") == "If":
            return self.branch_if(n0, d + 1)
        return super().sym(n, d)

    def run(self):
        return self.value(self.fn_hir["body"], 0)

    def block(self, b, d):
        sts = list(b.get("stmts") or ())
        for i, st in enumerate(sts):
            s0 = strip(st)
            # `assert!(c)` / `if bad { panic!() }`: what follows is the value only when the panic branch is not taken
            if s0.get("k") == "If" and s0.get("else") is None and diverges(s0["then"]) and _panics(s0["then"]):
                c = self.sym(s0["cond"], d)
                rest = dict(b, stmts=sts[i + 1:])
                return ("if", c, ("panic",), self.block(rest, d))
            self.stmt(st, d)
        if b.get("expr") is not None:
            return self.value(b["expr"], d)
        return ("unit",)

    def value(self, e, d):
        """Evaluate an expression that may itself be a statement-like if/match with effects."""
        e0 = strip(e)
        k = e0.get("k")
        if k == "If":
            return self.branch_if(e0, d)
        if k == "Match":
            return self.branch_match(e0, d)
        if k == "Block":
            return self.block(e0, d)
        if k == "MethodCall" and (callee_of(e0) or "").endswith(("String::push", "String::push_str")):
            self.stmt(e0, d)
            return ("unit",)
        if k == "Loop":
            if not self.tolerant:
                raise Unsupported("loop")        # never skip a loop silently: its effects are part of the summary
            self.havoc_loop(e0)
            return ("unit",)
        if k == "MethodCall" and (callee_of(e0) in self.setters or callee_of(e0) in self.recorders):
            self.stmt(e0, d)        # an effectful call used as the value of a match arm / block tail
            return ("unit",)
        if k in ("Assign", "AssignOp"):
            self.stmt(e0, d)
            return ("unit",)
        return self.sym(e0, d)

    def field_key(self, n, d):
        """Key for a store to `<local>.field` (one level), else None."""
        n = strip(n)
        if n.get("k") == "Field":
            b = strip(n["e"])
            if b.get("k") == "Path" and b["to"].get("res") == "local":
                return ("fieldstore", b["to"]["name"], n["name"])
        if n.get("k") == "Index":
            # `<local>.field[i]` : one abstract slot per array (which index is used is checked by the rule that needs it)
            b = strip(n["e"])
            if b.get("k") == "Field":
                bb = strip(b["e"])
                if bb.get("k") == "Path" and bb["to"].get("res") == "local":
                    return ("fieldstore", bb["to"]["name"], b["name"] + "[]")
        return None

    def local_id(self, n):
        n = strip(n)
        if n.get("k") == "Path" and n["to"].get("res") == "local":
            return n["to"]["id"]
        return None

    def stmt(self, st, d):
        k = st.get("k")
        if k == "SLet":
            pat = st["pat"]
            if st.get("init") is None:
                return
            if st.get("els"):
                if not self.tolerant:
                    raise Unsupported("let-else")
                # tolerant summaries follow the path on which the pattern matched: its names are projections of the value
                self.bind_pat_fields(pat, self.value(st["init"], d))
                return
            v = self.value(st["init"], d)
            self.bind(pat, v)
            # `let x = y;` (also as the value of an expanded helper's block): what was stored into y's fields is in x's fields now
            src = strip(st["init"])
            while src.get("k") == "Block" and src.get("expr") is not None:
                src = strip(src["expr"])
            if pat.get("k") == "PBind" and src.get("k") == "Path" and src["to"].get("res") == "local":
                yn = src["to"]["name"]
                for key, val in list(self.store.items()):
                    if isinstance(key, tuple) and len(key) == 3 and key[0] == "fieldstore" and key[1] == yn:
                        self.store[("fieldstore", pat["name"], key[2])] = val
            return
        if k == "SSemi":
            st = st["e"]
            k = st.get("k")
        st0 = strip(st)
        k = st0.get("k")
        if k == "Assign":
            lid = self.local_id(st0["l"])
            if lid is None:
                fk = self.field_key(st0["l"], d)
                if fk is None:
                    raise Unsupported("assignment to non-local")
                self.store[fk] = self.value(st0["r"], d)
            else:
                self.store[lid] = self.value(st0["r"], d)
        elif k == "AssignOp":
            lid = self.local_id(st0["l"])
            old = self.sym(st0["l"], d)
            if lid is None:
                fk = self.field_key(st0["l"], d)
                if fk is None:
                    raise Unsupported("compound assignment to non-local")
                self.store[fk] = ("bin", st0["op"].rstrip("="), old, self.sym(st0["r"], d))
            else:
                self.store[lid] = ("bin", st0["op"].rstrip("="), old, self.sym(st0["r"], d))
        elif k == "MethodCall":
            lid = self.local_id(st0["recv"])
            c = callee_of(st0) or ""
            if lid is not None and c.endswith("String::push"):
                cur = self.store.get(lid, ("var", "?"))
                self.store[lid] = str_append(cur, ("ch", self.sym(st0["args"][0], d)))
            elif lid is not None and c.endswith("String::push_str"):
                cur = self.store.get(lid, ("var", "?"))
                self.store[lid] = str_append(cur, ("s", self.sym(st0["args"][0], d)))
            elif lid is not None and isinstance(self.store.get(lid), tuple) and self.store[lid][:1] in (("str",), ("if",), ("match",)) and \
                    c.endswith("::extend") and st0.get("args"):
                # `s.extend([c1, c2])`: the characters of a literal array, in order
                a_ = self.sym(st0["args"][0], d)
                if a_[:1] in (("arr",), ("iter",)):
                    cur = self.store[lid]
                    for x_ in a_[1:]:
                        cur = str_append(cur, ("ch", x_))
                    self.store[lid] = cur
                else:
                    raise Unsupported("String::extend with a source that is not a literal array")
            elif lid is not None and isinstance(self.store.get(lid), tuple) and self.store[lid][:1] == ("str",) and \
                    st0["name"] in ("insert", "insert_str", "truncate", "pop", "clear", "retain", "remove", "replace_range", "drain", "extend_from_within"):
                raise Unsupported("string edited by %s" % st0["name"])       # never drop an edit of the text silently
            elif c in self.recorders:
                r0 = strip(st0["recv"])
                if r0.get("k") == "Path" and r0["to"].get("res") == "local":
                    key = ("fieldstore", r0["to"]["name"], self.recorders[c])
                    prev = self.store.get(key, ("var", "@start"))
                    self.store[key] = ("rec", prev) + tuple(self.sym(a_, d) for a_ in st0["args"])
            elif c in self.setters:
                fld, const = self.setters[c]
                r0 = strip(st0["recv"])
                if r0.get("k") == "Path" and r0["to"].get("res") == "local":
                    self.store[("fieldstore", r0["to"]["name"], fld)] = const if const is not None else self.sym(st0["args"][0], d)
            else:
                pass  # effect-free for our summaries (checked by the caller's anchors)
        elif k == "Call" and self.inline_string_helper(st0, d):
            pass
        elif k == "If":
            self.branch_if(st0, d)
        elif k == "Match":
            self.branch_match(st0, d)
        elif k == "Block":
            self.block(st0, d)
        elif k in ("Ret",):
            raise Unsupported("early return")
        elif k in ("Loop",):
            if not self.tolerant:
                raise Unsupported("loop")
            self.havoc_loop(st0)
        else:
            pass

    def inline_string_helper(self, call, d):
        """`helper(&mut s, a, b)` with a crate-local helper that only builds the string: execute the helper's body with its
        parameters bound to the argument normal forms and take its string back (one level of helper inlining)."""
        c = callee_of(call)
        if not c or self.facts is None or c not in self.facts.fns or d > 6:
            return False
        callee = self.facts.fns[c]
        params = callee["hir"].get("params") or []
        if len(params) != len(call["args"]):
            return False
        str_args = [(i, self.local_id(a)) for i, a in enumerate(call["args"]) if strip(a).get("ty", "").endswith("std::string::String")
                    and self.local_id(a) is not None and self.store.get(self.local_id(a), ("x",))[0] in ("str", "if", "match")]
        if len(str_args) != 1:
            return False
        sub = Exec(callee["hir"], self.facts)
        for i, (prm, a) in enumerate(zip(params, call["args"])):
            if prm["pat"].get("k") != "PBind":
                return False
            if i == str_args[0][0]:
                sub.store[prm["pat"]["id"]] = self.store[str_args[0][1]]
            else:
                sub.store[prm["pat"]["id"]] = self.sym(a, d + 1)
        try:
            sub.run()
        except Unsupported:
            return False
        self.store[str_args[0][1]] = sub.store[params[str_args[0][0]]["pat"]["id"]]
        return True

    def bind(self, pat, v):
        k = pat["k"]
        if k == "PBind":
            self.store[pat["id"]] = v
        elif k == "PTuple" and v and v[0] == "tup" and len(v) - 1 == len(pat["pats"]):
            for p, x in zip(pat["pats"], v[1:]):
                self.bind(p, x)
        elif k == "PTuple" and v and v[0] == "match":
            for idx, p in enumerate(pat["pats"]):
                arms = []
                for (pk_, g, body) in v[2]:
                    if not (body and body[0] == "tup" and len(body) - 1 == len(pat["pats"])):
                        raise Unsupported("tuple let from non-tuple match")
                    arms.append((pk_, g, body[1 + idx]))
                self.bind(p, ("match", v[1], tuple(arms)))
        elif k == "PTuple" and v and v[0] == "if" and len(v) == 4:
            for idx, p in enumerate(pat["pats"]):
                parts = []
                for br in (v[2], v[3]):
                    if not (br and br[0] == "tup" and len(br) - 1 == len(pat["pats"])):
                        raise Unsupported("tuple let from non-tuple if")
                    parts.append(br[1 + idx])
                self.bind(p, ("if", v[1], parts[0], parts[1]))
        elif k == "PWild":
            pass
        elif k == "PRef":
            self.bind(pat["pat"], v)
        elif k == "PStruct" and v and v[0] == "struct":
            fv = dict(v[2])
            for f_ in pat["fields"]:
                if f_["name"] in fv:
                    self.bind(f_["pat"], fv[f_["name"]])
                elif self.tolerant:
                    for nm, lid in _pat_binds(f_["pat"]):
                        self.store[lid] = ("var", nm)
                else:
                    raise Unsupported("struct pattern field without a value")
        elif k in ("PStruct", "PTupleStruct", "PTuple") and self.tolerant:
            # destructuring of a value the summary does not look into (e.g. what an option parser returned): the names are inputs
            for nm, lid in _pat_binds(pat):
                self.store[lid] = ("var", nm)
        else:
            raise Unsupported("pattern " + k)

    def branch_if(self, n, d):
        c = self.sym(n["cond"], d)
        base = dict(self.store)
        # `if let PAT = e` (possibly inside a && chain): the names PAT binds are projections of e in the then-branch
        for cn, _ in walk(n["cond"]):
            if cn.get("k") == "Let":
                self.bind_pat_fields(cn["pat"], self.sym(cn["init"], d))
        tv = self.value(n["then"], d)
        st_t = self.store
        self.store = dict(base)
        ev = self.value(n["else"], d) if n.get("else") is not None else ("unit",)
        st_e = self.store
        merged = {}
        for lid in set(st_t) | set(st_e):
            a, b = st_t.get(lid, base.get(lid)), st_e.get(lid, base.get(lid))
            if a is None:
                a = self.pseudo_default(lid)
            if b is None:
                b = self.pseudo_default(lid)
            if a is None or b is None:
                continue
            merged[lid] = a if a == b else ("if", c, a, b)
        self.store = merged
        return tv if tv == ev else ("if", c, tv, ev)

    def branch_match(self, n, d):
        sc = self.sym(n["e"], d)
        base = dict(self.store)
        outs = []
        for a in n["arms"]:
            self.store = dict(base)
            # pattern bindings become projections of the scrutinee
            self.bind_pat_fields(a["pat"], sc)
            g = self.sym(a["guard"], d) if a.get("guard") else None
            v = self.value(a["body"], d)
            outs.append((pat_key(a["pat"]), g, v, self.store))
        merged = {}
        ids = set()
        for o in outs:
            ids |= set(o[3])
        for lid in ids:
            vals = [o[3].get(lid, base.get(lid)) for o in outs]
            vals = [x if x is not None else self.pseudo_default(lid) for x in vals]
            if any(x is None for x in vals):
                continue
            if all(x == vals[0] for x in vals):
                merged[lid] = vals[0]
            else:
                merged[lid] = ("match", sc, tuple((o[0], o[1], x) for o, x in zip(outs, vals)))
        self.store = merged
        vals = [o[2] for o in outs]
        if all(x == vals[0] for x in vals):
            return vals[0]
        return ("match", sc, tuple((o[0], o[1], o[2]) for o in outs))

    def bind_pat_fields(self, pat, sc):
        k = pat["k"]
        if k == "PStruct":
            for f in pat["fields"]:
                sub = f["pat"]
                self.bind_pat_fields(sub, ("field", sc, f["name"]))
        elif k == "PTupleStruct":
            for i, sub in enumerate(pat["pats"]):
                self.bind_pat_fields(sub, ("field", sc, str(i)))
        elif k == "PBind":
            self.store[pat["id"]] = sc
            if pat.get("sub"):
                self.bind_pat_fields(pat["sub"], sc)
        elif k == "PRef":
            self.bind_pat_fields(pat["pat"], sc)
        elif k == "PTuple":
            for i, sub in enumerate(pat["pats"]):
                self.bind_pat_fields(sub, ("field", sc, str(i)))
        elif k == "POr" and pat.get("pats"):
            # all alternatives bind the same names; bind through the first one
            self.bind_pat_fields(pat["pats"][0], sc)


def _panics(b):
    """does this diverging block end in a panic (rather than return / break / continue)?"""
    for n, _ in walk(b):
        if n.get("k") in ("Ret", "Break", "Continue"):
            return False
    for n, _ in walk(b):
        if n.get("k") == "Call" and (callee_of(n) or "").startswith(("core::panicking", "std::rt::begin_panic", "std::rt::panic")):
            return True
    return False


def str_append(cur, part):
    if cur and cur[0] == "str":
        return cur + (part,)
    if cur and cur[0] == "if":
        return ("if", cur[1], str_append(cur[2], part), str_append(cur[3], part))
    if cur and cur[0] == "match":
        return ("match", cur[1], tuple((p, g, str_append(b, part)) for p, g, b in cur[2]))
    raise Unsupported("push on unknown string")


def summarize_effects(fn, facts=None):
    """(return normal form, {field name: normal form of the value stored into <param>.<field>})."""
    ex = Exec(fn["hir"], facts)
    r = ex.run()
    eff = {k[2]: v for k, v in ex.store.items() if isinstance(k, tuple) and k[0] == "fieldstore"}
    return r, eff


def summarize(fn, facts=None):
    """Normal form of the function's return value; raises Unsupported on loops/early returns."""
    try:
        return Exec(fn["hir"], facts).run()
    except Unsupported:
        # `for x in [a, b] { .. }` over a short literal array is the body written out once per element
        from . import inline as _inl
        h2 = _inl.unroll_literal_loops(fn["hir"], F=facts)
        return Exec(h2, facts).run()


CHAR_FNS = {
    "char::methods::<impl char>::to_ascii_lowercase": lambda c: c.lower() if c.isascii() else c,
    "char::methods::<impl char>::to_ascii_uppercase": lambda c: c.upper() if c.isascii() else c,
}
BOOL_CHAR_FNS = {
    "char::methods::<impl char>::is_ascii_lowercase": lambda c: c.isascii() and c.islower(),
    "char::methods::<impl char>::is_ascii_uppercase": lambda c: c.isascii() and c.isupper(),
}


def _callee_key(c):
    if not isinstance(c, str):
        return ""
    return c.replace("core::", "").replace("std::", "")


def table_helpers(F):
    """Crate-local one-parameter functions that are pure enum->literal tables (e.g. `fn en_passant_row(&self) -> i8 { match self {..} }`):
    {path: (param name, summary)}.  `fold` can see through calls to them (one level of helper inlining)."""
    cache = getattr(F, "_table_helpers", None)
    if cache is not None:
        return cache
    out = {}
    for path, fn in F.fns.items():
        if fn.get("kind") == "Closure" or not fn.get("hir") or len(fn["hir"].get("params") or []) != 1:
            continue
        prm = fn["hir"]["params"][0]["pat"]
        if prm.get("k") != "PBind":
            continue
        try:
            nf = Exec(fn["hir"], F).run()
        except (Unsupported, RecursionError, KeyError, TypeError):
            continue
        ok = True
        for x in subterms(nf):
            if not x:
                continue
            h = x[0]
            if h == "field" and len(x) == 3 and x[1] == ("var", prm["name"]):
                continue        # a field of the parameter itself (self.owner): still a pure table over the parameter
            if h in ("call", "field", "index", "closure", "str", "ctor", "struct", "deep", "unsupported", "ret", "block"):
                ok = False
                break
            if h == "var" and x[1] != prm["name"]:
                ok = False
                break
        if ok and nf and nf[0] in ("match", "if", "lit", "variant", "cast", "bin"):
            out[path] = (prm["name"], nf)
    F._table_helpers = out
    return out


ITER_SRC = ("::into_iter", "::iter")


def fold(t, assume, discr=None, helpers=None, evalcalls=None):
    """Constant folding of a normal form under assumptions.
    assume: dict normal-form -> normal-form (e.g. ("field",("var","self"),"owner") -> ("variant", "chess::Player::Black"))
    discr: dict variant path -> integer discriminant (for `as` casts of field-less enums)."""
    discr = discr or {}
    if helpers is None and DEFAULT_FACTS[0] is not None:
        try:
            helpers = table_helpers(DEFAULT_FACTS[0])
        except Exception:
            helpers = None

    def f(t):
        if not isinstance(t, tuple) or not t or isinstance(t, PK):
            return t
        if t in assume:
            return f(assume[t])
        h = t[0]
        if h in ("lit", "var", "variant", "const", "def", "none", "unit"):
            return t
        if h == "field":
            b = f(t[1])
            r = ("field", b, t[2])
            if r in assume:
                return f(assume[r])
            if b[0] == "struct":
                for name, v in b[2]:
                    if name == t[2]:
                        return v
            if b[0] == "tup" and t[2].isdigit() and int(t[2]) < len(b) - 1:
                return b[1 + int(t[2])]
            if b[0] == "ctor" and t[2].isdigit() and int(t[2]) < len(b[2]):
                return b[2][int(t[2])]
            if b[0] == "pos" and t[2] in ("0", "1"):
                return ("lit", b[1] if t[2] == "0" else b[2])       # Position(row, col)
            return r
        if h == "cast":
            x = f(t[1])
            if x[0] == "variant" and x[1] in discr:
                return ("lit", discr[x[1]])
            if x[0] == "lit" and isinstance(x[1], int) and not isinstance(x[1], bool):
                ty = t[2] or ""
                if ty == "char":
                    return ("lit", chr(x[1]))
                if ty in ("u8",):
                    return ("lit", x[1] & 0xFF)
                if ty == "i8":
                    return ("lit", ((x[1] + 128) & 0xFF) - 128)
                return ("lit", x[1])
            if x[0] == "lit" and isinstance(x[1], str) and len(x[1]) == 1 and (t[2] or "").startswith(("u", "i")):
                return ("lit", ord(x[1]))
            return ("cast", x, t[2])
        if h == "bin":
            a, b = f(t[2]), f(t[3])
            op = t[1]
            if op in ("==", "!="):
                if a[0] in ("variant", "lit") and b[0] == a[0]:
                    eq = a[1] == b[1]
                    return ("lit", eq if op == "==" else not eq)
                if _ground(a) and _ground(b):
                    return ("lit", (a == b) if op == "==" else (a != b))
                if a[:1] == ("slen",) and b[:1] == ("slen",) and a[1] == b[1]:
                    return ("lit", (a[2] == b[2]) if op == "==" else (a[2] != b[2]))
            if a[0] == "lit" and b[0] == "lit":
                x, y = a[1], b[1]
                try:
                    if op == "&&":
                        return ("lit", bool(x) and bool(y))
                    if op == "||":
                        return ("lit", bool(x) or bool(y))
                    if isinstance(x, bool) and isinstance(y, bool) and op in ("|", "&", "^"):
                        return ("lit", {"|": x or y, "&": x and y, "^": x != y}[op])
                    if isinstance(x, bool) or isinstance(y, bool):
                        raise TypeError
                    if isinstance(x, int) and isinstance(y, int):
                        r = {"+": x + y, "-": x - y, "*": x * y, "<": x < y, "<=": x <= y, ">": x > y,
                             ">=": x >= y, "&": x & y, "|": x | y, "^": x ^ y,
                             "<<": x << y if 0 <= y < 128 else None, ">>": x >> y if 0 <= y < 128 else None}.get(op, None)
                        if op == "/" and y != 0:
                            r = int(x / y)
                        if op == "%" and y != 0:
                            r = x - int(x / y) * y
                        if r is not None:
                            return ("lit", r)
                except TypeError:
                    pass
            if op == "*":
                for x_, y_ in ((a, b), (b, a)):
                    if x_ == ("lit", 0):
                        return ("lit", 0)
                    if x_ == ("lit", 1):
                        return y_
                    if x_ == ("lit", -1):
                        return f(("neg", y_))
            if op == "+":
                if a == ("lit", 0):
                    return b
                if b == ("lit", 0):
                    return a
            if op == "-" and b == ("lit", 0):
                return a
            if op == "&&":
                if a == ("lit", False) or b == ("lit", False):
                    return ("lit", False)
                if a == ("lit", True):
                    return b
                if b == ("lit", True):
                    return a
            if op == "||":
                if a == ("lit", True) or b == ("lit", True):
                    return ("lit", True)
                if a == ("lit", False):
                    return b
                if b == ("lit", False):
                    return a
            return ("bin", op, a, b)
        if h == "not":
            a = f(t[1])
            if a[0] == "lit" and isinstance(a[1], bool):
                return ("lit", not a[1])
            if a[0] == "lit" and isinstance(a[1], int):
                return ("lit", ~a[1])
            return ("not", a)
        if h == "neg":
            a = f(t[1])
            if a[0] == "lit" and isinstance(a[1], int):
                return ("lit", -a[1])
            return ("neg", a)
        if h == "let" and len(t) >= 3:
            sc = f(t[2])
            if sc[0] in ("variant", "lit", "struct", "ctor", "pos", "tup") or _decided_arr(sc):
                try:
                    return ("lit", _pat_matches(t[1], sc))
                except Undecided:
                    pass
            return ("let", t[1], sc) + tuple(t[3:])
        if h == "if":
            c = f(t[1])
            if c == ("lit", True):
                return f(t[2])
            if c == ("lit", False):
                return f(t[3])
            return ("if", c, f(t[2]), f(t[3]))
        if h == "match":
            sc = f(t[1])
            if sc[0] in ("variant", "lit", "struct", "ctor", "pos", "tup") or _decided_arr(sc):
                arms_ = list(t[2])
                for i_, (pk_, g, body) in enumerate(arms_):
                    try:
                        if not _pat_matches(pk_, sc):
                            continue
                    except Undecided:
                        # this arm may or may not match: arms after it that definitely do not are dropped; if everything that can
                        # still be taken gives one and the same value, that is the value
                        rest_arms = [(pk_, g, f(body))]
                        for p2, g2, b2 in arms_[i_ + 1:]:
                            try:
                                m2 = _pat_matches(p2, sc)
                            except Undecided:
                                m2 = None
                            if m2 is False:
                                continue
                            rest_arms.append((p2, g2, f(b2)))
                            if m2 is True and g2 is None:
                                break       # a definite match: nothing after it is reached
                        vals_ = {b_ for _, g_, b_ in rest_arms}
                        if len(vals_) == 1 and not any(("var", nm_) in set(subterms(next(iter(vals_)))) for p_, _, _ in rest_arms
                                                       for nm_ in (getattr(p_, "paths", None) or {})):
                            return next(iter(vals_))
                        return ("match", sc, tuple(rest_arms))
                    binds = getattr(pk_, "binds", None)
                    m_ = {}
                    if sc[0] == "ctor" and isinstance(binds, tuple) and len(binds) == len(sc[2]):
                        m_ = {("var", nm): v for nm, v in zip(binds, sc[2]) if nm}
                    if sc[0] == "struct" and isinstance(binds, dict):
                        fv = dict(sc[2])
                        m_ = {("var", nm): fv[fld] for fld, nm in binds.items() if nm and fld in fv}
                    if sc[0] == "ctor" and isinstance(binds, dict):
                        m_ = {("var", nm): sc[2][int(fld)] for fld, nm in binds.items() if nm and fld.isdigit() and int(fld) < len(sc[2])}
                    if sc[0] == "arr":
                        m_ = _slice_binds(pk_, sc)
                    for nm_, path_ in (getattr(pk_, "paths", None) or {}).items():
                        if ("var", nm_) not in m_ and path_:
                            v_ = f(project(sc, path_))
                            if not (isinstance(v_, tuple) and v_[:1] == ("field",)):
                                m_[("var", nm_)] = v_        # resolved on the known value (otherwise the name stays free)
                    if g is not None:
                        gg = f(subst(g, m_) if m_ else g)
                        if gg == ("lit", False):
                            continue
                        if gg != ("lit", True):
                            # undecided guard: this arm if it holds, otherwise whatever the remaining arms give
                            rest_ = f(("match", sc, tuple(arms_[i_ + 1:]))) if arms_[i_ + 1:] else ("nomatch", sc)
                            return ("if", gg, f(subst(body, m_) if m_ else body), rest_)
                    return f(subst(body, m_) if m_ else body)
                return ("nomatch", sc)
            return ("match", sc, tuple((p, g, f(b)) for p, g, b in t[2]))
        if h == "call":
            args = tuple(f(x) for x in t[2])
            if isinstance(t[1], tuple) and len(t[1]) == 2 and t[1][0] == "?" and isinstance(t[1][1], tuple) and t[1][1][:1] == ("closure",) \
                    and closure_bindings(t[1][1][1], args) is not None:
                # call of a local closure: beta-reduce
                return f(subst(t[1][1][2], closure_bindings(t[1][1][1], args)))
            if helpers and isinstance(t[1], str) and t[1] in helpers and len(args) == 1:
                pname, body = helpers[t[1]]
                r_ = f(subst(body, {("var", pname): args[0]}))
                if r_[0] in ("lit", "variant"):
                    return r_       # the helper's table decides under the current assumptions; otherwise keep the call
            ck = _callee_key(t[1])
            if ck.endswith("Try::branch") and len(args) == 1:
                a0_ = args[0]
                if a0_[0] == "ctor" and str(a0_[1]).endswith(("::Some", "::Ok")) and len(a0_[2]) == 1:
                    return ("ctor", "std::ops::ControlFlow::Continue", (a0_[2][0],))
                if (a0_[0] == "variant" and str(a0_[1]).endswith("::None")) or (a0_[0] == "ctor" and str(a0_[1]).endswith("::Err")):
                    return ("ctor", "std::ops::ControlFlow::Break", (a0_,))
            if ck.endswith("FromResidual<std::option::Option<std::convert::Infallible>>>::from_residual") or ck.endswith("::from_residual"):
                if len(args) == 1 and ((args[0][0] == "variant" and str(args[0][1]).endswith("::None")) or
                                       (args[0][0] == "ctor" and str(args[0][1]).endswith("::Err"))):
                    return args[0]
            if ck.endswith("bool>::then_some") and len(args) == 2 and args[0][0] == "lit" and isinstance(args[0][1], bool):
                return ("ctor", "std::prelude::v1::Some", (args[1],)) if args[0][1] else ("variant", "std::prelude::v1::None")
            if ck.endswith("Iterator::collect") and len(args) == 1 and args[0][:1] == ("iter",) and \
                    all(x[0] == "lit" and isinstance(x[1], str) and len(x[1]) == 1 for x in args[0][1:]):
                return ("str",) + tuple(("ch", x) for x in args[0][1:])       # characters collected into a String
            if ck.endswith("String::is_empty") and len(args) == 1 and args[0][:1] == ("str",) and \
                    all(p_[0] in ("ch", "s") and p_[1][0] == "lit" for p_ in args[0][1:]):
                return ("lit", all(p_[0] == "s" and p_[1][1] == "" for p_ in args[0][1:]))
            if ck.endswith("OnceCell::<T>::get_or_init") and len(args) == 2 and isinstance(args[1], tuple) and args[1][:1] == ("closure",) \
                    and not args[1][1]:
                return f(args[1][2])      # a lazily computed value is the value of its initialiser
            if evalcalls and isinstance(t[1], str) and t[1] in evalcalls:
                r_ = evalcalls[t[1]](args)
                if r_ is not None:
                    return f(r_) if r_ != ("call", t[1], args) else r_
            # finite iterators over literal arrays: [a, b].into_iter().map/filter_map/filter(..).any/all(..)
            if isinstance(t[1], str) and args:
                def app_(clo, *xs):
                    if isinstance(clo, tuple) and clo and clo[0] == "closure" and closure_bindings(clo[1], xs) is not None:
                        return f(subst(clo[2], closure_bindings(clo[1], xs)))
                    if isinstance(clo, tuple) and len(clo) == 2 and clo[0] == "def":
                        return f(("call", clo[1], tuple(xs)))
                    return None
                a0 = args[0]
                if a0[0] == "arr" and len(args) == 2 and t[1].endswith("]>::map") and "array" in t[1]:
                    r_ = [app_(args[1], e) for e in a0[1:]]       # [a, b].map(f) = [f(a), f(b)]
                    if None not in r_:
                        return ("arr",) + tuple(r_)
                if t[1].endswith(ITER_SRC) and len(args) == 1 and a0[0] == "arr":
                    return ("iter",) + tuple(a0[1:])
                if a0[0] == "iter" and "Iterator" in t[1]:
                    meth = t[1].rsplit("::", 1)[-1]
                    els = a0[1:]
                    if meth == "map" and len(args) == 2:
                        r_ = [app_(args[1], e) for e in els]
                        if None not in r_:
                            return ("iter",) + tuple(r_)
                    if meth in ("filter_map", "flat_map") and len(args) == 2:
                        out_ = []
                        ok_ = True
                        for e in els:
                            v_ = app_(args[1], e)
                            if v_ is None:
                                ok_ = False
                                break
                            if v_[0] == "variant" and str(v_[1]).endswith("::None"):
                                continue
                            if v_[0] == "ctor" and str(v_[1]).endswith("::Some"):
                                out_.append(v_[2][0])
                                continue
                            ok_ = False
                            break
                        if ok_:
                            return ("iter",) + tuple(out_)
                    if meth == "filter" and len(args) == 2:
                        out_ = []
                        ok_ = True
                        for e in els:
                            v_ = app_(args[1], e)
                            if v_ == ("lit", True):
                                out_.append(e)
                            elif v_ != ("lit", False):
                                ok_ = False
                                break
                        if ok_:
                            return ("iter",) + tuple(out_)
                    if meth in ("any", "all") and len(args) == 2:
                        acc = ("lit", meth == "all")
                        ok_ = True
                        for e in els:
                            v_ = app_(args[1], e)
                            if v_ is None:
                                ok_ = False
                                break
                            acc = f(("bin", "||" if meth == "any" else "&&", acc, v_))
                        if ok_:
                            return acc
                    if meth in ("copied", "cloned", "into_iter", "by_ref", "rev") and len(args) == 1:
                        return a0 if meth != "rev" else ("iter",) + tuple(reversed(els))
                    if meth == "count" and len(args) == 1:
                        return ("lit", len(els))
            r_ = _fold_text_call(ck, args)
            if r_ is not None:
                return r_
            if ck in CHAR_FNS and args and args[0][0] == "lit" and isinstance(args[0][1], str):
                return ("lit", CHAR_FNS[ck](args[0][1]))
            if ck in BOOL_CHAR_FNS and args and args[0][0] == "lit" and isinstance(args[0][1], str):
                return ("lit", BOOL_CHAR_FNS[ck](args[0][1]))
            if ck.endswith("String::len") and len(args) == 1 and args[0][:1] == ("str",):
                # length of a built string: literal part counted, non-literal chunks kept symbolic
                lit_len, rest_ = 0, []
                for p_ in args[0][1:]:
                    x_ = p_[1] if isinstance(p_, tuple) and len(p_) == 2 else None
                    if x_ is not None and x_[0] == "lit" and isinstance(x_[1], str):
                        lit_len += len(x_[1])
                    else:
                        rest_.append(p_)
                return ("lit", lit_len) if not rest_ else ("slen", tuple(rest_), lit_len)
            if ck.endswith("::contains") and len(args) == 2 and args[0][0] == "struct" and str(args[0][1]).endswith(("ops::Range", "ops::RangeInclusive")):
                d_ = dict(args[0][2])
                lo_, hi_, x_ = sym_int(d_.get("start")), sym_int(d_.get("end")), sym_int(args[1])
                if None not in (lo_, hi_, x_):
                    return ("lit", lo_ <= x_ < hi_ if str(args[0][1]).endswith("ops::Range") else lo_ <= x_ <= hi_)
            if ck.endswith("::abs") and len(args) == 1 and args[0][0] == "lit" and isinstance(args[0][1], int) and not isinstance(args[0][1], bool):
                return ("lit", abs(args[0][1]))
            if ck.endswith("::to_string") and len(args) == 1 and args[0][0] == "lit" and not isinstance(args[0][1], bool):
                return ("lit", str(args[0][1]))
            if ck.endswith(("String::as_str", "::as_ref", "Deref>::deref", "::borrow")) and len(args) == 1 and args[0][0] == "lit" \
                    and isinstance(args[0][1], str):
                return args[0]
            if ck.endswith("FromStr>::from_str") and len(args) == 1 and args[0][0] == "lit":
                return ("ctor", "std::result::Result::Ok", (args[0],))
            if ck.endswith("Result::<T, E>::unwrap") and len(args) == 1 and args[0][0] == "ctor" and str(args[0][1]).endswith("Ok"):
                return args[0][2][0]
            if ck.endswith("Option::<T>::is_some") and len(args) == 1:
                if args[0][0] == "variant" and args[0][1].endswith("::None"):
                    return ("lit", False)
                if args[0][0] == "ctor" and str(args[0][1]).endswith("::Some"):
                    return ("lit", True)
            # Option algebra on a known constructor
            if "Option::<T>::" in ck and args:
                o = args[0]
                none = o[0] == "variant" and str(o[1]).endswith("::None")
                some = o[0] == "ctor" and str(o[1]).endswith("::Some") and len(o[2]) == 1
                meth = ck.rsplit("::", 1)[-1]
                if none or some:
                    v_ = o[2][0] if some else None

                    def app(clo, *xs):
                        if isinstance(clo, tuple) and clo and clo[0] == "closure" and closure_bindings(clo[1], xs) is not None:
                            return f(subst(clo[2], closure_bindings(clo[1], xs)))
                        if isinstance(clo, tuple) and len(clo) == 2 and clo[0] == "def":
                            return f(("call", clo[1], tuple(xs)))       # a function path used as the callback
                        return ("call", "apply", (clo,) + tuple(xs))
                    if meth == "is_none":
                        return ("lit", none)
                    if meth in ("unwrap", "expect", "unwrap_unchecked") and some:
                        return v_
                    if meth == "unwrap_or" and len(args) == 2:
                        return v_ if some else args[1]
                    if meth == "unwrap_or_else" and len(args) == 2:
                        return v_ if some else app(args[1])
                    if meth == "unwrap_or_default" and some:
                        return v_
                    if meth == "map" and len(args) == 2:
                        return ("ctor", o[1], (app(args[1], v_),)) if some else o
                    if meth == "map_or" and len(args) == 3:
                        return app(args[2], v_) if some else args[1]
                    if meth == "map_or_else" and len(args) == 3:
                        return app(args[2], v_) if some else app(args[1])
                    if meth == "and_then" and len(args) == 2:
                        return app(args[1], v_) if some else o
                    if meth == "is_some_and" and len(args) == 2:
                        return app(args[1], v_) if some else ("lit", False)
                    if meth == "is_none_or" and len(args) == 2:
                        return app(args[1], v_) if some else ("lit", True)
                    if meth in ("copied", "cloned", "as_ref", "as_mut", "take"):
                        return o
                    if meth == "or" and len(args) == 2:
                        return o if some else args[1]
                    if meth == "or_else" and len(args) == 2:
                        return o if some else app(args[1])
                    if meth == "ok_or" and len(args) == 2:
                        return ("ctor", "std::result::Result::Ok", (v_,)) if some else ("ctor", "std::result::Result::Err", (args[1],))
                    if meth == "filter" and len(args) == 2:
                        c_ = app(args[1], v_) if some else None
                        if none:
                            return o
                        if c_ == ("lit", True):
                            return o
                        if c_ == ("lit", False):
                            return ("variant", str(o[1]).rsplit("::", 1)[0] + "::None")
            r_ = ("call", t[1], args)
            if r_ in assume and r_ != t:
                return f(assume[r_])       # an assumption stated on the folded form of the call
            return r_
        if h == "ctor":
            return ("ctor", t[1], tuple(f(x) for x in t[2]))
        if h == "struct":
            return ("struct", t[1], tuple((n, f(v)) for n, v in t[2]))
        if h == "str":
            parts = []
            for x in t[1:]:
                y = f(x)
                if isinstance(y, tuple) and y[:1] == ("s",) and isinstance(y[1], tuple) and y[1][:1] == ("str",):
                    parts.extend(y[1][1:])        # a String built elsewhere appended as a whole: its pieces
                else:
                    parts.append(y)
            return ("str",) + tuple(parts)
        if h in ("tup", "arr"):
            return (h,) + tuple(f(x) for x in t[1:])
        if h in ("ch", "s"):
            return (h, f(t[1]))
        if h == "index":
            a_, i_ = f(t[1]), f(t[2])
            iv = sym_int(i_)
            if a_[0] == "arr" and iv is not None and 0 <= iv < len(a_) - 1:
                return a_[1 + iv]
            r_ = ("index", a_, i_)
            if r_ in assume and r_ != t:
                return f(assume[r_])
            return r_
        if h == "closure":
            return ("closure", t[1], f(t[2]))
        return (h,) + tuple(f(x) if isinstance(x, tuple) and not isinstance(x, PK) else x for x in t[1:])

    r = f(t)
    # an early `return x` anywhere in the evaluated term makes the whole function return x
    er = _find_ret(r)
    return er if er is not None else r


_SOME, _NONE = "std::prelude::v1::Some", ("variant", "std::prelude::v1::None")


def _opt(v):
    return _NONE if v is None else ("ctor", _SOME, (v,))


def _fold_text_call(ck, args):
    """the pure text functions a parser is written with, on literal text: the bytes / characters of a `&str`, the k-th element of a
    fresh iterator over them, lengths, wrapping byte arithmetic.  None = not one of these / not literal."""
    if not args:
        return None
    a0 = args[0]
    lit_s = a0[0] == "lit" and isinstance(a0[1], str)
    if lit_s and ck.startswith("str::<impl str>::") and len(args) == 1:
        m = ck.rsplit("::", 1)[-1]
        s_ = a0[1]
        try:
            b_ = s_.encode("utf-8")
        except UnicodeError:
            return None
        if m == "len":
            return ("lit", len(b_))
        if m == "is_empty":
            return ("lit", len(b_) == 0)
        if m == "as_bytes":
            return ("arr",) + tuple(("lit", x) for x in b_)
        if m == "bytes":
            return ("iter",) + tuple(("lit", x) for x in b_)
        if m == "chars":
            return ("iter",) + tuple(("lit", c) for c in s_)
        if m == "is_ascii":
            return ("lit", s_.isascii())
    if a0[:1] == ("iter",) and "Iterator" in ck:
        m = ck.rsplit("::", 1)[-1]
        els = a0[1:]
        if m == "nth" and len(args) == 2 and args[1][0] == "lit" and isinstance(args[1][1], int):
            k = args[1][1]
            return _opt(els[k] if 0 <= k < len(els) else None)
        if m == "next" and len(args) == 1:
            return _opt(els[0] if els else None)       # the first element of a *fresh* iterator (stateful uses are numbered by the pre-pass)
        if m == "last" and len(args) == 1:
            return _opt(els[-1] if els else None)
        if m == "len" and len(args) == 1:
            return ("lit", len(els))
    if a0[:1] == ("arr",) and ck.startswith("slice::<impl [T]>::"):
        m = ck.rsplit("::", 1)[-1]
        els = a0[1:]
        if m == "len" and len(args) == 1:
            return ("lit", len(els))
        if m == "is_empty" and len(args) == 1:
            return ("lit", not els)
        if m == "first" and len(args) == 1:
            return _opt(els[0] if els else None)
        if m == "last" and len(args) == 1:
            return _opt(els[-1] if els else None)
        if m == "get" and len(args) == 2 and args[1][0] == "lit" and isinstance(args[1][1], int) and not isinstance(args[1][1], bool):
            k = args[1][1]
            return _opt(els[k] if 0 <= k < len(els) else None)
        if m in ("iter", "into_iter") and len(args) == 1:
            return ("iter",) + tuple(els)
    if ck.startswith("num::<impl u8>::") and len(args) == 2 and all(x[0] == "lit" and isinstance(x[1], int) and not isinstance(x[1], bool) for x in args):
        m = ck.rsplit("::", 1)[-1]
        x, y = args[0][1], args[1][1]
        if m == "wrapping_sub":
            return ("lit", (x - y) & 0xFF)
        if m == "wrapping_add":
            return ("lit", (x + y) & 0xFF)
        if m == "checked_sub":
            return _opt(("lit", x - y) if 0 <= x - y <= 255 else None)
        if m == "checked_add":
            return _opt(("lit", x + y) if 0 <= x + y <= 255 else None)
    return None


def _ground(t):
    """literal data only (no variables, calls, fields): structural equality decides `==`"""
    if not isinstance(t, tuple) or not t:
        return True
    h = t[0]
    if h in ("lit", "variant", "pos"):
        return True
    if h in ("ctor",):
        return all(_ground(x) for x in t[2])
    if h == "struct":
        return all(_ground(v) for _, v in t[2])
    if h == "tup":
        return all(_ground(x) for x in t[1:])
    return False


def _find_ret(t):
    if not isinstance(t, tuple) or not t:
        return None
    if t[0] == "ret":
        return t
    if t[0] in ("closure", "match", "if"):
        return None   # only unconditional positions are hoisted
    for x in t[1:]:
        if isinstance(x, tuple):
            if x and isinstance(x[0], tuple):   # tuple of terms / pairs
                for y in x:
                    r = _find_ret(y) if isinstance(y, tuple) else None
                    if r is not None:
                        return r
            r = _find_ret(x)
            if r is not None:
                return r
    return None


def closure_bindings(params, xs):
    """{("var", name): value} for applying a closure with parameter list `params` (names, or tuples of names for tuple patterns) to
    arguments xs; None when the shapes do not fit"""
    if len(params) != len(xs):
        return None
    m = {}
    for p_, x in zip(params, xs):
        if isinstance(p_, tuple):
            if not (isinstance(x, tuple) and x[:1] == ("tup",) and len(x) - 1 == len(p_)):
                return None
            for nm, c in zip(p_, x[1:]):
                m[("var", nm)] = c
        else:
            m[("var", p_)] = x
    return m


_NAME_SUFFIX_RE = None


def unsuffix(t):
    """normal form with the renaming suffixes of expanded / unrolled locals (`x'3`, `x'u2`) removed from variable names and from
    the names pattern keys bind (the locals of an expanded helper are the caller's locals as far as assumptions are concerned)"""
    global _NAME_SUFFIX_RE
    if _NAME_SUFFIX_RE is None:
        import re as _re
        _NAME_SUFFIX_RE = _re.compile(r"'u?\d+$")
    if isinstance(t, PK):
        r = PK(tuple(unsuffix(x) if isinstance(x, tuple) else x for x in t))
        b = t.binds
        if isinstance(b, tuple):
            b = tuple(_NAME_SUFFIX_RE.sub("", x) if isinstance(x, str) else x for x in b)
        elif isinstance(b, dict):
            b = {k: (_NAME_SUFFIX_RE.sub("", v) if isinstance(v, str) else v) for k, v in b.items()}
        r.binds = b
        r.sub = t.sub
        r.names = t.names
        r.paths = t.paths
        return r
    if isinstance(t, tuple):
        if len(t) == 2 and t[0] == "var" and isinstance(t[1], str):
            return ("var", _NAME_SUFFIX_RE.sub("", t[1]))
        if t[:1] == ("closure",) and len(t) == 3 and isinstance(t[1], tuple):
            ps = tuple(tuple(_NAME_SUFFIX_RE.sub("", y) for y in x) if isinstance(x, tuple) else (_NAME_SUFFIX_RE.sub("", x) if isinstance(x, str) else x)
                       for x in t[1])
            return ("closure", ps, unsuffix(t[2]))
        return tuple(unsuffix(x) if isinstance(x, tuple) else x for x in t)
    return t


def _decided_tuple(sc):
    """a tuple scrutinee whose every component is a value a pattern can be decided against"""
    return isinstance(sc, tuple) and sc[:1] == ("tup",) and len(sc) > 1 and \
        all(isinstance(x, tuple) and (x[0] in ("variant", "lit", "struct", "ctor", "pos") or _decided_tuple(x)) for x in sc[1:])


def _decided_arr(sc):
    """an array / byte slice of known length (its elements are looked at by the slice pattern itself)"""
    return isinstance(sc, tuple) and sc[:1] == ("arr",)


def _slice_binds(pk_, sc):
    names = getattr(pk_, "names", None)
    if not (isinstance(pk_, tuple) and pk_[:1] == ("PSlice",) and names and sc[:1] == ("arr",)):
        return {}
    els = sc[1:]
    m = {}
    for nm, el in zip(names[0], els[:len(names[0])]):
        if nm:
            m[("var", nm)] = el
    if names[1]:
        for nm, el in zip(names[1], els[len(els) - len(names[1]):]):
            if nm:
                m[("var", nm)] = el
    return m


def _pat_matches(pk_, sc):
    if pk_ == "_":
        return True
    if isinstance(pk_, tuple):
        if pk_[0] == "or":
            return any(_pat_matches(p, sc) for p in pk_[1:])
        if pk_[0] == "variant" and sc[0] in ("variant", "struct", "ctor"):
            if pk_[1] != sc[1]:
                return False
            for fld, spk in (getattr(pk_, "sub", None) or {}).items():
                # a refutable sub-pattern of a field: the field's value decides
                val = None
                if sc[0] == "struct":
                    val = dict(sc[2]).get(fld)
                elif sc[0] == "ctor" and fld.isdigit() and int(fld) < len(sc[2]):
                    val = sc[2][int(fld)]
                if val is None or not (val[0] in ("variant", "lit", "struct", "ctor", "pos") or _decided_tuple(val)):
                    raise Undecided()
                if not _pat_matches(spk, val):
                    return False
            return True
        if pk_[0] == "lit" and sc[0] == "lit":
            return pk_[1] == sc[1]
        if pk_[0] == "pos" and sc[0] == "pos":
            return tuple(pk_) == tuple(sc)
        if pk_[0] == "tup" and sc[0] == "tup" and len(pk_) == len(sc):
            # a component that is known and does not match refutes the whole pattern; an unknown one under a refutable
            # sub-pattern leaves it undecided
            und = False
            for p, x in zip(pk_[1:], sc[1:]):
                if p == "_":
                    continue
                if not (isinstance(x, tuple) and x and (x[0] in ("variant", "lit", "struct", "ctor", "pos", "arr") or _decided_tuple(x))):
                    und = True
                    continue
                if not _pat_matches(p, x):
                    return False
            if und:
                raise Undecided()
            return True
        if pk_[0] == "PSlice" and len(pk_) == 4 and sc[0] == "arr":
            els = sc[1:]
            bef, mid, aft = pk_[1], pk_[2], pk_[3]
            if len(els) < len(bef) + len(aft) or (not mid and len(els) != len(bef) + len(aft)):
                return False
            pairs = list(zip(bef, els[:len(bef)])) + (list(zip(aft, els[len(els) - len(aft):])) if aft else [])
            for spk, el in pairs:
                if spk == "_":
                    continue
                if not (isinstance(el, tuple) and (el[0] in ("variant", "lit", "struct", "ctor", "pos") or _decided_tuple(el))):
                    raise Undecided()
                if not _pat_matches(spk, el):
                    return False
            return True
        if pk_[0] == "range" and sc[0] == "lit":
            lo, hi, end = pk_[1], pk_[2], pk_[3]
            try:
                if lo is not None and sc[1] < lo:
                    return False
                if hi is not None:
                    return sc[1] <= hi if "Included" in str(end) else sc[1] < hi
                return True
            except TypeError:
                return False
    return False


OPTION_PASS = ("::unwrap_or", "::unwrap_or_else", "::unwrap_or_default", "::map", "::map_or", "::map_or_else", "::and_then", "::or",
               "::or_else", "::filter", "::copied", "::cloned", "::then", "::then_some", "::unwrap", "::expect")


def nf_leaves(t, conds=()):
    """Leaves of a normal form in value position with the conditions under which each is the value:
    descends through if / match (arm guards) / closures and the Option combinators (unwrap_or, map, map_or, and_then ...).
    A leaf that is the *source* option itself (e.g. the table lookup a combinator chain starts from) is reported too; rules
    filter what they accept.  conds: tuple of (normal form, polarity)."""
    if not isinstance(t, tuple) or not t:
        return [(t, conds)]
    h = t[0]
    if h == "if":
        return nf_leaves(t[2], conds + ((t[1], True),)) + nf_leaves(t[3], conds + ((t[1], False),))
    if h == "match":
        out = []
        for pk_, g, body in t[2]:
            c2 = conds + (((("matches", t[1], pk_)), True),)
            if g is not None:
                c2 = c2 + ((g, True),)
            out += nf_leaves(body, c2)
        return out
    if h == "closure":
        return nf_leaves(t[2], conds)
    if h == "call" and isinstance(t[1], str) and t[1].endswith(OPTION_PASS) and ("Option" in t[1] or "option" in t[1] or "bool" in t[1]):
        out = []
        for a in t[2]:
            out += nf_leaves(a, conds)
        return out
    if h == "ctor" and len(t[2]) == 1 and str(t[1]).endswith(("::Some", "::Ok")):
        return nf_leaves(t[2][0], conds)
    return [(t, conds)]


def guards_term(guards, rest=("lit", True), skip=None):
    """One term for "all these lexical guards hold" (innermost last): `if let PAT = e` guards become
    `match e { PAT => <rest>, _ => false }` so that case folding can decide them and bind their names."""
    term = rest
    for x in reversed(list(guards)):
        if skip is not None and skip(x):
            continue
        if x[0] == "if" and isinstance(x[1], tuple) and x[1][:1] == ("let",):
            if x[2] is True:
                term = ("match", x[1][2], ((x[1][1], None, term), ("_", None, ("lit", False))))
            else:
                term = ("bin", "&&", ("match", x[1][2], ((x[1][1], None, ("lit", False)), ("_", None, ("lit", True)))), term)
        elif x[0] == "if":
            term = ("bin", "&&", x[1] if x[2] else ("not", x[1]), term)
        elif x[0] == "arm" and isinstance(x[1], tuple) and not (x[1][0] == "call" and str(x[1][1]).endswith(("IntoIterator::into_iter", "Iterator::next"))):
            earlier = tuple((pk_, g_, ("lit", False)) for pk_, g_ in (x[4] if len(x) > 4 else ()))
            term = ("match", x[1], earlier + ((x[2], None, term), ("_", None, ("lit", False))))
    return term


def eval_returns(body, sym, assume, discr=None, helpers=None, evalcalls=None, tail=True):
    """Which `return` (or the tail expression) a function leaves through under a case assumption, and with what value:
    every return leaf gets the term "all my lexical guards hold" (guards_term), folded under `assume`.
    Returns (value, None) when exactly one leaf's condition folds to true and all others to false,
    else (None, reason)."""
    leaves = [(l, w) for n, l, w in return_leaves(body) if l is not None]
    if tail:
        te = strip(body).get("expr") if strip(body).get("k") == "Block" else None
        if te is not None:
            leaves += value_leaves(te)
    fired = []
    for l, w in leaves:
        g = guards_of(l, body, sym) or []
        c = fold(guards_term(g), assume, discr, helpers, evalcalls)
        if c == ("lit", True):
            fired.append((l, w))
        elif c != ("lit", False):
            return None, "undecided condition at line %s: %s" % (line(l), fmt(c, 120))
    if len(fired) != 1:
        return None, "%d return paths taken" % len(fired)
    l, w = fired[0]
    return fold(wrap_value(sym(l), w), assume, discr, helpers, evalcalls), None


def all_leaves_false(t):
    """a folded condition that is `false` on every branch of the if / match structure that is still undecided"""
    if t == ("lit", False):
        return True
    if isinstance(t, tuple) and t and t[0] == "if" and len(t) == 4:
        return all_leaves_false(t[2]) and all_leaves_false(t[3])
    if isinstance(t, tuple) and t and t[0] == "match":
        return all(all_leaves_false(b) for _, _, b in t[2])
    if isinstance(t, tuple) and t and t[0] == "bin" and t[1] == "&&":
        return all_leaves_false(t[2]) or all_leaves_false(t[3])
    if isinstance(t, tuple) and t and t[0] == "nomatch":
        return True
    return False


def lift_ifs(t, limit=64):
    """Case split of a pure normal form: every `if` / `match` nested anywhere in it (closures excluded) is lifted to the top.
    Returns [(conds, term without if/match)] with conds a tuple of (condition, polarity) / (("matches", scrutinee, pattern), True).
    Path enumeration of an expression - more than `limit` cases raises ValueError."""
    def go(t):
        if not isinstance(t, tuple) or not t:
            return [((), t)]
        h = t[0]
        if h == "closure":
            return [((), t)]
        if h == "if":
            out = []
            for cc, c in go(t[1]):
                for ca, a in go(t[2]):
                    out.append((cc + ((c, True),) + ca, a))
                for cb, b in go(t[3]):
                    out.append((cc + ((c, False),) + cb, b))
            return out
        if h == "match":
            out = []
            for cs, sc in go(t[1]):
                for pk_, g, body in t[2]:
                    extra = ((("matches", sc, pk_), True),) + (((g, True),) if g is not None else ())
                    for cb, b in go(body):
                        out.append((cs + extra + cb, b))
            return out
        # product over children
        parts = [[((), h)]] if not isinstance(h, tuple) else [go(h)]
        combos = [((), ())]
        items = t if isinstance(h, tuple) else t[1:]
        head = () if isinstance(h, tuple) else (h,)
        for x in items:
            alts = go(x) if isinstance(x, tuple) else [((), x)]
            new = []
            for cc, acc in combos:
                for ca, a in alts:
                    new.append((cc + ca, acc + (a,)))
            combos = new
            if len(combos) > limit:
                raise ValueError("too many cases")
        return [(cc, head + acc) for cc, acc in combos]
    return go(t)


def subterms(t):
    """Every nested tuple of a normal form (terms, argument tuples, arm tuples...)."""
    if isinstance(t, tuple) and t:
        yield t
        for x in t:
            if isinstance(x, tuple):
                yield from subterms(x)


def contains(t, sub):
    return any(x == sub for x in subterms(t))
