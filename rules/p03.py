"""C03 - taking a move back restores the game exactly; queries change nothing.

Compositional static argument (each clause is a rule here):
 (M)   Game::pop mirrors Game::push per move kind: every square push writes is written last by pop with its pre-move
       content, the king cache is restored, one state entry is dropped, the side and the side/state keys flip back;
 (S1)  hash/score/past_*/piece_scores/king_positions/state/current_player are written only by the primitives that keep
       their invariants (who-may-write on MIR), and set_position keeps `total (-)= old; slot = f(new); total (+)= slot`;
 (S1b) whoever swaps an evaluation table re-seats the cached contributions that depend on it before returning;
 (S2)  every caller pairs push and pop on all paths (typestate over the CFG), abort paths only on owned games;
 (S6)  the &self observers reach no mutation; tables never change between a push and its pop;
 (S8)  the king cache's setter and getter agree on the slot of each side (by cases over the two sides).
Does not decide: the generator invariant (captured_piece = content of `end`) beyond the construction sites.
"""
from . import core, hir, mir, surgery, pairing
from .common import field_writes, discr_map

LEVEL = "other"
EXPLANATION = ("Mirror law between the extracted board surgeries of Game::push and Game::pop per move kind and owner; push/pop "
               "typestate pairing over the MIR CFG of every function that plays moves; who-may-write table over all MIR "
               "assignments / mutable borrows / Cell::set of Game's fields; call-graph purity of the &self observers.")

GAME = "chess::Game"
WRITERS = {
    "board": {"chess::Game::set_position": "the only square writer"},
    "past_scores": {"chess::Game::set_position": "keeps past_scores[s] = score(board[s])"},
    "past_hashes": {"chess::Game::set_position": "keeps past_hashes[s] = key(board[s])"},
    "hash": {"chess::Game::set_position": "xor old out, new in", "chess::Game::push": "side + state keys",
             "chess::Game::pop": "side + state keys", "chess::Game::new": "root state key"},
    "score": {"chess::Game::set_position": "- old + new"},
    "piece_scores": {"chess::Game::update_phase": "king table swap (S1b applies)"},
    "king_positions": {"chess::Game::set_king_position": "cache of the king squares"},
    "state": {"chess::Game::push": "one push per ply", "chess::Game::pop": "one truncate-by-one per ply",
              "chess::Game::new": "root entry"},
    "current_player": {"chess::Game::push": "flip", "chess::Game::pop": "flip back"},
    "move_stack": {"chess::Game::push_history": "record only"},
    "phase": {"chess::Game::update_phase": "record only"},
}
OBSERVERS = ["chess::Game::fen", "chess::Game::hash", "chess::Game::score", "chess::Game::len", "chess::Game::get_king_position",
             "chess::Game::state", "chess::Game::get_position", "chess::Game::king_exists", "chess::Game::is_targeted",
             "chess::Game::is_endgame", "chess::Game::get_pgn", "<chess::Game as std::fmt::Display>::fmt",
             "chess::Game::move_stack", "chess::Game::player"]
MUTATORS = {"chess::Game::set_position", "chess::Game::set_king_position", "chess::Game::push", "chess::Game::pop",
            "chess::Game::push_history", "chess::Game::update_phase"}


def run(ctx):
    F = ctx.facts
    mirror(ctx, F)
    stack_and_keys(ctx, F)
    writers(ctx, F)
    set_position_discipline(ctx, F)
    s1b(ctx, F)
    s2(ctx, F)
    purity(ctx, F)
    king_cache_accessors(ctx, F)
    current_state_is_top(ctx, F)
    # S7 = C02.R1-R3: a move list query plays and takes back every move it tests - with a wrong successor (a right that should have
    # been lost, a square left occupied) the list contains moves whose play/take-back does not restore the position
    from . import p02, p17
    before, nv = len(ctx.instances), len(ctx.violations)
    p02.r123(ctx, F)
    p17.relabel(ctx, before, nv, "C03.S7")


def mirror(ctx, F):
    """pop after push restores every square push wrote and the king cache, per concrete move case (rules/playmodel.py)."""
    from . import playmodel
    pop = F.fn("chess::Game::pop")
    try:
        bad, n = playmodel.check_pop(F)
    except hir.Unsupported as e:
        ctx.check("C03.M", "summarisable", False, fn=pop["path"], file=pop["file"], nontrivial=False,
                  what="Game::push / Game::pop are no longer loop-free updates that can be summarised: %s" % e)
        return
    by_case = {}
    for name, txt in bad:
        by_case.setdefault(name, []).append(txt)
    for name, mv, owner, pre, exp in playmodel.move_cases():
        probs = by_case.get(name, [])
        ctx.check("C03.M", "pop-restores:%s" % name, not probs, fn=pop["path"], file=pop["file"], line=pop["span"][0],
                  what="Game::pop does not restore the pre-move content of every square Game::push writes, or the cached king square, "
                       "for this move", expected={"board before": playmodel.show_board(pre)}, found=probs or "restored")
    ctx.floor("C03.M", "mirror cases", n, 30)


def _show(m):
    return {str(k): (v if not isinstance(v, tuple) else "%s(%s)" % v) for k, v in sorted(m.items(), key=lambda kv: str(kv[0]))}


def stack_and_keys(ctx, F):
    """pop: state key out, truncate by exactly one, state key in, side key, flip - unconditionally."""
    fn = F.fn("chess::Game::pop")
    body = hir.strip(fn["hir"]["body"])
    env = hir.Env(fn["hir"], F)
    sym = hir.Sym(env, F)
    seq = []
    for st in body.get("stmts") or ():
        n = hir.strip(st)
        if n.get("k") == "MethodCall" and n["name"] in ("truncate", "pop") and hir.strip(n["recv"]).get("k") == "Field" \
                and hir.strip(n["recv"])["name"] == "state":
            if n["name"] == "pop":
                seq.append("drop-one")
            else:
                a = hir.fmt(sym(n["args"][0]), 120)
                one = a in ("<impl usize>::saturating_sub(Game::len(self), 1)", "(Game::len(self) - 1)",
                            "<impl usize>::saturating_sub(<T, CAP>::len(self.state), 1)", "(<T, CAP>::len(self.state) - 1)")
                seq.append("drop-one" if one else "truncate(%s)" % a)
        elif n.get("k") == "Assign" and hir.strip(n["l"]).get("k") == "Field" and hir.strip(n["l"])["name"] == "current_player":
            want_flip = ("call", "chess::Player::the_other", (("field", ("var", "self"), "current_player"),))
            ok = sym(n["r"]) == want_flip
            if not ok:
                # the mover read into a local first: the same value as long as this is the only assignment of the side in the function
                n_assign = sum(1 for x, _ in hir.walk(fn["hir"]["body"]) if x.get("k") == "Assign" and hir.strip(x["l"]).get("k") == "Field"
                               and hir.strip(x["l"])["name"] == "current_player")
                ok = n_assign == 1 and hir.Sym(env, F, through=True)(n["r"]) == want_flip
            seq.append("flip" if ok else "assign-player?")
        elif n.get("k") == "Match":
            seq.append("match")
    ok = seq.count("drop-one") == 1 and seq.count("flip") == 1 and "match" in seq and seq.index("flip") < seq.index("match") \
        and seq.index("drop-one") < seq.index("match") and not [x for x in seq if x.startswith("truncate(") or x == "assign-player?"]
    ctx.check("C03.M", "pop-drops-one-state-and-flips-side-before-restoring", ok, fn=fn["path"], file=fn["file"], line=fn["span"][0],
              what="pop must drop exactly one state entry and flip the side back (the arms use the restored side)",
              expected=["drop-one", "flip", "match"], found=seq)
    # ... and what pop drops must be what push stacked: push adds one entry on every path and cannot drop it silently
    pfn = F.fn("chess::Game::push")
    adds = []
    for n, anc in hir.walk(pfn["hir"]["body"]):
        if n.get("k") == "MethodCall" and hir.strip(n["recv"]).get("k") == "Field" and hir.strip(n["recv"])["name"] == "state" \
                and n["name"] in ("push", "push_unchecked", "try_push", "try_push_unchecked", "insert", "try_insert", "extend", "try_extend_from_slice"):
            par = anc[-1] if anc else {}
            # a fallible push whose result is consumed by unwrap/expect/`?` stops the program instead of losing the entry
            consumed = par.get("k") == "MethodCall" and par["name"] in ("unwrap", "expect", "unwrap_unchecked") or \
                (par.get("k") == "Call" and str(hir.callee_of(par) or "").endswith("Try::branch"))
            silent = n["name"].startswith("try_") and not consumed
            cond = [x for x in (hir.guards_of(n, pfn["hir"]["body"], hir.Sym(hir.Env(pfn["hir"], F), F)) or []) if x[0] in ("if", "arm")]
            adds.append((n["name"], silent, bool(cond)))
    ok = len(adds) == 1 and not adds[0][1] and not adds[0][2]
    if len(adds) == 1 and adds[0][1] and not adds[0][2]:
        # a dropped `try_push` result is harmless as long as the stack keeps the capacity the unchecked push was verified for (C15.CAP:
        # 512 >= 400 plies of game + 64 iterations + the capture-only plies below them)
        import re as _re
        cap = None
        for v_ in F.adt("chess::Game")["variants"]:
            for f_ in v_["fields"]:
                if f_.get("name") == "state":
                    m_ = _re.search(r"ArrayVec<[^,]+,\s*([A-Za-z0-9_:]+)\s*>", str(f_.get("ty")))
                    if m_ and m_.group(1).isdigit():
                        cap = int(m_.group(1))
                    elif m_:
                        cs = [c_ for c_ in F.consts if c_ == m_.group(1) or c_.endswith("::" + m_.group(1).split("::")[-1])]
                        if len(cs) == 1:
                            try:
                                cap = F.const_int(cs[0])
                            except Exception:
                                cap = None
        ok = cap is not None and cap >= 512
        adds = adds + [("capacity of the state stack", cap)]
    ctx.check("C03.M", "push-stacks-one-state-unconditionally", ok, fn=pfn["path"], file=pfn["file"], line=pfn["span"][0],
              what="push must add exactly one entry to the per-ply state stack on every path, by an operation that cannot drop it silently "
                   "(a `try_push` whose result is ignored loses the entry when the stack is full; the matching pop then removes an older one)",
              expected=[("push | push_unchecked", False, False)], found=adds)


def writers(ctx, F):
    n = 0
    a = F.adt(GAME)
    fields = [f["name"] for f in a["variants"][0]["fields"]]
    for f in fields:
        if f not in WRITERS:
            # a field the table does not know: harmless for take-back exactly when nothing writes it after the game was built
            # (set once by the importer, copied by Clone) - then no play/take-back sequence can change it
            ws_new = sorted({path for path, node, kind in field_writes(F, GAME, f)} - {"<chess::Game as std::clone::Clone>::clone", "chess::Game::new"})
            ctx.check("C03.S1", "field-in-writer-table:%s" % f, not ws_new, fn=GAME, file=a["file"],
                      what="Game has a field the who-may-write table does not know and that is written after construction: its "
                           "restore-on-pop discipline is unchecked",
                      expected="written only by Game::new (a constant of the loaded game)", found={"field": f, "written by": ws_new})
    for f, allowed in WRITERS.items():
        ws = field_writes(F, GAME, f)
        by_fn = {}
        for path, node, kind in ws:
            by_fn.setdefault(path, []).append(kind)
        for path, kinds in sorted(by_fn.items()):
            n += 1
            ok = path in allowed or path == "<chess::Game as std::clone::Clone>::clone"
            ctx.check("C03.S1", "writer:%s<-%s" % (f, path), ok, fn=path, file=F.fn(path)["file"], line=F.fn(path)["span"][0],
                      what="Game.%s is written by a function outside the primitives that keep its invariant (take-back cannot restore it)" % f,
                      expected=sorted(allowed), found="%s (%s)" % (path, ",".join(sorted(set(kinds)))))
        for path in allowed:
            if path not in by_fn and not (f in ("hash", "state") and path == "chess::Game::new"):
                ctx.check("C03.S1", "expected-writer-present:%s<-%s" % (f, path), False, fn=path, file="src/chess/mod.rs",
                          what="the primitive expected to maintain Game.%s no longer writes it (mechanism moved?)" % f, nontrivial=False)
    ctx.floor("C03.S1", "writer rows", n, 14)
    # fields are private: nobody outside module `chess` can name them
    vis = {f["name"]: f["vis"] for f in a["variants"][0]["fields"]}
    ctx.check("C03.S1", "fields-private-to-module-chess", all(v == "in:chess" for v in vis.values()), fn=GAME, file=a["file"],
              what="a field of Game became visible outside module `chess`: the writer table no longer bounds who can change it",
              found={k: v for k, v in vis.items() if v != "in:chess"})


def set_position_discipline(ctx, F):
    """set_position, executed symbolically and folded per case of the new content (empty / a piece P):
    final hash = (hash ^ old slot) ^ X and the hash slot ends as the same X; final score = (score - old slot) + Y and the
    score slot ends as Y; the board slot ends as the new content; X and Y depend on the new content and the square only."""
    from .common import set_position_summary
    fn = F.fn("chess::Game::set_position")
    try:
        sm = set_position_summary(F)
    except hir.Unsupported as e:
        ctx.check("C03.S1", "set_position-discipline", False, fn=fn["path"], file=fn["file"], line=fn["span"][0], nontrivial=False,
                  what="set_position is no longer a loop-free update that can be summarised: %s" % e)
        return
    pos_name, new_name = sm["params"]
    old = sm["old"]
    problems = []
    for case in ("None", "Some"):
        c = sm[case]
        want_board = ("variant", "std::prelude::v1::None") if case == "None" else ("ctor", "std::prelude::v1::Some", (("var", "P"),))
        if c["board"] != want_board:
            problems.append("%s: board slot ends as %s" % (case, hir.fmt(c["board"], 80) if c["board"] else None))
        for total, slot, arr, out_op, in_op in (("hash", "slot_h", "past_hashes", "^", "^"), ("score", "slot_s", "past_scores", "-", "+")):
            X = c[slot]
            T = c[total]
            if X is None or T is None or arr not in old:
                problems.append("%s: %s or its slot is not updated" % (case, total))
                continue
            base = ("field", ("var", "self"), total)
            exp1 = ("bin", in_op, ("bin", out_op, base, old[arr]), X)
            ok = T == exp1 or T == hir.fold(exp1, {})
            if not ok and in_op == "^":
                ok = hir.canon(T) == hir.canon(exp1)
            if not ok:
                problems.append("%s: %s ends as %s, slot as %s" % (case, total, hir.fmt(T, 200), hir.fmt(X, 80)))
            # the recomputed contribution reads the new content / the square / the tables, never the old slot or old total
            bad = [x for x in hir.subterms(X) if x in (old.get("past_hashes"), old.get("past_scores"), old.get("board")) or
                   (x[:1] == ("field",) and x[1:2] == (("var", "self"),) and x[2] in ("hash", "score"))]
            if bad:
                problems.append("%s: new %s contribution reads old state: %s" % (case, total, hir.fmt(bad[0], 80)))
    ctx.check("C03.S1", "set_position-discipline", not problems, fn=fn["path"], file=fn["file"], line=fn["span"][0],
              what="set_position must take the old cached contribution out of hash/score, store the new content, recompute the "
                   "cached contribution from the NEW content and add it back, on every path",
              expected="hash' = (hash ^ old) ^ X, slot' = X; score' = (score - old) + Y, slot' = Y; board slot' = new content",
              found=problems or {k: hir.fmt(v, 120) for k, v in sm["Some"].items() if isinstance(v, tuple)})
    ctx.check("C03.S1", "set_position-slots-of-the-same-square", sm["index"] == {"Position::as_usize(%s)" % pos_name}, fn=fn["path"], file=fn["file"],
              what="board, past_scores and past_hashes must be indexed by the same square", found=sorted(sm["index"]))


def _slot_name(t):
    """Which Game array a normal form denotes a slot of (through tuple-let projections / derefs)."""
    s = hir.fmt(t, 600)
    for name in ("past_hashes", "past_scores", "board"):
        if t and t[0] == "field" and t[2] in ("0", "1", "2") and t[1] and t[1][0] == "tup":
            comp = t[1][1 + int(t[2])]
            if ("self.%s" % name) in hir.fmt(comp, 300):
                return name
        if t and t[0] in ("call", "index") and ("self.%s" % name) in s and s.count("self.") == 1:
            return name
    if t and t[0] == "var":
        return {"place": "board", "place_score": "past_scores", "place_hash": "past_hashes"}.get(t[1], t[1])
    return s[:60]


def s1b(ctx, F):
    """A function that swaps an evaluation table must re-seat every cached contribution that depends on it."""
    sites = [w for w in field_writes(F, GAME, "piece_scores") if w[2] == "cell-set"]
    ctx.floor("C03.S1b", "table-swap sites", len(sites), 1)
    seen_paths = set()
    for path, node, kind in sites:
        if path in seen_paths:
            continue
        seen_paths.add(path)
        fn = F.fn(path)
        body = fn["hir"]["body"]
        env = hir.Env(fn["hir"], F)
        sym = hir.Sym(env, F)
        sets = [c for c, _ in hir.walk(body) if c.get("k") == "MethodCall" and c["name"] == "set" and
                "piece_scores" in hir.fmt(sym(c["recv"]), 200)]
        which = set()
        for c in sets:
            r = sym(c["recv"])
            if r[0] == "index":
                which.add(hir.fmt(r[2], 60))
        king_only = which == {"(PieceType::King as usize)"}
        ctx.check("C03.S1b", "swapped-table-is-the-king-table", king_only, fn=path, file=fn["file"], line=hir.line(sets[0]) if sets else None,
                  what="a table other than the king's is swapped at run time: every square holding that piece kind would need re-seating "
                       "(not supported by this rule)", found=sorted(which))
        # re-seating: set_position(X, get_position(X)) with X ranging over both kings' squares, after the swap and under the
        # same condition.  X may be get_king_position(P) (P a literal side, or the variable of a loop over both sides) or
        # self.king_positions[i] (i over all indices: literals, a `for` over 0..2 / the array, or a counting `while`).
        for c0 in (sets or [None]):
            if c0 is None:
                break
            reseated = set()
            symt = hir.Sym(env, F, through=True)
            swap_guard = [(hir.fmt(x[1]), x[2]) for x in (hir.guards_of(c0, body, sym) or []) if x[0] == "if"] if sets else []
            for c, anc in hir.walk(body):
                if not (c.get("k") == "MethodCall" and c["name"] == "set_position" and hir.raw_line(c) >= hir.raw_line(c0)):
                    continue
                blk = [a for a in anc if a.get("k") in ("Block", "Loop")][-1]
                sts = blk.get("stmts") or []
                pos_i = [i for i, st in enumerate(sts) if any(x is c for x, _ in hir.walk(st))]
                # the locals the call reads must be defined by lets directly in front of it (nothing but lets in between)
                k0 = pos_i[0] if pos_i else 0
                j = k0
                while j > 0 and sts[j - 1].get("k") == "SLet":
                    j -= 1
                adjacent = {nm for st in sts[j:k0] for nm in hir.pat_names(st["pat"])}
                sq_n, val_n = c["args"][0], c["args"][1]
                names_used = {x["to"]["name"] for a_ in (sq_n, val_n) for x, _ in hir.walk(a_) if x.get("k") == "Path" and x["to"].get("res") == "local"}
                through_ok = all(nm in adjacent or nm == "self" or sym(a_) == symt(a_) for nm in names_used for a_ in (sq_n, val_n))
                sq, val = (symt(sq_n), symt(val_n)) if through_ok else (sym(sq_n), sym(val_n))
                if val != ("call", "chess::Game::get_position", (("var", "self"), sq)):
                    continue
                g_all = hir.guards_of(c, body, sym) or []
                here = [(hir.fmt(x[1]), x[2]) for x in g_all if x[0] == "if"]
                loop_conds = []
                who = None
                if sq[0] == "call" and str(sq[1]).endswith("Game::get_king_position"):
                    who = sq[2][1]
                elif sq[0] == "index" and sq[1] == ("field", ("var", "self"), "king_positions"):
                    who = ("kidx", sq[2])
                elif sq[0] == "var":
                    who = ("elem", sq[1])
                sides = set()
                if who is None:
                    continue
                if who[0] == "variant":
                    sides.add(who[1].split("::")[-1])
                elif who[0] == "kidx" and hir.sym_int(who[1]) in (0, 1):
                    sides.add(("White", "Black")[hir.sym_int(who[1])])
                else:
                    var = who[1] if who[0] == "var" else (who[1][1] if who[0] == "kidx" and who[1][0] == "var" else (who[1] if who[0] == "elem" else None))
                    # `for` loops: the arm that binds `var`
                    for x in g_all:
                        if x[0] == "arm" and x[1][0] == "call" and str(x[1][1]).endswith("into_iter"):
                            it = x[1][2][0]
                            if who[0] == "var" and it[0] == "arr" and all(el[0] == "variant" for el in it[1:]):
                                sides |= {el[1].split("::")[-1] for el in it[1:]}
                            if who[0] == "elem" and it == ("field", ("var", "self"), "king_positions"):
                                sides |= {"White", "Black"}
                            if who[0] == "kidx":
                                t_it = hir.fmt(hir.resolve_consts(it, F), 120)
                                if t_it in ("ops::Range{end: 2, start: 0}", "ops::Range{end: <impl [T]>::len(self.king_positions), start: 0}"):
                                    sides |= {"White", "Black"}
                    # counting `while`: let mut i = 0; while i < len { ..; i += 1 }
                    if who[0] == "kidx" and var is not None and not sides:
                        loops = [a for a in anc if a.get("k") == "Loop" and "While" in str(a.get("src"))]
                        inits = [n_ for n_, _ in hir.walk(body) if n_.get("k") == "SLet" and n_["pat"].get("name") == var and n_.get("init") is not None
                                 and hir.sym_int(sym(n_["init"])) == 0]
                        if loops and len(inits) == 1:
                            lp = loops[-1]
                            incs = [n_ for n_, _ in hir.walk(lp) if n_.get("k") == "AssignOp" and hir.strip(n_["l"]).get("to", {}).get("name") == var]
                            other = [n_ for n_, _ in hir.walk(lp) if n_.get("k") == "Assign" and hir.strip(n_["l"]).get("to", {}).get("name") == var]
                            jumps = [n_ for n_, a2 in hir.walk(lp) if n_.get("k") in ("Continue", "Ret") or (n_.get("k") == "Break" and not n_.get("mac"))]
                            cond_ok = any(t in ("(%s < <impl [T]>::len(self.king_positions))" % var, "(%s < 2)" % var) and pol for t, pol in
                                          [(hir.fmt(hir.canon(hir.resolve_consts(x[1], F)), 120), x[2]) for x in g_all if x[0] == "if"])
                            if len(incs) == 1 and incs[0]["op"] == "+=" and hir.sym_int(sym(incs[0]["r"])) == 1 and not other and cond_ok and \
                                    hir.raw_line(incs[0]) > hir.raw_line(c) and len(jumps) <= 1:
                                sides |= {"White", "Black"}
                                loop_conds = [t for t, pol in here if t.startswith("(%s <" % var)]
                here2 = [(t, pol) for t, pol in here if t not in loop_conds]
                if here2 == swap_guard:
                    reseated |= sides
            ctx.check("C03.S1b", "both-kings-reseated-after-table-swap", reseated == {"White", "Black"}, fn=path, file=fn["file"],
                      line=hir.line(c0) if sets else fn["span"][0],
                      what="the king table is swapped but the kings' cached contributions are not recomputed: score stops being the sum of "
                           "per-square contributions and the next king push/pop (even inside get_moves) changes it",
                      expected="set_position(get_king_position(p), get_position(..)) for p in {White, Black} under the same condition as the swap",
                      found=sorted(reseated))
    # tables never change between a push and its pop: the swap is reachable only from new / push_history
    g = mir.callgraph(F)
    for path, node, kind in sites:
        callers = mir.callers_of(g, path)
        ok = callers <= {"chess::Game::new", "chess::Game::push_history"}
        ctx.check("C03.S1b", "table-swap-only-from-import-and-history-play", ok, fn=path, file=F.fn(path)["file"],
                  what="the evaluation tables may change between a push and its pop (swap reachable from search-style play)",
                  expected=["chess::Game::new", "chess::Game::push_history"], found=sorted(callers))
    for start in ("chess::Game::push", "chess::Game::pop", "chess::Game::get_moves"):
        r = mir.reachable_fns(g, start)
        bad = sorted(p for p, _, _ in sites if p in r)
        ctx.check("C03.S1b", "no-table-swap-reachable-from:%s" % start, not bad, fn=start, file="src/chess/mod.rs",
                  what="a table swap is reachable from %s" % start, found=bad)


# ---------------------------------------------------------------------------

PAIR_FLOOR = {"chess::Game::get_moves": 1, "search::quiescence_search": 1, "search::get_best_move_score_depth_1": 1,
              "search::get_best_move_score": 1, "search::get_best_move_entry": 1, "performance_test::perft": 1}


def s2(ctx, F):
    g = mir.callgraph(F)
    players = sorted(p for p, cs in g.items() if pairing.PUSH in cs or pairing.POP in cs)
    total_pairs = 0
    for path in players:
        fn = F.fn(path)
        if path in pairing.ONE_WAY:
            ctx.check("C03.S2", "one-way-play:%s" % path, True, fn=path, file=fn["file"], nontrivial=False,
                      what=pairing.ONE_WAY[path])
            continue
        res = pairing.analyse(fn, True)
        if any(e[0] == "join-of-different-stacks" for e in res["errors"]):
            res2 = pairing.analyse(fn, False)   # one-way play on a game the function owns is legitimate
            if not res2["errors"]:
                res = res2
        total_pairs += len(res["pairs"])
        for kind, b, line, msg in res["errors"]:
            ctx.check("C03.S2", "%s:%s" % (kind, path), False, fn=path, file=fn["file"], line=line,
                      what="push/pop pairing broken: " + msg)
        if not res["errors"]:
            ctx.check("C03.S2", "paired-on-all-paths:%s" % path, True, fn=path, file=fn["file"], line=fn["span"][0],
                      found="%d push/pop pair(s)" % len(res["pairs"]))
        need = PAIR_FLOOR.get(path)
        if need is not None:
            ctx.check("C03.S2", "pairs-found:%s" % path, len(res["pairs"]) >= need, fn=path, file=fn["file"],
                      what="fewer matched push/pop pairs than confirmed by hand (mechanism changed?)", expected=need,
                      found=len(res["pairs"]), nontrivial=False)
        # abort paths with pending pushes on a borrowed game
        pend = [a for a in res["abort_pending"] if a[3] > 0]
        if pend:
            ok = path in pairing.ABORT_EXEMPT
            why = ""
            if path == "search::get_best_move_score":
                callers = mir.callers_of(g, path)
                ok = callers <= {"search::get_best_move_score", "search::get_best_move_entry"}
                why = "callers=%s" % sorted(callers)
            ctx.check("C03.S2", "abort-leaves-pending-push:%s" % path, ok, fn=path, file=fn["file"], line=pend[0][1],
                      what="an early return (`?`) leaves a borrowed game with moves played and not taken back",
                      expected="only on the enumerated abort chain ending in get_best_move_entry's by-value game", found=why or pend)
    # ownership fact the abort exemption rests on
    e = F.fn("search::get_best_move_entry")
    ctx.check("C03.S2", "abort-chain-ends-in-by-value-game", e["inputs"][0] == "chess::Game", fn=e["path"], file=e["file"],
              line=e["span"][0], what="get_best_move_entry must own its game (aborted searches leave it with moves played)",
              expected="chess::Game", found=e["inputs"][0])
    d = F.fn("search::get_best_move_until_stop")
    pass_clone = False
    for c, anc in hir.calls(d["hir"]["body"], "search::get_best_move_entry"):
        a0 = hir.strip(c["args"][0])
        pass_clone = a0.get("k") == "MethodCall" and a0["name"] == "clone"
    ctx.check("C03.S2", "driver-searches-a-clone", pass_clone, fn=d["path"], file=d["file"],
              what="the driver must hand a clone of the caller's game to the search", found=pass_clone)
    ctx.floor("C03.S2", "balanced push/pop pairs", total_pairs, 6)       # 10 on the reference tree; sites may be merged behind one helper or one call


def current_state_is_top(ctx, F, rule="C03.M"):
    """The state every rule calls "current" (`Game::state()`: castling rights, en-passant file, state key) is the entry push stacked
    last: evaluated on a stack of three distinct entries the accessor yields the third (and `len()` counts the same stack)."""
    fn = F.fn("chess::Game::state")
    if not fn.get("hir"):
        return
    sym = hir.Sym(hir.Env(fn["hir"], F), F)
    t = sym(fn["hir"]["body"])
    STK = ("field", ("var", "self"), "state")
    if STK not in set(hir.subterms(t)):
        return          # (the state is kept some other way: not decided here)
    arr = ("arr", ("var", "s0"), ("var", "s1"), ("var", "s2"))
    v = hir.fold(hir.fold(t, {STK: arr}), {STK: arr})
    decided = isinstance(v, tuple) and v[:1] == ("var",) and v[1] in ("s0", "s1", "s2")
    if decided:
        ctx.check(rule, "current-state-is-the-entry-stacked-last", v == ("var", "s2"), fn=fn["path"], file=fn["file"], line=fn["span"][0],
                  what="`Game::state()` does not yield the entry push stacked last: rights and en-passant file of an earlier position "
                       "are taken for the current ones", expected="the last entry of the stack", found=hir.fmt(t, 120))


def king_cache_accessors(ctx, F, rule="C03.S8"):
    """S8 the king cache is one slot per side and the two accessors agree on which: `set_king_position(p, x)` writes the slot that
    `get_king_position(p)` reads, with x, the slots of the two sides differ, and the importer fills them in the same order.  Every
    other rule (push's surgery, the in-check test of the move generator, the table swap) treats the two accessors as an opaque
    pair and relies on exactly this.  Decided by cases over the two sides."""
    PL = "chess::Player::"
    g_fn, s_fn = F.fn("chess::Game::get_king_position"), F.fn("chess::Game::set_king_position")
    if not g_fn.get("hir") or not s_fn.get("hir"):
        return
    def pnames(fn):
        return [str(p_["pat"].get("name", "")).split("'")[0] for p_ in fn["hir"].get("params", []) if isinstance(p_.get("pat"), dict)]
    gp, sp = pnames(g_fn), pnames(s_fn)
    if len(gp) != 2 or len(sp) != 3:
        return
    gsym = hir.Sym(hir.Env(g_fn["hir"], F), F)
    gt = gsym(g_fn["hir"]["body"])
    reads, writes = {}, {}
    for pl in ("White", "Black"):
        v = hir.fold(gt, {("var", gp[1]): ("variant", PL + pl)})
        if isinstance(v, tuple) and v[:1] == ("index",) and v[1] == ("field", ("var", gp[0]), "king_positions") and v[2][:1] == ("lit",):
            reads[pl] = v[2][1]
        else:
            reads[pl] = hir.fmt(v, 60)
    ssym = hir.Sym(hir.Env(s_fn["hir"], F), F)
    sbody = s_fn["hir"]["body"]
    for pl in ("White", "Black"):
        ws = []
        for n, _ in hir.walk(sbody):
            if n.get("k") not in ("Assign", "AssignOp"):
                continue
            c = hir.fold(hir.guards_term(hir.guards_of(n, sbody, ssym) or []), {("var", sp[1]): ("variant", PL + pl)})
            if c == ("lit", False) or hir.all_leaves_false(c):
                continue
            tgt, val = ssym(n["l"]), ssym(n["r"])
            tgt = hir.fold(tgt, {("var", sp[1]): ("variant", PL + pl)})
            if isinstance(tgt, tuple) and tgt[:1] == ("index",) and tgt[1] == ("field", ("var", sp[0]), "king_positions") and tgt[2][:1] == ("lit",) \
                    and n.get("k") == "Assign" and val == ("var", sp[2]):
                ws.append(tgt[2][1])
            else:
                ws.append("%s = %s" % (hir.fmt(tgt, 40), hir.fmt(val, 40)))
        writes[pl] = ws
    if not all(isinstance(reads[pl], int) and writes[pl] and all(isinstance(w_, int) for w_ in writes[pl]) for pl in ("White", "Black")):
        return      # (accessors written some other way than slot-per-side by literal index: not decided here)
    ok = all(writes[pl] == [reads[pl]] for pl in ("White", "Black")) and reads["White"] != reads["Black"]
    ctx.check(rule, "king-cache-accessors-agree", ok, fn=s_fn["path"], file=s_fn["file"], line=s_fn["span"][0],
              what="the king cache's setter and getter do not name the same slot for a side (or both sides share a slot): after a king "
                   "move the in-check test looks at a square the king is not on",
              expected="set(p, x): slot[p] = x; get(p): slot[p]; slot[White] != slot[Black]", found={"get reads": reads, "set writes": writes})
    # the importer fills the slots in the order the getter reads them
    new = F.fn("chess::Game::new")
    env = hir.Env(new["hir"], F)
    symT = hir.Sym(env, F, through=True)
    for n, _ in hir.walk(new["hir"]["body"]):
        if n.get("k") == "Struct" and (n["to"].get("path") or "").endswith("chess::Game"):
            for f_ in n["fields"]:
                if f_["name"] == "king_positions":
                    v = symT(f_["e"])
                    if v[:1] == ("arr",) and len(v) == 3 and all(isinstance(reads[pl], int) and reads[pl] in (0, 1) for pl in reads):
                        names = [hir.fmt(x, 80) for x in v[1:]]
                        okl = "white" in names[reads["White"]] and "black" not in names[reads["White"]] and \
                            "black" in names[reads["Black"]] and "white" not in names[reads["Black"]]
                        ctx.check(rule, "importer-fills-the-king-cache-in-the-order-the-getter-reads-it", okl, fn=new["path"], file=new["file"],
                                  line=hir.line(n), what="the imported game's king cache holds the kings in the other order than "
                                  "get_king_position reads them", found={"literal": names, "get reads": reads})


def purity(ctx, F):
    g = mir.callgraph(F)
    cell_sets = set()
    for path, fn in F.fns.items():
        if fn.get("mir"):
            for b in fn["mir"]["blocks"]:
                t = b["term"]
                if t["k"] == "Call" and "Cell" in mir.callee(t) and mir.callee(t).endswith(("::set", "::replace", "::swap", "::take")):
                    cell_sets.add(path)
    all_writers = set()
    for f in WRITERS:
        for path, node, kind in field_writes(F, GAME, f):
            if path != "<chess::Game as std::clone::Clone>::clone" and kind != "init":
                all_writers.add(path)
    n = 0
    for o in OBSERVERS:
        fn = F.fn(o)
        r = mir.reachable_fns(g, o)
        bad = sorted((r & (MUTATORS | cell_sets | all_writers)))
        n += 1
        ctx.check("C03.S6", "observer-reaches-no-mutation:%s" % o, not bad, fn=o, file=fn["file"], line=fn["span"][0],
                  what="a query of the game can reach code that changes the game", found=bad)
        takes_shared = fn["inputs"] and fn["inputs"][0].startswith("&") and not fn["inputs"][0].startswith("&mut")
        ctx.check("C03.S6", "observer-borrows-shared:%s" % o, bool(takes_shared), fn=o, file=fn["file"], nontrivial=False,
                  what="observer no longer takes &self", found=fn["inputs"][:1])
    ctx.floor("C03.S6", "observers", n, 14)
